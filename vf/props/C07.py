"""C07 -- gradients and Jacobian products are the true derivatives.

Theorems: coq/Properties/C07.v (models coq/theories/C07/{CSpace,Wrappers,ArgSel,Quadratic,
ObjModel,Chain,Deriv}.v; executable Qc model QuadExec.v).

Correspondence streams (all inputs dyadic, derived from ctx.rng):
 A  quadratic functionals/losses and their derived copies (c*f, f/c, (c*f)*d, sums, loss(A=..),
    set_scale, block arguments): the EXACT directional derivative is computed by the Coq model
    from the dense matrix of A (vm_compute over Qc, complex numbers as pairs) and compared inside
    Coq with Re<g, d> of the implementation's g, tolerance 2^-30 relative; f(x) is compared too.
 B  every other functional / loss with has_eval at points where it is smooth: Richardson-
    extrapolated central difference in float64, tolerance 1e-6; Huber AT the junction and at 0:
    closed-form gradient of theorem C07_huber_gradient.
 C  Operator.jvp / vjp(conjugate=True/False) of every operator class buildable offline: full
    Jacobian matrices on real bases, V = J^T and T = Cx J^T Cy checked inside Coq; J against
    finite differences of F.
 D  linop.jacobian / Function.jvp / vjp / jacobian (2-3 arguments, every index, with and
    without include_eval); scico.grad / value_and_grad (has_aux) / jacrev / cvjp (jidx) /
    linear_adjoint.
 E  the JAX conventions assumed by the theorems, exercised directly on jax.grad / jax.jvp /
    jax.vjp / jax.linear_transpose / tree_map.
 F  SquaredL2Loss.hessian: H d against the Coq model (exact), self-adjointness, g(x+d)-g(x) = H d.
 G  points at kinks: only "no exception".
"""
from __future__ import annotations

import json
import math

import numpy as np

from vf.common import Ctx, Broken, coq_eval_shards, parse_eval_nat_list, qlit, coq_list

HEADER = """From Coq Require Import List QArith Qcanon Bool.
From SV Require Import C07.QuadExec.
Import ListNotations.
Open Scope Q_scope.
Notation q := Q2Qc.
"""

FD_TOL = 1e-6


# --------------------------------------------------------------------------- small helpers

def dy(rng, bits=2, lo=-2, hi=2):
    den = 1 << bits
    return rng.randint(lo * den, hi * den) / den


def dy_nz(rng, bits=2, lo=-2, hi=2, margin=0.5):
    while True:
        v = dy(rng, bits, lo, hi)
        if abs(v) >= margin:
            return v


def rvec(rng, n, cplx, nz=False, **kw):
    """list of [re, im] pairs (im = 0 for real)"""
    f = dy_nz if nz else dy
    if not nz:
        kw.pop("margin", None)
    return [[f(rng, **kw), (f(rng, **kw) if cplx else 0.0)] for _ in range(n)]


def to_np(pairs, cplx):
    a = np.array([complex(p[0], p[1]) for p in pairs])
    return a if cplx else a.real.copy()


def to_pairs(a):
    a = np.asarray(a).ravel()
    return [[float(np.real(t)), float(np.imag(t))] for t in a]


def flat(x):
    """numpy 1-D array of all entries of an array or BlockArray"""
    from scico.numpy import BlockArray
    if isinstance(x, BlockArray):
        return np.concatenate([np.asarray(b).ravel() for b in x])
    return np.asarray(x).ravel()


def unflat(v, shapes, cplx, dtype=None):
    """v: numpy 1-D; shapes: a shape tuple or a list of shape tuples (block)"""
    import scico.numpy as snp
    dt = dtype if dtype is not None else (np.complex128 if cplx else np.float64)
    v = np.asarray(v, dtype=dt)
    if shapes and isinstance(shapes[0], (list, tuple)):
        out, k = [], 0
        for s in shapes:
            n = int(np.prod(s))
            out.append(snp.array(v[k:k + n].reshape(s)))
            k += n
        return snp.blockarray(out)
    return snp.array(v.reshape(tuple(shapes)))


def re_ip(g, d):
    g, d = flat(g), flat(d)
    return float(np.sum(np.real(np.conj(g) * d)))


def cq(p):
    return f"(cq {qlit(p[0])} {qlit(p[1])})"


def cvec(pairs):
    return coq_list([cq(p) for p in pairs])


def qc(x):
    return f"(q {qlit(x)})"


def richardson(fun, h=2.0 ** -8):
    """Richardson-extrapolated central difference of a scalar (or array) function of t at 0."""
    def D(s):
        return (np.asarray(fun(s), dtype=np.complex128) - np.asarray(fun(-s), dtype=np.complex128)) / (2 * s)
    return (4 * D(h / 2) - D(h)) / 3


# --------------------------------------------------------------------------- operators (linear) used in A/B/F

def gen_linop_spec(rng, n, cplx, allow_m=True):
    """spec of a linear operator acting on a flat vector of length n"""
    k = rng.choice(["matrix", "matrix", "diag", "identity", "fd", "scaled_identity", "fdcirc", "sum_ops", "compose"])
    if k == "matrix":
        m = rng.randint(1, 4) if allow_m else n
        return ["matrix", [rvec(rng, n, cplx, bits=1) for _ in range(m)]]
    if k == "diag":
        return ["diag", rvec(rng, n, cplx, bits=1)]
    if k == "scaled_identity":
        return ["scaled_identity", dy_nz(rng, bits=1)]
    if k == "fd" and n >= 2:
        return ["fd", rng.choice([None, 0]) if rng.random() < 0.5 else None, rng.choice([None, 0])]
    if k == "fdcirc" and n >= 2:
        return ["fdcirc"]
    if k == "sum_ops":
        return ["sum_ops", ["diag", rvec(rng, n, cplx, bits=1)], ["scaled_identity", dy_nz(rng, bits=1)]]
    if k == "compose":
        m = rng.randint(1, 3) if allow_m else n
        return ["compose", ["matrix", [rvec(rng, n, cplx, bits=1) for _ in range(m)]],
                ["diag", rvec(rng, n, cplx, bits=1)]]
    return ["identity"]


def build_linop(spec, n, cplx):
    import scico.numpy as snp
    from scico import linop
    dt = np.complex128 if cplx else np.float64
    k = spec[0]
    if k == "matrix":
        M = np.array([[complex(*p) for p in row] for row in spec[1]])
        return linop.MatrixOperator(snp.array(M if cplx else M.real))
    if k == "diag":
        return linop.Diagonal(snp.array(to_np(spec[1], cplx)))
    if k == "scaled_identity":
        return linop.ScaledIdentity(spec[1], (n,), input_dtype=dt)
    if k == "fd":
        return linop.SingleAxisFiniteDifference((n,), input_dtype=dt, axis=0, prepend=spec[1], append=spec[2], jit=False)
    if k == "fdcirc":
        return linop.SingleAxisFiniteDifference((n,), input_dtype=dt, axis=0, circular=True, jit=False)
    if k == "sum_ops":
        return build_linop(spec[1], n, cplx) + build_linop(spec[2], n, cplx)
    if k == "compose":
        return build_linop(spec[1], n, cplx) @ build_linop(spec[2], n, cplx)
    return linop.Identity((n,), input_dtype=dt)


def dense_of(A, n, cplx, in_shapes=None):
    """Dense matrix of a (complex-)linear operator from its action on the canonical basis;
    returns (rows as lists of pairs, ok) where ok = the operator commutes with i on the basis."""
    cols, ok = [], True
    shp = in_shapes if in_shapes is not None else (n,)
    for j in range(n):
        e = np.zeros(n)
        e[j] = 1.0
        c = flat(A(unflat(e, shp, cplx)))
        cols.append(c)
        if cplx:
            ci = flat(A(unflat(1j * e, shp, cplx)))
            ok = ok and bool(np.all(ci == 1j * c))
    m = len(cols[0])
    rows = [[[float(np.real(cols[j][i])), float(np.imag(cols[j][i]))] for j in range(n)] for i in range(m)]
    return rows, ok


# --------------------------------------------------------------------------- stream A: quadratic, exact oracle

def gen_quad_leaf(rng, n, cplx, block):
    k = rng.choice(["sql2loss", "sql2loss", "sql2loss", "sql2norm", "loss_f"])
    if block:
        k = rng.choice(["sql2loss_blk", "sql2norm"])
    if k == "sql2norm":
        return ["sql2norm"]
    if k == "sql2loss_blk":
        return ["sql2loss_blk", rvec(rng, n, cplx), dy_nz(rng, bits=2, lo=0, hi=2, margin=0.25)]
    A = gen_linop_spec(rng, n, cplx) if rng.random() < 0.75 else None
    m = out_dim(A, n)
    y = rvec(rng, m, cplx)
    scale = dy_nz(rng, bits=2, lo=0, hi=2, margin=0.25)
    if k == "loss_f":
        return ["loss_f", y, A, scale]
    W = [rng.randint(0, 8) / 4 for _ in range(m)] if rng.random() < 0.5 else None
    return ["sql2loss", y, A, scale, W]


def out_dim(A, n):
    if A is None:
        return n
    k = A[0]
    if k == "matrix":
        return len(A[1])
    if k == "fd":
        return n - 1 + (A[1] is not None) + (A[2] is not None)
    if k == "compose":
        return out_dim(A[1], out_dim(A[2], n))
    if k == "sum_ops":
        return out_dim(A[1], n)
    return n


def gen_quad_expr(rng, n, cplx, block, depth=0):
    r = rng.random()
    if depth >= 3 or r < 0.35:
        return gen_quad_leaf(rng, n, cplx, block)
    c = dy_nz(rng, bits=1, lo=-3, hi=3)
    if r < 0.5:
        return ["mul", c, gen_quad_expr(rng, n, cplx, block, depth + 1)]
    if r < 0.6:
        return ["rmul", c, gen_quad_expr(rng, n, cplx, block, depth + 1)]
    if r < 0.72:
        return ["div", rng.choice([0.5, 2.0, 4.0, -2.0, 0.25]), gen_quad_expr(rng, n, cplx, block, depth + 1)]
    if r < 0.8:
        return ["set_scale", dy_nz(rng, bits=2, lo=0, hi=2, margin=0.25), gen_quad_leaf(rng, n, cplx, block)]
    return ["sum", gen_quad_expr(rng, n, cplx, block, depth + 1), gen_quad_expr(rng, n, cplx, block, depth + 1)]


def is_loss_expr(e):
    """does the expression evaluate to a scico Loss object (so that / is defined)?"""
    k = e[0]
    if k in ("sql2loss", "loss_f", "sql2loss_blk", "poisson", "sql2abs", "sql2sqabs", "loss_g"):
        return True
    if k in ("mul", "rmul", "div", "set_scale"):
        return is_loss_expr(e[2])
    return False


def fix_expr(e):
    """make the expression well-typed: `/` and set_scale exist only on Loss objects, and a
    Loss survives */ but not + ; replace ill-typed nodes by a multiplication."""
    k = e[0]
    if k in ("mul", "rmul"):
        return [k, e[1], fix_expr(e[2])]
    if k in ("div", "set_scale"):
        sub = fix_expr(e[2])
        if is_loss_expr(sub):
            return [k, e[1], sub]
        return ["mul", (1.0 / e[1]) if k == "div" else e[1], sub]
    if k == "sum":
        return ["sum", fix_expr(e[1]), fix_expr(e[2])]
    return e


def build_quad(e, n, cplx, shapes):
    """-> (scico object, terms) ; terms = list of (alpha, w, y_pairs, M_rows) of the denotation"""
    import scico.numpy as snp
    from scico import functional, loss, linop
    k = e[0]
    eye = [[[1.0 if i == j else 0.0, 0.0] for j in range(n)] for i in range(n)]
    if k == "sql2norm":
        return functional.SquaredL2Norm(), [(1.0, [1.0] * n, [[0.0, 0.0]] * n, eye)]
    if k == "sql2loss_blk":
        y = unflat(to_np(e[1], cplx), shapes, cplx)
        return loss.SquaredL2Loss(y=y, scale=e[2]), [(e[2], [1.0] * n, e[1], eye)]
    if k in ("sql2loss", "loss_f"):
        y, A, scale = e[1], e[2], e[3]
        Aop = build_linop(A, n, cplx) if A is not None else None
        yv = snp.array(to_np(y, cplx))
        if A is None:
            M = eye
        else:
            M, ok = dense_of(Aop, n, cplx)
            if not ok:
                raise Broken("C07: operator used for the exact oracle is not complex-linear", json.dumps(A))
        m = len(y)
        if k == "loss_f":
            return loss.Loss(y=yv, A=Aop, f=functional.SquaredL2Norm(), scale=scale), [(scale, [1.0] * m, y, M)]
        W = e[4]
        Wop = linop.Diagonal(snp.array(np.array(W))) if W is not None else None
        return loss.SquaredL2Loss(y=yv, A=Aop, scale=scale, W=Wop), [(scale, W if W is not None else [1.0] * m, y, M)]
    if k in ("mul", "rmul"):
        o, t = build_quad(e[2], n, cplx, shapes)
        o2 = (o * e[1]) if k == "mul" else (e[1] * o)
        return o2, [(a * e[1], w, y, M) for a, w, y, M in t]
    if k == "div":
        o, t = build_quad(e[2], n, cplx, shapes)
        return o / e[1], [(a / e[1], w, y, M) for a, w, y, M in t]
    if k == "set_scale":
        o, t = build_quad(e[2], n, cplx, shapes)
        old = float(o.scale)
        o.set_scale(e[1])
        return o, [(a / old * e[1], w, y, M) for a, w, y, M in t]
    if k == "used":
        # the same object after it has been USED (value, gradient, Hessian, prox evaluated once): the denotation is unchanged,
        # and copies derived from it afterwards (c * L, L / c) must denote the rescaled functional
        o, t = build_quad(e[1], n, cplx, shapes)
        x1 = snp.ones((n,), dtype=np.complex128 if cplx else np.float64)
        o(x1), o.grad(x1)
        if hasattr(o, "hessian"):
            o.hessian(x1)
        if getattr(o, "has_prox", False):
            o.prox(x1, 0.5)
        return o, t
    if k == "sum":
        o1, t1 = build_quad(e[1], n, cplx, shapes)
        o2, t2 = build_quad(e[2], n, cplx, shapes)
        return o1 + o2, t1 + t2
    raise Broken("C07: unknown quadratic expression " + str(k))


def coq_terms(terms):
    items = []
    for a, w, y, M in terms:
        items.append(f"({qc(a)}, {coq_list([qc(t) for t in w])}, {cvec(y)}, "
                     + coq_list([cvec(r) for r in M]) + ")")
    return coq_list(items)


def gen_quad_case(rng):
    cplx = rng.random() < 0.5
    block = rng.random() < 0.2
    if block:
        shapes = [[rng.randint(1, 2)], [rng.randint(1, 3)]]
        if rng.random() < 0.3:
            shapes[1] = [2, 2] if rng.random() < 0.5 else [1, 2]
        n = sum(int(np.prod(s)) for s in shapes)
    else:
        n = rng.randint(1, 4)
        shapes = [n]
    e = fix_expr(gen_quad_expr(rng, n, cplx, block))
    return {"kind": "quad", "cplx": cplx, "shapes": shapes, "n": n, "expr": e,
            "x": rvec(rng, n, cplx), "d": rvec(rng, n, cplx)}


def run_quad_case(c):
    """-> (coq literal of the grad_case, implementation outputs) ; raises on exception"""
    n, cplx, shapes = c["n"], c["cplx"], c["shapes"]
    obj, terms = build_quad(c["expr"], n, cplx, shapes)
    x = unflat(to_np(c["x"], cplx), shapes, cplx)
    fx = float(obj(x))
    g = obj.grad(x)
    gp = to_pairs(flat(g))
    lit = f"({coq_terms(terms)}, {cvec(c['x'])}, {cvec(c['d'])}, {qlit(fx)}, {cvec(gp)})"
    return lit, {"f": fx, "g": gp, "g_type": type(g).__name__}, obj, terms


# --------------------------------------------------------------------------- stream B: finite-difference oracle

FUNC_LEAVES = ["L1", "L2", "L21", "huber_sep", "huber_nonsep", "nuclear", "l1ml2", "setdist_ball",
               "sqsetdist_ball", "setdist_box", "anisoTV", "isoTV", "isoTVc", "proxavg", "zero",
               "nonneg", "l2ball", "sql2norm"]
LOSS_LEAVES = ["poisson", "sql2abs", "sql2sqabs", "loss_g", "loss_g_nl", "sql2loss_nl"]
NO_GRAD_CLASSES = ["L21Norm", "L1MinusL2Norm", "SetDistance", "SquaredSetDistance", "ProximalAverage",
                   "AnisotropicTVNorm", "IsotropicTVNorm", "TVNorm"]


def proj_ball(x, r):
    import scico.numpy as snp
    nrm = snp.linalg.norm(x)
    return x * snp.minimum(1.0, r / nrm)


def proj_box(x):
    import scico.numpy as snp
    return snp.clip(x, -1.0, 1.0)


def leaf_shape(kind, rng):
    if kind in ("L21", "nuclear"):
        return rng.choice([[2, 2], [2, 3], [3, 2]])
    if kind in ("anisoTV", "isoTV", "isoTVc"):
        return rng.choice([[3, 3], [2, 3], [4]])
    return [rng.randint(1, 4)]


def build_func_leaf(e):
    """e = [kind, params...] -> scico functional"""
    from scico import functional as F
    k = e[0]
    if k == "L1":
        return F.L1Norm()
    if k == "L2":
        return F.L2Norm()
    if k == "L21":
        return F.L21Norm(l2_axis=e[1])
    if k == "huber_sep":
        return F.HuberNorm(delta=e[1], separable=True)
    if k == "huber_nonsep":
        return F.HuberNorm(delta=e[1], separable=False)
    if k == "nuclear":
        return F.NuclearNorm()
    if k == "l1ml2":
        return F.L1MinusL2Norm(beta=e[1])
    if k == "setdist_ball":
        return F.SetDistance(proj_ball, args=(e[1],))
    if k == "sqsetdist_ball":
        return F.SquaredSetDistance(proj_ball, args=(e[1],))
    if k == "setdist_box":
        return F.SetDistance(proj_box)
    if k == "anisoTV":
        return F.AnisotropicTVNorm(circular=e[1])
    if k == "isoTV":
        return F.IsotropicTVNorm(circular=False)
    if k == "isoTVc":
        return F.IsotropicTVNorm(circular=True)
    if k == "proxavg":
        return F.ProximalAverage([F.L1Norm(), F.SquaredL2Norm(), F.HuberNorm(delta=e[1])], alpha_list=e[2])
    if k == "zero":
        return F.ZeroFunctional()
    if k == "nonneg":
        return F.NonNegativeIndicator()
    if k == "l2ball":
        return F.L2BallIndicator(radius=e[1])
    if k == "sql2norm":
        return F.SquaredL2Norm()
    raise Broken("C07: unknown functional leaf " + str(k))


def func_margin(e, z):
    """distance of the numpy array z from the set where the functional leaf is not smooth"""
    k = e[0]
    a = np.abs(z)
    nrm = float(np.linalg.norm(z))
    if k == "L1":
        return float(a.min())
    if k == "L2":
        return nrm
    if k == "L21":
        return float(np.sqrt((a ** 2).sum(axis=e[1])).min())
    if k == "huber_sep":
        return float(np.abs(a - e[1]).min())
    if k == "huber_nonsep":
        return min(abs(nrm - e[1]), nrm)
    if k == "nuclear":
        s = np.linalg.svd(z, compute_uv=False)
        gaps = [abs(s[i] - s[j]) for i in range(len(s)) for j in range(i)]
        return float(min([s.min()] + gaps))
    if k == "l1ml2":
        return float(a.min())
    if k in ("setdist_ball", "sqsetdist_ball"):
        return nrm - e[1] if k == "setdist_ball" else abs(nrm - e[1])
    if k == "setdist_box":
        d = float(np.linalg.norm(z - np.clip(z, -1, 1)))
        return min(d, float(np.abs(a - 1).min()))
    if k == "anisoTV":
        return tv_margin(z, e[1], iso=False)
    if k == "isoTV":
        return tv_margin(z, False, iso=True)
    if k == "isoTVc":
        return tv_margin(z, True, iso=True)
    if k == "proxavg":
        return min(float(a.min()), float(np.abs(a - e[1]).min()))
    if k == "nonneg":
        return float(np.real(z).min()) if not np.iscomplexobj(z) else -1.0
    if k == "l2ball":
        return e[1] - nrm
    return 1.0


def tv_margin(z, circular, iso):
    """smallest modulus of a finite difference that is not identically zero"""
    vals = []
    diffs = []
    for ax in range(z.ndim):
        if circular:
            dd_ = np.roll(z, -1, axis=ax) - z
        else:
            dd_ = np.diff(z, axis=ax, append=np.take(z, [-1], axis=ax))
        diffs.append(dd_)
    if iso:
        mag = np.sqrt(sum(np.abs(t) ** 2 for t in diffs))
        # pixels where every difference is identically zero (last row/col corner, non-circular)
        mask = np.ones(z.shape, bool)
        if not circular:
            idx = tuple(slice(-1, None) for _ in range(z.ndim))
            mask[idx] = False
        if z.ndim == 1 and not circular:
            pass
        vals = np.abs(mag[mask]) if mask.any() else np.array([1.0])
        return float(vals.min())
    for ax, t in enumerate(diffs):
        if circular:
            vals.append(np.abs(t).min())
        else:
            sl = [slice(None)] * z.ndim
            sl[ax] = slice(0, -1)
            tt = np.abs(t[tuple(sl)])
            if tt.size:
                vals.append(tt.min())
    return float(min(vals)) if vals else 1.0


def gen_func_leaf(rng, kind, cplx):
    if kind == "L21":
        return ["L21", rng.choice([0, 1])]
    if kind in ("huber_sep", "huber_nonsep"):
        return [kind, rng.choice([0.5, 1.0, 1.5, 2.0, 3.0])]
    if kind == "l1ml2":
        return [kind, rng.choice([0.5, 1.0])]
    if kind in ("setdist_ball", "sqsetdist_ball"):
        return [kind, rng.choice([0.5, 1.0, 2.0])]
    if kind == "anisoTV":
        return [kind, rng.random() < 0.5]
    if kind == "proxavg":
        return [kind, rng.choice([0.75, 1.25]), rng.choice([None, [0.25, 0.25, 0.5], [1.0, 2.0, 1.0]])]
    if kind == "l2ball":
        return [kind, 8.0]
    return [kind]


def gen_nl_op(rng, n, cplx):
    return rng.choice([["exp"], ["abs"], ["square"], ["sinlin", rvec(rng, n, False, bits=1)],
                       ["exp_of", gen_linop_spec(rng, n, cplx, allow_m=False)]]
                      + ([["angle"]] if cplx else []))


def build_op(spec, n, cplx):
    """linear or non-linear operator on flat vectors of length n"""
    import scico.numpy as snp
    from scico import operator
    dt = np.complex128 if cplx else np.float64
    k = spec[0]
    if k == "exp":
        return operator.Exp((n,), input_dtype=dt)
    if k == "abs":
        return operator.Abs((n,), input_dtype=dt)
    if k == "angle":
        return operator.Angle((n,), input_dtype=dt)
    if k == "square":
        return operator.Operator((n,), eval_fn=lambda x: x * x, input_dtype=dt)
    if k == "sinlin":
        c = snp.array(to_np(spec[1], False))
        return operator.Operator((n,), eval_fn=lambda x: snp.sin(x) * c + x, input_dtype=dt)
    if k == "exp_of":
        return operator.Exp((out_dim(spec[1], n),), input_dtype=dt)(build_linop(spec[1], n, cplx))
    return build_linop(spec, n, cplx)


def op_out_dim(spec, n):
    if spec[0] in ("exp", "abs", "angle", "square", "sinlin"):
        return n
    if spec[0] == "exp_of":
        return out_dim(spec[1], n)
    return out_dim(spec, n)


def gen_fd_leaf(rng, cplx):
    """-> (expr, shape)"""
    if rng.random() < 0.6:
        kind = rng.choice(FUNC_LEAVES)
        if kind in ("setdist_box", "nonneg") and cplx:
            kind = "L1"
        return gen_func_leaf(rng, kind, cplx), leaf_shape(kind, rng)
    kind = rng.choice(LOSS_LEAVES)
    n = rng.randint(1, 4)
    scale = dy_nz(rng, bits=2, lo=0, hi=2, margin=0.25)
    if kind == "poisson":
        m = rng.randint(1, 3)
        A = ["matrix", [[[rng.randint(1, 6) / 2, 0.0] for _ in range(n)] for _ in range(m)]]
        y = [[float(rng.randint(0, 5)), 0.0] for _ in range(m)]
        return ["poisson", y, A, scale], [n]
    if kind in ("sql2abs", "sql2sqabs"):
        A = gen_linop_spec(rng, n, cplx) if rng.random() < 0.7 else None
        m = out_dim(A, n)
        y = [[rng.randint(0, 8) / 4, 0.0] for _ in range(m)]
        W = [rng.randint(0, 8) / 4 for _ in range(m)] if rng.random() < 0.5 else None
        return [kind, y, A, scale, W], [n]
    if kind == "loss_g":
        A = gen_linop_spec(rng, n, cplx) if rng.random() < 0.8 else None
        m = out_dim(A, n)
        g = gen_func_leaf(rng, rng.choice(["L1", "L2", "huber_sep", "huber_nonsep", "sql2norm", "l1ml2"]), cplx)
        return ["loss_g", rvec(rng, m, cplx), A, scale, g], [n]
    if kind == "loss_g_nl":
        A = gen_nl_op(rng, n, cplx)
        m = op_out_dim(A, n)
        g = gen_func_leaf(rng, rng.choice(["L1", "huber_sep", "sql2norm", "huber_nonsep"]), cplx)
        return ["loss_g", rvec(rng, m, cplx and A[0] not in ("abs", "angle")), A, scale, g], [n]
    A = gen_nl_op(rng, n, cplx)
    m = op_out_dim(A, n)
    W = [rng.randint(0, 8) / 4 for _ in range(m)] if rng.random() < 0.5 else None
    return ["sql2loss_nl", rvec(rng, m, cplx and A[0] not in ("abs", "angle")), A, scale, W], [n]


def gen_fd_expr(rng, cplx, depth=0):
    """-> (expr, shape); derived copies on top of a leaf; sums share the shape"""
    r = rng.random()
    if depth >= 2 or r < 0.5:
        return gen_fd_leaf(rng, cplx)
    e, shp = gen_fd_expr(rng, cplx, depth + 1)
    c = dy_nz(rng, bits=1, lo=-3, hi=3)
    if r < 0.65:
        return ["mul", c, e], shp
    if r < 0.75:
        return ["rmul", c, e], shp
    if r < 0.85:
        return ["div", rng.choice([0.5, 2.0, 4.0, -2.0]), e], shp
    # sum with a simple functional of the same shape
    other = gen_func_leaf(rng, rng.choice(["sql2norm", "L1", "huber_sep", "L2"]), cplx)
    return ["sum", e, other], shp


def out_cplx_of(Aspec, cplx):
    if Aspec is not None and Aspec[0] in ("abs", "angle"):
        return False
    return cplx


def build_fd(e, shape, cplx):
    """-> (scico object, list of (functional-leaf, fn z(x) numpy) for the margin test)"""
    import scico.numpy as snp
    from scico import loss, linop
    k = e[0]
    n = int(np.prod(shape))
    if k in ("mul", "rmul"):
        o, ms = build_fd(e[2], shape, cplx)
        return ((o * e[1]) if k == "mul" else (e[1] * o)), ms
    if k == "div":
        o, ms = build_fd(e[2], shape, cplx)
        return o / e[1], ms
    if k == "sum":
        o1, m1 = build_fd(e[1], shape, cplx)
        o2, m2 = build_fd(e[2], shape, cplx)
        return o1 + o2, m1 + m2
    if k in ("poisson", "sql2abs", "sql2sqabs", "loss_g", "sql2loss_nl"):
        y, A, scale = e[1], e[2], e[3]
        Aop = build_op(A, n, cplx) if A is not None else None
        ocplx = out_cplx_of(A, cplx)
        Af = (lambda x: np.asarray(Aop(snp.array(x)))) if Aop is not None else (lambda x: np.asarray(x))
        ms = []
        if A is not None and A[0] in ("abs", "angle"):
            ms.append((["L1"], lambda x: x))              # |x_i| away from 0
        if k == "poisson":
            yv = snp.array(to_np(y, False))
            ms.append((["nonneg"], lambda x: Af(x) - 0.0))
            return loss.PoissonLoss(y=yv, A=Aop, scale=scale), ms
        if k in ("sql2abs", "sql2sqabs"):
            yv = snp.array(to_np(y, False))
            Wop = linop.Diagonal(snp.array(np.array(e[4]))) if e[4] is not None else None
            cls = loss.SquaredL2AbsLoss if k == "sql2abs" else loss.SquaredL2SquaredAbsLoss
            if k == "sql2abs":
                ms.append((["L1"], Af))
            return cls(y=yv, A=Aop, scale=scale, W=Wop), ms
        yv = snp.array(to_np(y, ocplx))
        if k == "sql2loss_nl":
            Wop = linop.Diagonal(snp.array(np.array(e[4]))) if e[4] is not None else None
            return loss.SquaredL2Loss(y=yv, A=Aop, scale=scale, W=Wop), ms
        g = build_func_leaf(e[4])
        ynp = to_np(y, ocplx)
        ms.append((e[4], lambda x: Af(x) - ynp))
        return loss.Loss(y=yv, A=Aop, f=g, scale=scale), ms
    return build_func_leaf(e), [(e, lambda x: x)]


def is_loss_fd(e):
    k = e[0]
    if k in ("poisson", "sql2abs", "sql2sqabs", "loss_g", "sql2loss_nl"):
        return True
    if k in ("mul", "rmul", "div"):
        return is_loss_fd(e[2])
    return False


def fix_fd(e):
    k = e[0]
    if k in ("mul", "rmul"):
        return [k, e[1], fix_fd(e[2])]
    if k == "div":
        s = fix_fd(e[2])
        return ["div", e[1], s] if is_loss_fd(s) else ["mul", 1.0 / e[1], s]
    if k == "sum":
        return ["sum", fix_fd(e[1]), fix_fd(e[2])]
    return e


def top_class(e):
    k = e[0]
    names = {"L21": "L21Norm", "l1ml2": "L1MinusL2Norm", "setdist_ball": "SetDistance",
             "setdist_box": "SetDistance", "sqsetdist_ball": "SquaredSetDistance",
             "proxavg": "ProximalAverage", "anisoTV": "AnisotropicTVNorm", "isoTV": "IsotropicTVNorm",
             "isoTVc": "IsotropicTVNorm"}
    return names.get(k, k)


def contains_leaf(e, kind):
    if e[0] == kind:
        return True
    return any(isinstance(t, list) and t and isinstance(t[0], str) and contains_leaf(t, kind) for t in e[1:])


def find_leaves(e, kind):
    out = [e] if e[0] == kind else []
    for t in e[1:]:
        if isinstance(t, list) and t and isinstance(t[0], str):
            out += find_leaves(t, kind)
    return out


def gen_fd_case(rng):
    cplx = rng.random() < 0.45
    e, shape = gen_fd_expr(rng, cplx)
    e = fix_fd(e)
    n = int(np.prod(shape))
    positive = contains_leaf(e, "poisson") or contains_leaf(e, "nonneg")
    if positive or contains_leaf(e, "setdist_box"):
        cplx_x = False
    else:
        cplx_x = cplx
    if not cplx_x:
        e = json.loads(json.dumps(e))      # (no complex data inside when x is real: regenerate below)
    for _ in range(60):
        if positive:
            x = [[rng.randint(2, 12) / 4, 0.0] for _ in range(n)]
        else:
            x = rvec(rng, n, cplx_x, bits=2, lo=-3, hi=3)
        try:
            obj, ms = build_fd(e, shape, cplx_x)
        except Exception:
            raise
        xn = to_np(x, cplx_x).reshape(shape)
        try:
            ok = all(func_margin(leaf, np.asarray(zf(xn.ravel() if leaf[0] not in
                     ("L21", "nuclear", "anisoTV", "isoTV", "isoTVc") else xn))) >= 0.2 for leaf, zf in ms)
        except Exception:
            ok = False
        if ok:
            return {"kind": "fd", "cplx": cplx_x, "shape": shape, "expr": e, "x": x,
                    "d": rvec(rng, n, cplx_x)}
    return None


def has_nan(g):
    return bool(np.any(np.isnan(flat(g))))


def fd_directional(obj, x, d):
    """(R, consistent): Richardson central difference of t -> obj(x + t d) at two step sizes"""
    def fun(t):
        return float(obj(x + t * d))
    r1 = float(np.real(richardson(fun, 2.0 ** -8)))
    r2 = float(np.real(richardson(fun, 2.0 ** -9)))
    ok = math.isfinite(r1) and math.isfinite(r2) and abs(r1 - r2) <= 1e-7 * max(1.0, abs(r1))
    return r2, ok


def run_fd_case(ctx, c, report=True):
    """returns True iff the property holds on this case (violations are reported when `report`)"""
    import scico.numpy as snp
    cplx, shape = c["cplx"], c["shape"]
    obj, _ = build_fd(c["expr"], shape, cplx)
    x = snp.array(to_np(c["x"], cplx).reshape(shape))
    d = snp.array(to_np(c["d"], cplx).reshape(shape))
    inp = dict(c, top=top_class(c["expr"]))
    radii = find_leaves(c["expr"], "sqsetdist_ball")
    if radii:      # SquaredSetDistance only occurs applied to x itself: is x inside the ball?
        inp["setdist_interior"] = bool(float(np.linalg.norm(to_np(c["x"], cplx))) < min(r[1] for r in radii))
    good = True

    def viol(what, expected, observed):
        nonlocal good
        good = False
        if report:
            ctx.violation("Functional.grad", what, inp, expected=expected, observed=observed,
                          oracle="Richardson central difference of t -> f(x + t d), tol 1e-6")
    try:
        g = obj.grad(x)
    except AttributeError as ex:
        viol("grad raises AttributeError (the class __init__ never calls Functional.__init__, so _grad is missing)",
             "a gradient", repr(ex)[:200])
        g = (1.0 * obj).grad(x)
    except Exception as ex:                      # noqa: BLE001
        viol("grad raises an exception at a differentiable point", "a gradient", repr(ex)[:300])
        return good
    if tuple(np.shape(g)) != tuple(shape) or (np.iscomplexobj(np.asarray(g)) != cplx):
        viol("gradient has the wrong shape or dtype", [shape, cplx], [list(np.shape(g)), str(np.asarray(g).dtype)])
        return good
    r, consistent = fd_directional(obj, x, d)
    if not consistent:
        ctx.count("fd-skipped-not-smooth-numerically", None, nontrivial=False)
        c["_skipped"] = True
        return good
    if has_nan(g):
        viol("gradient contains NaN at a differentiable point", r, to_pairs(g))
        return good
    lhs = re_ip(g, d)
    if abs(lhs - r) > FD_TOL * max(1.0, abs(r)):
        viol("Re<grad f(x), d> differs from the directional derivative d/dt f(x + t d)", r, lhs)
    return good


def classify_quad(c, fx_ok):
    return ("gradient of a quadratic functional / derived copy differs from the exact directional derivative"
            if fx_ok else "value or gradient of a quadratic functional differs from the exact model")


QUAD_CHECK = ("Eval vm_compute in (bad_idx grad_case_ok cases 0%nat).\n"
              "Eval vm_compute in (bad_idx grad_closed_form_ok cases 0%nat).")


def stream_quad(ctx):
    n = ctx.n(120, 2000)
    cases, lits = [], []
    for _ in range(n):
        c = gen_quad_case(ctx.rng)
        try:
            lit, out, _, _ = run_quad_case(c)
        except Broken:
            raise
        except Exception as ex:                  # noqa: BLE001
            ctx.violation("Functional.grad", "grad raises an exception on a quadratic functional", c,
                          expected="a gradient", observed=repr(ex)[:300], oracle="no exception")
            continue
        cases.append((c, out))
        lits.append(lit)
        ctx.count("quadratic-exact" + ("-complex" if c["cplx"] else "-real") + ("-block" if len(c["shapes"]) > 1 and isinstance(c["shapes"][0], list) else ""),
                  c, nontrivial=any(p != [0.0, 0.0] for p in c["d"]))
    shard = 40
    bodies = ["Definition cases : list grad_case := " + coq_list(lits[s:s + shard], ";\n ") + ".\n" + QUAD_CHECK
              for s in range(0, len(lits), shard)]
    outs = coq_eval_shards("C07_quad", HEADER, bodies)
    for si, o in enumerate(outs):
        parts = o.split("= ", 1)
        import re
        res = re.findall(r"=\s*(\[.*?\]|nil)\s*:\s*list nat", o, re.S)
        if len(res) != 2:
            raise Broken("C07: cannot parse quadratic shard output", o[-1500:])
        bad = parse_eval_nat_list("= " + res[0] + " : list nat")
        bad_cf = parse_eval_nat_list("= " + res[1] + " : list nat")
        ctx.obligation(not bad_cf, "closed-form gradient of the Coq model equals its exact central difference on every case",
                       f"shard {si}: {bad_cf}")
        for idx in bad:
            c, out = cases[si * shard + idx]
            ctx.violation("Functional.grad", classify_quad(c, True), c,
                          expected="Re<g,d> = (f(x+d) - f(x-d))/2 computed exactly by the Coq model (tol 2^-30)",
                          observed=out, oracle="C07_quadratic_central_difference / QuadExec.dd")


def stream_fd(ctx):
    n = ctx.n(130, 2000)
    done = skipped = 0
    for _ in range(n):
        c = gen_fd_case(ctx.rng)
        if c is None:
            ctx.count("fd-no-smooth-point-found", None, nontrivial=False)
            continue
        run_fd_case(ctx, c)
        if c.pop("_skipped", False):
            skipped += 1
            continue
        done += 1
        ctx.count("fd-" + c["expr"][0] + ("-complex" if c["cplx"] else "-real"), c)
    ctx.obligation(skipped <= 0.2 * max(1, done + skipped),
                   "at most 20% of the finite-difference cases are discarded as numerically non-smooth",
                   f"{skipped} of {done + skipped}")


# --------------------------------------------------------------------------- stream C: operators, jvp / vjp

def op_registry():
    """name -> builder(rng, cplx) -> (operator, input shapes (shape or list of shapes), needs_nonzero_input)
    Every operator class of scico.operator / scico.linop that can be built offline."""
    import scico.numpy as snp
    from scico import linop, operator
    from scico.linop import optics

    def dt(c):
        return np.complex128 if c else np.float64

    def arr(rng, shape, c, **kw):
        n = int(np.prod(shape))
        return snp.array(to_np(rvec(rng, n, c, **kw), c).reshape(shape))

    R = {}
    R["MatrixOperator"] = lambda rng, c: (linop.MatrixOperator(arr(rng, (3, 2), c, bits=1)), [2], False)
    R["MatrixOperator-2d"] = lambda rng, c: (linop.MatrixOperator(arr(rng, (2, 3), c, bits=1), input_cols=2), [3, 2], False)
    R["Diagonal"] = lambda rng, c: (linop.Diagonal(arr(rng, (3,), c, bits=1)), [3], False)
    R["Diagonal-block"] = lambda rng, c: (linop.Diagonal(snp.blockarray([arr(rng, (2,), c, bits=1), arr(rng, (1, 2), c, bits=1)])), [[2], [1, 2]], False)
    R["Identity"] = lambda rng, c: (linop.Identity((2, 2), input_dtype=dt(c)), [2, 2], False)
    R["ScaledIdentity"] = lambda rng, c: (linop.ScaledIdentity(dy_nz(rng, bits=1), (3,), input_dtype=dt(c)), [3], False)
    R["FiniteDifference"] = lambda rng, c: (linop.FiniteDifference((2, 3), input_dtype=dt(c), append=rng.choice([None, 0])), [2, 3], False)
    R["FiniteDifference-circular"] = lambda rng, c: (linop.FiniteDifference((3, 2), input_dtype=dt(c), circular=True, axes=rng.choice([None, 0, 1])), [3, 2], False)
    R["SingleAxisFiniteDifference"] = lambda rng, c: (linop.SingleAxisFiniteDifference((2, 3), input_dtype=dt(c), axis=rng.choice([0, 1]), prepend=rng.choice([None, 0, 1])), [2, 3], False)
    R["Convolve"] = lambda rng, c: (linop.Convolve(arr(rng, (2,), c, bits=1), (3,), input_dtype=dt(c), mode=rng.choice(["full", "valid", "same"])), [3], False)
    R["CircularConvolve"] = lambda rng, c: (linop.CircularConvolve(arr(rng, (2,), c, bits=1), (4,), input_dtype=dt(c)), [4], False)
    R["DFT"] = lambda rng, c: (linop.DFT((4,)), [4], False) if c else None
    R["Sum"] = lambda rng, c: (linop.Sum((2, 3), input_dtype=dt(c), axis=rng.choice([None, 0, 1])), [2, 3], False)
    R["Slice"] = lambda rng, c: (linop.Slice((slice(0, 2), slice(None, None, 2)), (3, 3), input_dtype=dt(c)), [3, 3], False)
    R["Pad"] = lambda rng, c: (linop.Pad((2,), (1, 2), input_dtype=dt(c)), [2], False)
    R["Crop"] = lambda rng, c: (linop.Crop(1, (4,), input_dtype=dt(c)), [4], False)
    R["Reshape"] = lambda rng, c: (linop.Reshape((2, 3), (3, 2), input_dtype=dt(c)), [2, 3], False)
    R["Transpose"] = lambda rng, c: (linop.Transpose((2, 3), (1, 0), input_dtype=dt(c)), [2, 3], False)
    R["VerticalStack"] = lambda rng, c: (linop.VerticalStack([linop.Diagonal(arr(rng, (2,), c, bits=1)), linop.MatrixOperator(arr(rng, (3, 2), c, bits=1))], collapse_output=False), [2], False)
    R["DiagonalStack"] = lambda rng, c: (linop.DiagonalStack([linop.Diagonal(arr(rng, (2,), c, bits=1)), linop.MatrixOperator(arr(rng, (2, 3), c, bits=1))]), [[2], [3]], False)
    R["DiagonalReplicated"] = lambda rng, c: (linop.DiagonalReplicated(linop.MatrixOperator(arr(rng, (2, 2), c, bits=1)), 2), [2, 2], False)
    R["ProjectedGradient"] = lambda rng, c: (linop.ProjectedGradient((2, 3), input_dtype=dt(c)), [2, 3], False)
    R["PolarGradient"] = lambda rng, c: (linop.PolarGradient((3, 3), input_dtype=dt(c)), [3, 3], False)
    R["CylindricalGradient"] = lambda rng, c: (linop.CylindricalGradient((2, 2, 2), input_dtype=dt(c)), [2, 2, 2], False)
    R["SphericalGradient"] = lambda rng, c: (linop.SphericalGradient((2, 2, 2), input_dtype=dt(c)), [2, 2, 2], False)
    R["ComposedLinearOperator"] = lambda rng, c: (linop.MatrixOperator(arr(rng, (2, 3), c, bits=1)) @ linop.Diagonal(arr(rng, (3,), c, bits=1)), [3], False)
    R["LinearOperator-sum-scaled"] = lambda rng, c: (2.0 * linop.Diagonal(arr(rng, (3,), c, bits=1)) - linop.Identity((3,), input_dtype=dt(c)) / 4.0, [3], False)
    R["LinearOperator.H"] = lambda rng, c: (linop.MatrixOperator(arr(rng, (2, 3), c, bits=1)).H, [2], False)
    R["linop_from_function"] = lambda rng, c: (linop.linop_from_function(snp.flip, "Flip")((3,), input_dtype=dt(c)), [3], False)
    R["FresnelPropagator"] = lambda rng, c: (optics.FresnelPropagator((4,), dx=1.0, k0=2.0, z=1.0), [4], False) if c else None
    R["AngularSpectrumPropagator"] = lambda rng, c: (optics.AngularSpectrumPropagator((4,), dx=1.0, k0=2.0, z=1.0), [4], False) if c else None
    R["XRayTransform2D"] = lambda rng, c: (_xray2d(), [3, 3], False) if not c else None
    R["AbelTransform"] = lambda rng, c: (_abel(), [4, 4], False) if not c else None
    # non-linear operators
    R["Abs"] = lambda rng, c: (operator.Abs((3,), input_dtype=dt(c)), [3], True)
    R["Angle"] = lambda rng, c: (operator.Angle((3,), input_dtype=dt(c)), [3], True) if c else None
    R["Exp"] = lambda rng, c: (operator.Exp((3,), input_dtype=dt(c)), [3], False)
    R["operator_from_function"] = lambda rng, c: (operator.operator_from_function(snp.sin, "Sin")((2, 2), input_dtype=dt(c)), [2, 2], False)
    R["BiConvolve"] = lambda rng, c: (operator.BiConvolve(((3,), (2,)), input_dtype=dt(c)), [[3], [2]], False)
    R["Operator-eval_fn"] = lambda rng, c: (operator.Operator((3,), eval_fn=lambda x: x * x * 0.5 + snp.conj(x), input_dtype=dt(c)), [3], False)
    R["Operator-compose"] = lambda rng, c: (operator.Exp((2,), input_dtype=dt(c))(linop.MatrixOperator(arr(rng, (2, 3), c, bits=1))), [3], False)
    R["Operator-arith"] = lambda rng, c: ((operator.Exp((3,), input_dtype=dt(c)) * 2.0 + operator.Abs((3,), input_dtype=dt(c))) / 4.0 - operator.Exp((3,), input_dtype=dt(c)), [3], True)
    R["Operator.freeze"] = lambda rng, c: (operator.BiConvolve(((3,), (2,)), input_dtype=dt(c)).freeze(1, arr(rng, (2,), c, bits=1)), [3], False)
    R["operator.DiagonalStack"] = lambda rng, c: (operator.DiagonalStack([operator.Exp((2,), input_dtype=dt(c)), operator.Abs((2,), input_dtype=dt(c))]), [2, 2], True)
    R["operator.VerticalStack"] = lambda rng, c: (operator.VerticalStack([operator.Exp((2,), input_dtype=dt(c)), operator.Abs((2,), input_dtype=dt(c))]), [2], True)
    R["operator.DiagonalReplicated"] = lambda rng, c: (operator.DiagonalReplicated(operator.Exp((2,), input_dtype=dt(c)), 2), [2, 2], False)
    # real input, complex output (the adjoint in Re<.,.> is Re(J^H w); cotangents are genuinely complex)
    R["Operator-R2C-linear"] = lambda rng, c: None if c else (
        _r2c_linear(arr(rng, (2, 3), True, bits=1)), [3], False)
    R["Operator-R2C-phase"] = lambda rng, c: None if c else (
        _r2c_phase(arr(rng, (3, 3), False, bits=1), arr(rng, (3, 3), False, bits=1)), [3], False)
    R["Operator-R2C-fft"] = lambda rng, c: None if c else (
        operator.Operator((4,), eval_fn=lambda x: snp.fft.fft(x) * (1.0 + 0.5j), input_dtype=np.float64), [4], False)
    R["Function.slice-R2C"] = lambda rng, c: None if c else (
        _fn_mixed("rc").slice(0, arr(rng, (2,), False)), [2], False)
    R["LinearOperator-R2C"] = lambda rng, c: None if c else (_r2c_linop(arr(rng, (2, 3), True, bits=1)), [3], False)
    # complex input, real output
    R["Operator-C2R"] = lambda rng, c: (operator.Operator((3,), eval_fn=lambda x: snp.real(x * x) + 2.0 * snp.imag(x), input_dtype=np.complex128), [3], False) if c else None
    R["Function.slice-C2R"] = lambda rng, c: (_fn_mixed("cr").slice(1, arr(rng, (2,), True)), [2], False) if c else None
    R["Function.slice"] = lambda rng, c: (_fn3(c).slice(1, arr(rng, (2,), c), arr(rng, (2,), c)), [2], False)
    R["Function.join"] = lambda rng, c: (_fn3(c).join(), [[2], [2], [2]], False)
    return R


def _xray2d():
    from scico.linop.xray import XRayTransform2D
    return XRayTransform2D((3, 3), angles=np.array([0.0, 0.5, 1.0]), det_count=4)


def _abel():
    from scico.linop.abel import AbelTransform
    return AbelTransform((4, 4))


def _r2c_linear(M):
    import scico.numpy as snp
    from scico import operator
    return operator.Operator((M.shape[1],), eval_fn=lambda x: M @ x, input_dtype=np.float64)


def _r2c_phase(A, B):
    import scico.numpy as snp
    from scico import operator
    return operator.Operator((A.shape[1],), eval_fn=lambda x: (A @ x) * snp.exp(1j * (B @ x) * 0.25), input_dtype=np.float64)


def _r2c_linop(M):
    import scico.numpy as snp
    from scico import linop
    return linop.LinearOperator((M.shape[1],), output_shape=(M.shape[0],), eval_fn=lambda x: M @ x,
                                adj_fn=lambda w: snp.real(snp.conj(M.T) @ w), input_dtype=np.float64,
                                output_dtype=np.complex128)


def _fn_mixed(kind, nargs=2, jit=False):
    """Functions whose input and output dtypes differ: 'rc' real inputs -> complex output,
    'cr' complex inputs -> real output"""
    import scico.numpy as snp
    from scico.function import Function
    if kind == "rc":
        if nargs == 2:
            fn = lambda a, b: (a * b + 2.0 * a) * snp.exp(1j * (a - b) * 0.5) + 1j * b * b      # noqa: E731
        else:
            fn = lambda a, b, z: (a * b) * snp.exp(1j * z * 0.5) + (1.0 + 2.0j) * z * a - 1j * b   # noqa: E731
        return Function(((2,),) * nargs, output_shape=(2,), eval_fn=fn, input_dtypes=np.float64,
                        output_dtype=np.complex128, jit=jit)
    if nargs == 2:
        fn = lambda a, b: snp.real(a * snp.conj(b)) + snp.abs(a + 3.0) * snp.imag(b)            # noqa: E731
    else:
        fn = lambda a, b, z: snp.real(a * b * z) + snp.imag(snp.conj(a) * z) + snp.abs(b + 3.0)  # noqa: E731
    return Function(((2,),) * nargs, output_shape=(2,), eval_fn=fn, input_dtypes=np.complex128,
                    output_dtype=np.float64, jit=jit)


def _fn3(c, jit=False):
    """a Function of three arguments (used for Function.jvp / vjp / jacobian / slice / join)"""
    import scico.numpy as snp
    from scico.function import Function
    dt = np.complex128 if c else np.float64
    return Function(((2,), (2,), (2,)), output_shape=(2,),
                    eval_fn=lambda a, b, z: a * b + snp.exp(z) * a - snp.conj(b) * z * z,
                    input_dtypes=dt, output_dtype=dt, jit=jit)


def is_block_shape(shapes):
    return bool(shapes) and isinstance(shapes[0], (list, tuple))


def basis_real(n, cplx):
    """real basis of K^n: e_j (and i e_j when complex), as numpy vectors"""
    out = []
    for j in range(n):
        e = np.zeros(n, dtype=np.complex128 if cplx else np.float64)
        e[j] = 1.0
        out.append(e)
    if cplx:
        for j in range(n):
            e = np.zeros(n, dtype=np.complex128)
            e[j] = 1j
            out.append(e)
    return out


def realrep(v, cplx):
    v = np.asarray(v).ravel()
    return np.concatenate([np.real(v), np.imag(v)]) if cplx else np.real(v)


def out_shapes_of(y):
    from scico.numpy import BlockArray
    if isinstance(y, BlockArray):
        return [list(b.shape) for b in y]
    return list(np.shape(y))


def jac_matrices(jvp_fn, vjp_true, vjp_false, n, in_shapes, in_c, m, out_shapes, out_c, odt=None):
    """J (rows x cols = out real dim x in real dim), V, T (in real dim x out real dim)"""
    J = np.stack([realrep(flat(jvp_fn(unflat(e, in_shapes, in_c))), out_c) for e in basis_real(n, in_c)], axis=1)
    V = np.stack([realrep(flat(vjp_true(unflat(e, out_shapes, out_c, odt))), in_c) for e in basis_real(m, out_c)], axis=1)
    T = np.stack([realrep(flat(vjp_false(unflat(e, out_shapes, out_c, odt))), in_c) for e in basis_real(m, out_c)], axis=1)
    return J, V, T


def coq_rmat(M):
    return coq_list([coq_list([qc(t) for t in row]) for row in np.asarray(M).tolist()])


def conj_signs(k, cplx):
    return [1.0] * k + ([-1.0] * k if cplx else [])


def gen_op_case(rng, name):
    return {"kind": "op", "name": name, "cplx": rng.random() < 0.5, "seed": rng.randint(0, 10 ** 9)}


def run_op_case(ctx, c, report=True):
    """-> (coq literal or None, ok_python)"""
    import random
    import scico.numpy as snp
    rng = random.Random(c["seed"])
    reg = op_registry()
    built = reg[c["name"]](rng, c["cplx"])
    if built is None:
        built = reg[c["name"]](rng, not c["cplx"])
        c["cplx"] = not c["cplx"]
    F, in_shapes, nonzero = built
    in_c = c["cplx"]
    n = int(sum(np.prod(s) for s in in_shapes)) if is_block_shape(in_shapes) else int(np.prod(in_shapes))
    u_np = to_np(rvec(rng, n, in_c, nz=nonzero), in_c)
    u = unflat(u_np, in_shapes, in_c)
    good = True
    inp = dict(c)

    def viol(what, expected, observed):
        nonlocal good
        good = False
        if report:
            ctx.violation("Operator.jvp/vjp", what, inp, expected=expected, observed=observed,
                          oracle="full Jacobian matrices on real bases; finite differences of F")
    Fu = F(u)
    out_c = bool(np.iscomplexobj(flat(Fu)))
    out_shapes = out_shapes_of(Fu)
    m = flat(Fu).size
    try:
        Fu2, G1 = F.vjp(u, conjugate=True)
        Fu3, G0 = F.vjp(u, conjugate=False)
        import jax
        J, V, T = jac_matrices(jax.jit(lambda v: F.jvp(u, v)[1]), jax.jit(G1), jax.jit(G0), n, in_shapes, in_c, m, out_shapes, out_c, flat(Fu).dtype)
        Fu1 = F.jvp(u, unflat(basis_real(n, in_c)[0], in_shapes, in_c))[0]
    except Exception as ex:                      # noqa: BLE001
        viol("jvp / vjp raises an exception", "Jacobian products", repr(ex)[:300])
        return None, good
    for nm, val in (("jvp", Fu1), ("vjp(conjugate=True)", Fu2), ("vjp(conjugate=False)", Fu3)):
        if not np.allclose(flat(val), flat(Fu), rtol=1e-12, atol=1e-12):
            viol(f"first component of {nm} differs from F(u)", to_pairs(flat(Fu)), to_pairs(flat(val)))
    # J against finite differences of F (true derivative), on a random dyadic direction
    v_np = to_np(rvec(rng, n, in_c), in_c)
    fdv = richardson(lambda t: flat(F(unflat(u_np + t * v_np, in_shapes, in_c))))
    jv = flat(F.jvp(u, unflat(v_np, in_shapes, in_c))[1])
    single = flat(Fu).dtype in (np.float32, np.complex64)     # operator computing in float32 (pyabel)
    fdtol = 5e-3 if single else FD_TOL
    if not np.allclose(jv, fdv, rtol=fdtol, atol=fdtol):
        viol("Jacobian-vector product differs from the finite-difference derivative of F", to_pairs(fdv), to_pairs(jv))
    sx = conj_signs(n, in_c)
    sy = conj_signs(m, out_c)
    if single:
        sc = max(1.0, float(np.abs(J).max()))
        if not (np.allclose(V, J.T, atol=1e-4 * sc) and
                np.allclose(T, np.diag(sx) @ J.T @ np.diag(sy), atol=1e-4 * sc)):
            viol("vjp is not the adjoint / plain transpose of jvp (float32 operator, tol 1e-4)", "V = J^T", "see replay")
        return None, good
    lit = (f"({J.shape[0]}%nat, {J.shape[1]}%nat, {coq_rmat(J)}, {coq_rmat(V)}, {coq_rmat(T)}, "
           f"{coq_list([qc(t) for t in sx])}, {coq_list([qc(t) for t in sy])})")
    return lit, good


def stream_ops(ctx):
    names = sorted(op_registry().keys())
    reps = ctx.n(1, 8)
    cases, lits = [], []
    for rep in range(reps):
        for name in names:
            c = gen_op_case(ctx.rng, name)
            if rep == 1:
                c["cplx"] = not cases[names.index(name)][0]["cplx"] if len(cases) > names.index(name) else c["cplx"]
            lit, _ = run_op_case(ctx, c)
            ctx.count("operator-" + name + ("-complex" if c["cplx"] else "-real"), c)
            if lit is not None:
                cases.append((c, None))
                lits.append(lit)
            else:
                cases.append((c, None))
                lits.append("(0%nat, 0%nat, [], [], [], [], [])")
    shard = 30
    bodies = ["Definition cases : list adj_case := " + coq_list(lits[s:s + shard], ";\n ") + ".\n"
              "Eval vm_compute in (bad_idx adj_case_ok cases 0%nat)." for s in range(0, len(lits), shard)]
    outs = coq_eval_shards("C07_ops", HEADER, bodies)
    for si, o in enumerate(outs):
        for idx in parse_eval_nat_list(o):
            c, _ = cases[si * shard + idx]
            ctx.violation("Operator.jvp/vjp", "vjp is not the adjoint (conjugate=True) / plain transpose (conjugate=False) of jvp",
                          c, expected="V = J^T and T = Cx J^T Cy on real bases (tol 2^-30)", observed="see replay",
                          oracle="C07_vjp_conjugate_is_adjoint_of_jvp / C07_vjp_plain_is_transpose_of_jvp")


# --------------------------------------------------------------------------- stream D: jacobian, Function, _autograd wrappers

def close(a, b, tol=1e-9):
    a, b = flat(a), flat(b)
    return a.shape == b.shape and bool(np.allclose(a, b, rtol=tol, atol=tol))


def bil_re(a, b):
    return float(np.sum(np.real(flat(a) * flat(b))))


def stream_jacobian(ctx):
    import random
    from scico import linop
    reg = op_registry()
    names = ["Abs", "Exp", "Angle", "Operator-eval_fn", "Operator-compose", "Operator-arith", "operator_from_function",
             "Function.slice", "Operator.freeze", "MatrixOperator", "operator.VerticalStack", "Function.join",
             "Operator-R2C-linear", "Operator-R2C-phase", "Function.slice-R2C", "LinearOperator-R2C", "Operator-C2R",
             "Function.slice-C2R"]
    for rep in range(ctx.n(1, 10)):
        for name in names:
            c = {"kind": "jacobian", "name": name, "cplx": ctx.rng.random() < 0.5, "seed": ctx.rng.randint(0, 10 ** 9)}
            run_jacobian_case(ctx, c)
            ctx.count("linop.jacobian-" + name, c)


def run_jacobian_case(ctx, c, report=True, with_ie=True):
    import random
    from scico import linop
    from scico.numpy import BlockArray
    rng = random.Random(c["seed"])
    reg = op_registry()
    built = reg[c["name"]](rng, c["cplx"])
    if built is None:
        c["cplx"] = not c["cplx"]
        built = reg[c["name"]](rng, c["cplx"])
    F, in_shapes, nonzero = built
    in_c = c["cplx"]
    n = int(sum(np.prod(s) for s in in_shapes)) if is_block_shape(in_shapes) else int(np.prod(in_shapes))
    u_np = to_np(rvec(rng, n, in_c, nz=nonzero), in_c)
    u = unflat(u_np, in_shapes, in_c)
    Fu = F(u)
    out_c = bool(np.iscomplexobj(flat(Fu)))
    out_shapes = out_shapes_of(Fu)
    m = flat(Fu).size
    v_np = to_np(rvec(rng, n, in_c), in_c)
    v = unflat(v_np, in_shapes, in_c)
    w = unflat(to_np(rvec(rng, m, out_c, nz=out_c, margin=0.25), out_c), out_shapes, out_c)
    good = True

    def viol(what, expected=None, observed=None):
        nonlocal good
        good = False
        if report:
            ctx.violation("linop.jacobian", what, dict(c), expected=expected, observed=observed,
                          oracle="Operator.jvp / vjp, finite differences, <Jv,w> = <v,J^H w>")
    try:
        Jv_ref = F.jvp(u, v)[1]
        JHw_ref = F.vjp(u, conjugate=True)[1](w)
        Jop = linop.jacobian(F, u)
        Jv, JHw = Jop(v), Jop.adj(w)
        fdv = richardson(lambda t: flat(F(unflat(u_np + t * v_np, in_shapes, in_c))))
        if not close(Jv, Jv_ref):
            viol("jacobian(F,u)(v) differs from F.jvp(u,v)[1]", to_pairs(flat(Jv_ref)), to_pairs(flat(Jv)))
        if not np.allclose(flat(Jv), fdv, rtol=FD_TOL, atol=FD_TOL):
            viol("jacobian(F,u)(v) differs from the finite-difference derivative", to_pairs(fdv), to_pairs(flat(Jv)))
        if not close(JHw, JHw_ref):
            viol("jacobian(F,u).adj(w) differs from F.vjp(u)[1](w)", to_pairs(flat(JHw_ref)), to_pairs(flat(JHw)))
        if abs(re_ip(Jv, w) - re_ip(v, JHw)) > 1e-9 * max(1.0, abs(re_ip(Jv, w))):
            viol("jacobian eval/adj are not an adjoint pair", re_ip(Jv, w), re_ip(v, JHw))
        if not close(Jop.H(w), JHw):
            viol("jacobian(F,u).H(w) differs from .adj(w)", to_pairs(flat(JHw)), to_pairs(flat(Jop.H(w))))
    except Exception as ex:                      # noqa: BLE001
        viol("linop.jacobian raises an exception", "a LinearOperator", repr(ex)[:300])
        return good
    try:
        if with_ie and not is_block_shape(in_shapes) and not is_block_shape(out_shapes):
            Jie = linop.jacobian(F, u, include_eval=True)
            r, a = Jie(v), Jie.adj(w)
            if not (isinstance(r, BlockArray) and isinstance(a, BlockArray) and len(r) == 2 and len(a) == 2):
                viol("include_eval=True does not return two-block arrays", "BlockArray of 2", [type(r).__name__, type(a).__name__])
            else:
                if not (close(r[0], Fu) and close(a[0], Fu)):
                    viol("include_eval=True: first block is not F(u)", to_pairs(flat(Fu)), [to_pairs(flat(r[0])), to_pairs(flat(a[0]))])
                if not (close(r[1], Jv_ref) and close(a[1], JHw_ref)):
                    viol("include_eval=True: second blocks are not J v / J^H w", None, None)
    except Exception as ex:                      # noqa: BLE001
        c["in_complex"], c["out_complex"] = bool(in_c), bool(out_c)
        viol("linop.jacobian(include_eval=True) eval/adj raises an exception", "two-block arrays (F(u), J v) / (F(u), J^H w)",
             repr(ex)[:300])
    return good


def gen_function_case(rng, dtypes=None):
    """dtypes: 'rr', 'cc' (same dtype in and out), 'rc' (real inputs, complex output), 'cr'"""
    nargs = rng.choice([2, 3])
    dtypes = dtypes or rng.choice(["rr", "cc", "rc", "cr"])
    cplx, ocplx = dtypes[0] == "c", dtypes[1] == "c"
    w = rvec(rng, 2, ocplx, nz=ocplx, margin=0.25)        # complex cotangents: non-zero imaginary parts
    return {"kind": "function", "nargs": nargs, "cplx": cplx, "out_cplx": ocplx, "dtypes": dtypes,
            "index": rng.randrange(nargs), "fn": rng.choice(["poly", "mixed"]), "jit": rng.random() < 0.3,
            "args": [rvec(rng, 2, cplx) for _ in range(nargs)], "v": rvec(rng, 2, cplx), "w": w}


def build_function(c):
    import scico.numpy as snp
    from scico.function import Function
    dt = np.complex128 if c["cplx"] else np.float64
    if c.get("dtypes", "cc") in ("rc", "cr"):
        F = _fn_mixed(c["dtypes"], c["nargs"], c["jit"])
        return F, F._eval
    if c["nargs"] == 3:
        if c["fn"] == "poly":
            fn = lambda a, b, z: a * b + 2.0 * z * a - snp.conj(b) * z * z      # noqa: E731
        else:
            fn = lambda a, b, z: snp.exp(a) * b + snp.abs(z + 3.0) * a + snp.sin(b)   # noqa: E731
    else:
        if c["fn"] == "poly":
            fn = lambda a, b: a * a * b - 3.0 * snp.conj(a) + b                 # noqa: E731
        else:
            fn = lambda a, b: snp.exp(a * 0.5) * snp.conj(b) + snp.cos(b) * a   # noqa: E731
    return Function(((2,),) * c["nargs"], output_shape=(2,), eval_fn=fn, input_dtypes=dt,
                    output_dtype=dt, jit=c["jit"]), fn


def run_function_case(ctx, c, report=True, with_ie=True):
    import scico.numpy as snp
    from scico.numpy import BlockArray
    cplx, idx = c["cplx"], c["index"]
    F, fn = build_function(c)
    args_np = [to_np(a, cplx) for a in c["args"]]
    args = [snp.array(a) for a in args_np]
    ocplx = c.get("out_cplx", cplx)
    v_np, w_np = to_np(c["v"], cplx), to_np(c["w"], ocplx)
    v, w = snp.array(v_np), snp.array(w_np)
    good = True

    def viol(what, expected=None, observed=None, unit="Function.jvp/vjp/jacobian"):
        nonlocal good
        good = False
        if report:
            ctx.violation(unit, what, dict(c), expected=expected, observed=observed,
                          oracle="finite differences in the selected argument; <Jv,w> = <v,J^H w> in Re<.,.>")

    def at(t):
        a2 = list(args_np)
        a2[idx] = a2[idx] + t * v_np
        return np.asarray(fn(*[snp.array(z) for z in a2]))
    try:
        val, Jv = F.jvp(idx, v, *args)
        fval = np.asarray(fn(*args))
        fdv = richardson(at)
        if not close(val, fval):
            viol("Function.jvp value differs from F(*args)", to_pairs(fval), to_pairs(val))
        if not np.allclose(flat(Jv), fdv, rtol=FD_TOL, atol=FD_TOL):
            viol("Function.jvp differs from the finite-difference derivative in argument `index`", to_pairs(fdv), to_pairs(Jv))
        val1, G1 = F.vjp(idx, *args, conjugate=True)
        val0, G0 = F.vjp(idx, *args, conjugate=False)
        if not (close(val1, fval) and close(val0, fval)):
            viol("Function.vjp value differs from F(*args)", to_pairs(fval), [to_pairs(val1), to_pairs(val0)])
        if abs(re_ip(Jv, w) - re_ip(v, G1(w))) > 1e-9 * max(1.0, abs(re_ip(Jv, w))):
            viol("Function.vjp(conjugate=True) is not the adjoint of Function.jvp", re_ip(Jv, w), re_ip(v, G1(w)))
        if abs(bil_re(Jv, w) - bil_re(v, G0(w))) > 1e-9 * max(1.0, abs(bil_re(Jv, w))):
            viol("Function.vjp(conjugate=False) is not the plain transpose of Function.jvp", bil_re(Jv, w), bil_re(v, G0(w)))
        if np.iscomplexobj(np.asarray(G1(w))) != cplx or np.iscomplexobj(np.asarray(Jv)) != ocplx:
            viol("Function.jvp / vjp results have the wrong dtype", [cplx, ocplx],
                 [str(np.asarray(G1(w)).dtype), str(np.asarray(Jv).dtype)])
        J = F.jacobian(idx, *args)
        JHw = J.adj(w)
        if not (close(J(v), Jv) and close(JHw, G1(w))):
            viol("Function.jacobian eval/adj differ from jvp/vjp", None, None)
        if abs(re_ip(J(v), w) - re_ip(v, JHw)) > 1e-9 * max(1.0, abs(re_ip(Jv, w))):
            viol("Function.jacobian eval/adj are not an adjoint pair in Re<.,.>", re_ip(J(v), w), re_ip(v, JHw))
        if not close(J.H(w), JHw):
            viol("Function.jacobian(...).H differs from .adj", None, None)
    except Exception as ex:                      # noqa: BLE001
        viol("Function.jvp / vjp / jacobian raises an exception", "Jacobian products", repr(ex)[:300])
        return good
    if not with_ie:
        return good
    try:
        Jie = F.jacobian(idx, *args, include_eval=True)
        r, a = Jie(v), Jie.adj(w)
        if not (isinstance(r, BlockArray) and isinstance(a, BlockArray) and close(r[0], fval) and close(a[0], fval)
                and close(r[1], Jv) and close(a[1], G1(w))):
            viol("Function.jacobian(include_eval=True) blocks are not (F(*args), J v) / (F(*args), J^H w)", None, None)
    except Exception as ex:                      # noqa: BLE001
        c["in_complex"], c["out_complex"] = bool(cplx), bool(ocplx)
        viol("linop.jacobian(include_eval=True) eval/adj raises an exception (via Function.jacobian)",
             "two-block arrays (F(*args), J v) / (F(*args), J^H w)", repr(ex)[:300], unit="linop.jacobian")
    return good


def stream_function(ctx):
    kinds = ["rc", "cc", "cr", "rr"]
    for i in range(ctx.n(24, 400)):
        c = gen_function_case(ctx.rng, kinds[i % 4])
        run_function_case(ctx, c)
        ctx.count(f"function-{c['nargs']}args-index{c['index']}-{c['dtypes']}", c)


def gen_autograd_case(rng):
    return {"kind": "autograd", "which": rng.choice(["grad", "grad_aux", "vag", "vag_aux", "grad_argnums",
                                                     "jacrev", "cvjp", "cvjp_jidx", "linear_adjoint"]),
            "cplx": rng.random() < 0.6, "jidx": rng.randrange(3), "lin": rng.choice(["cc", "rc", "rr", "cr_conj"]),
            "a": rvec(rng, 3, True), "b": rvec(rng, 3, True), "x": rvec(rng, 3, True, nz=True), "y": rvec(rng, 3, True),
            "z": rvec(rng, 3, True), "d": rvec(rng, 3, True), "e": rvec(rng, 3, True), "w": rvec(rng, 3, True)}


def run_autograd_case(ctx, c, report=True):
    import jax
    import scico
    import scico.numpy as snp
    cplx = c["cplx"]
    A = {k: snp.array(to_np(c[k], cplx)) for k in ("a", "b", "x", "y", "z", "d", "e", "w")}
    a, b, x, y, z, d, e, w = (A[k] for k in ("a", "b", "x", "y", "z", "d", "e", "w"))
    good = True

    def viol(what, expected=None, observed=None):
        nonlocal good
        good = False
        if report:
            ctx.violation("scico._autograd", what, dict(c), expected=expected, observed=observed,
                          oracle="finite differences / <Jv,w> = <v,J^H w>")

    def f2(p, q):        # real-valued, non-holomorphic, two arguments
        return snp.sum(snp.abs(p * a + q) ** 2) + snp.sum(snp.real(p * snp.conj(q) * b)) + snp.sum(snp.abs(p))

    def f2aux(p, q):
        return f2(p, q), (p + q, 7)

    def Fv(p, q, r):     # array-valued, three arguments
        return p * q + snp.exp(r * 0.25) * snp.conj(p) - a * r * r

    def dd_f2(dp, dq):
        return float(np.real(richardson(lambda t: float(f2(x + t * dp, y + t * dq)))))
    try:
        k = c["which"]
        if k in ("grad", "grad_aux", "vag", "vag_aux"):
            if k == "grad":
                g = scico.grad(f2)(x, y)
            elif k == "grad_aux":
                g, aux = scico.grad(f2aux, has_aux=True)(x, y)
                if not (close(aux[0], x + y) and aux[1] == 7):
                    viol("grad(has_aux=True) does not return the auxiliary data unchanged")
            elif k == "vag":
                val, g = scico.value_and_grad(f2)(x, y)
                if abs(float(val) - float(f2(x, y))) > 1e-12 * max(1, abs(float(val))):
                    viol("value_and_grad value differs from fun(x)")
            else:
                (val, aux), g = scico.value_and_grad(f2aux, has_aux=True)(x, y)
                if abs(float(val) - float(f2(x, y))) > 1e-12 * max(1, abs(float(val))) or not (close(aux[0], x + y) and aux[1] == 7):
                    viol("value_and_grad(has_aux=True) value/aux differ")
            r = dd_f2(d, 0 * d)
            if abs(re_ip(g, d) - r) > FD_TOL * max(1, abs(r)):
                viol(f"{k}: Re<g, d> differs from the directional derivative", r, re_ip(g, d))
        elif k == "grad_argnums":
            g0, g1 = scico.grad(f2, argnums=(0, 1))(x, y)
            r = dd_f2(d, e)
            lhs = re_ip(g0, d) + re_ip(g1, e)
            if abs(lhs - r) > FD_TOL * max(1, abs(r)):
                viol("grad(argnums=(0,1)): per-argument gradients do not give the joint directional derivative", r, lhs)
            g1only = scico.grad(f2, argnums=1)(x, y)
            if not close(g1only, g1):
                viol("grad(argnums=1) differs from the second component of grad(argnums=(0,1))")
            xb = snp.blockarray([x, y[:2]])
            db = snp.blockarray([d, e[:2]])
            fb = lambda t: snp.sum(snp.abs(t[0] * a) ** 2) + snp.sum(snp.real(t[1] * b[:2])) + snp.sum(snp.abs(t[1]) ** 2 * snp.abs(t[0][:2]))   # noqa: E731
            gb = scico.grad(fb)(xb)
            rb = float(np.real(richardson(lambda t: float(fb(xb + t * db)))))
            if abs(re_ip(gb, db) - rb) > FD_TOL * max(1, abs(rb)):
                viol("grad on a block argument: Re<g,d> differs from the directional derivative", rb, re_ip(gb, db))
            g_b0 = scico.grad(lambda p: fb(snp.blockarray([p, xb[1]])))(xb[0])
            if not close(gb[0], g_b0):
                viol("grad on a block argument is not the block array of per-block gradients")
        elif k == "jacrev":
            Fr = lambda p: snp.stack([snp.sum(snp.abs(p * a) ** 2), snp.sum(snp.real(p * b)), snp.sum(snp.abs(p))])   # noqa: E731
            Jc = scico.jacrev(Fr)(x)
            fdv = np.real(richardson(lambda t: np.asarray(Fr(x + t * d))))
            rows = np.array([re_ip(Jc[i], d) for i in range(3)])
            if not np.allclose(rows, fdv, rtol=FD_TOL, atol=FD_TOL):
                viol("jacrev: Re<row_k, d> differs from the derivative of component k", fdv.tolist(), rows.tolist())
        elif k in ("cvjp", "cvjp_jidx"):
            prim = (x, y, z)
            out = Fv(*prim)
            if k == "cvjp":
                po, G = scico.cvjp(Fv, *prim)
                tang = (d, e, a)
                _, Jt = jax.jvp(Fv, prim, tang)
                gw = G(w)
                lhs, rhs = re_ip(Jt, w), sum(re_ip(t, gi) for t, gi in zip(tang, gw))
                ok_len = len(gw) == 3
            else:
                j = c["jidx"]
                po, G = scico.cvjp(Fv, *prim, jidx=j)
                tang = [0 * x, 0 * x, 0 * x]
                tang[j] = d
                _, Jt = jax.jvp(Fv, prim, tuple(tang))
                gw = G(w)
                lhs, rhs = re_ip(Jt, w), re_ip(d, gw[0])
                ok_len = len(gw) == 1
                fdv = richardson(lambda t: np.asarray(Fv(*[p + t * tt for p, tt in zip(prim, tang)])))
                if not np.allclose(flat(Jt), fdv, rtol=FD_TOL, atol=FD_TOL):
                    viol("jax.jvp differs from finite differences (convention J)")
            if not close(po, out):
                viol("cvjp primals_out differs from fun(*primals)")
            if not ok_len or abs(lhs - rhs) > 1e-9 * max(1, abs(lhs)):
                viol(f"{k}: conj_vjp is not the Hermitian adjoint of the Jacobian-vector product", lhs, rhs)
        else:
            M = np.array([[complex(*c["a"][i]) * (j + 1) + complex(*c["b"][j]) for j in range(3)] for i in range(2)])
            lin = c["lin"]
            if lin == "cc":
                h, p0, w0 = (lambda p: snp.array(M) @ p), x.astype(np.complex128), snp.array(to_np(c["w"][:2], True))
            elif lin == "rc":
                h, p0, w0 = (lambda p: snp.array(M) @ p), snp.real(x), snp.array(to_np(c["w"][:2], True))
            elif lin == "rr":
                h, p0, w0 = (lambda p: snp.array(M.real) @ p), snp.real(x), snp.array(to_np(c["w"][:2], False))
            else:
                h, p0, w0 = (lambda p: snp.array(M) @ snp.conj(p) + 2.0 * p[:2]), x.astype(np.complex128), snp.array(to_np(c["w"][:2], True))
            hT = scico.linear_adjoint(h, p0)
            dv = d.astype(p0.dtype) if np.iscomplexobj(np.asarray(p0)) else snp.real(d)
            got = hT(w0)
            lhs, rhs = re_ip(h(dv), w0), re_ip(dv, got[0])
            if len(got) != 1 or abs(lhs - rhs) > 1e-9 * max(1, abs(lhs)):
                viol(f"linear_adjoint ({lin}) is not the adjoint in Re<.,.>", lhs, rhs)
            if np.asarray(got[0]).dtype != np.asarray(p0).dtype:
                viol(f"linear_adjoint ({lin}) returns the wrong dtype", str(np.asarray(p0).dtype), str(np.asarray(got[0]).dtype))
    except Exception as ex:                      # noqa: BLE001
        viol(f"{c['which']} raises an exception", None, repr(ex)[:300])
    return good


def stream_autograd(ctx):
    for _ in range(ctx.n(45, 600)):
        c = gen_autograd_case(ctx.rng)
        run_autograd_case(ctx, c)
        ctx.count("autograd-" + c["which"] + ("-complex" if c["cplx"] else "-real"), c)


# --------------------------------------------------------------------------- stream E: the JAX conventions (Section hypotheses)

def stream_conventions(ctx):
    import jax
    import jax.numpy as jnp
    from jax.tree_util import tree_map
    import scico.numpy as snp
    rng = ctx.rng
    okG = okJ = okV = okL = okM = True
    detail = {}
    for _ in range(ctx.n(6, 60)):
        n = 3
        cc, p, qv, r = (np.array([dy(rng) for _ in range(n)]) for _ in range(4))
        z = to_np(rvec(rng, n, True), True)
        v = to_np(rvec(rng, n, True), True)
        w = to_np(rvec(rng, n, True), True)
        a = to_np(rvec(rng, n, True), True)
        M = to_np(rvec(rng, 2 * n, True, bits=1), True).reshape(2, n)
        # (G) jax.grad f = gx - i gy
        f = lambda t: jnp.sum(cc * (t.real ** 2 + t.imag ** 2) + p * t.real + qv * t.imag + r * t.real * t.imag)   # noqa: E731
        gx = 2 * cc * z.real + p + r * z.imag
        gy = 2 * cc * z.imag + qv + r * z.real
        jg = np.asarray(jax.grad(f)(jnp.array(z)))
        if not np.allclose(jg, gx - 1j * gy, rtol=1e-12, atol=1e-12):
            okG, detail["G"] = False, [to_pairs(z), to_pairs(jg), to_pairs(gx - 1j * gy)]
        # real argument: jax.grad = gx
        jr = np.asarray(jax.grad(lambda t: jnp.sum(cc * t ** 2 + p * t))(jnp.array(z.real)))
        if not np.allclose(jr, 2 * cc * z.real + p, rtol=1e-12, atol=1e-12):
            okG = False
        # (J) jax.jvp F (u,) (v,) = (F u, DF(u)[v]), DF real-linear
        F = lambda t: t * t + jnp.conj(t) * a + jnp.abs(t + 4.0)      # noqa: E731
        DFv = 2 * z * v + np.conj(v) * a + np.real(np.conj(z + 4.0) * v) / np.abs(z + 4.0)
        val, tan = jax.jvp(F, (jnp.array(z),), (jnp.array(v),))
        if not (np.allclose(np.asarray(val), z * z + np.conj(z) * a + np.abs(z + 4.0), rtol=1e-12, atol=1e-12)
                and np.allclose(np.asarray(tan), DFv, rtol=1e-12, atol=1e-12)):
            okJ, detail["J"] = False, [to_pairs(z), to_pairs(v), to_pairs(np.asarray(tan)), to_pairs(DFv)]
        # (V) jax.vjp returns the plain transpose: Re sum (DF v) w = Re sum v (T w)
        val2, T = jax.vjp(F, jnp.array(z))
        Tw = np.asarray(T(jnp.array(w))[0])
        if not (np.allclose(np.asarray(val2), np.asarray(val)) and
                abs(np.sum(np.real(DFv * w)) - np.sum(np.real(v * Tw))) <= 1e-10 * max(1, abs(np.sum(np.real(DFv * w))))):
            okV, detail["V"] = False, [to_pairs(z), to_pairs(w), to_pairs(Tw)]
        Fm = lambda t: jnp.array(M) @ t                               # noqa: E731
        Tm = np.asarray(jax.vjp(Fm, jnp.array(z))[1](jnp.array(w[:2]))[0])
        if not np.allclose(Tm, M.T @ w[:2], rtol=1e-12, atol=1e-12):   # unconjugated M^T
            okV, detail["V2"] = False, [to_pairs(Tm), to_pairs(M.T @ w[:2])]
        # complex -> real output and real -> complex output
        Fa = lambda t: jnp.abs(t) ** 2                                # noqa: E731
        Ta = np.asarray(jax.vjp(Fa, jnp.array(z))[1](jnp.array(w.real))[0])
        if not np.allclose(Ta, 2 * w.real * np.conj(z), rtol=1e-12, atol=1e-12):
            okV, detail["V3"] = False, [to_pairs(Ta)]
        Frc = lambda t: (1.0 + 2.0j) * t                              # noqa: E731
        Trc = np.asarray(jax.vjp(Frc, jnp.array(z.real))[1](jnp.array(w))[0])
        if np.iscomplexobj(Trc) or not np.allclose(Trc, np.real((1 + 2j) * w), rtol=1e-12, atol=1e-12):
            okV, detail["V4"] = False, [to_pairs(Trc)]
        # (L) jax.linear_transpose: the same plain transpose, also for a merely real-linear map
        hl = lambda t: jnp.array(M) @ jnp.conj(t) + 3.0 * t[:2]       # noqa: E731
        Tl = np.asarray(jax.linear_transpose(hl, jnp.array(z))(jnp.array(w[:2]))[0])
        hv = M @ np.conj(v) + 3.0 * v[:2]
        if abs(np.sum(np.real(hv * w[:2])) - np.sum(np.real(v * Tl))) > 1e-10 * max(1, abs(np.sum(np.real(hv * w[:2])))):
            okL, detail["L"] = False, [to_pairs(Tl)]
        # (M) tree_map conj acts per block / per tuple element
        ba = snp.blockarray([snp.array(z), snp.array(w[:2].reshape(1, 2))])
        cb = tree_map(jnp.conj, ba)
        ct = tree_map(jnp.conj, (jnp.array(z), jnp.array(v.real)))
        if not (np.array_equal(np.asarray(cb[0]), np.conj(z)) and np.array_equal(np.asarray(cb[1]), np.conj(w[:2].reshape(1, 2)))
                and np.array_equal(np.asarray(ct[0]), np.conj(z)) and np.array_equal(np.asarray(ct[1]), v.real)
                and np.array_equal(np.asarray(ba.conj()[0]), np.conj(z))):
            okM = False
        ctx.count("jax-conventions", None, nontrivial=False)
    for tag, ok, txt in (("G", okG, "jax.grad f = gx - i gy (conjugate of the Riesz representer in Re<.,.>)"),
                         ("J", okJ, "jax.jvp F (u,) (v,) = (F u, DF(u)[v]) with DF(u) real-linear"),
                         ("V", okV, "jax.vjp returns the plain (unconjugated, real-bilinear) transpose of DF(u)"),
                         ("L", okL, "jax.linear_transpose returns the plain transpose of a real-linear map"),
                         ("M", okM, "tree_map(conj) / BlockArray.conj act block-wise")):
        ctx.obligation(ok, f"JAX convention ({tag}) assumed by the theorems holds on the samples: {txt}",
                       json.dumps({k: v for k, v in detail.items() if k.startswith(tag)})[:1500])


# --------------------------------------------------------------------------- stream F: SquaredL2Loss.hessian

def gen_hess_case(rng):
    cplx = rng.random() < 0.5
    n = rng.randint(1, 4)
    A = gen_linop_spec(rng, n, cplx) if rng.random() < 0.85 else None
    m = out_dim(A, n)
    leaf = ["sql2loss", rvec(rng, m, cplx), A, dy_nz(rng, bits=2, lo=0, hi=2, margin=0.25),
            [rng.randint(0, 8) / 4 for _ in range(m)] if rng.random() < 0.5 else None]
    e = leaf
    r = rng.random()
    if r < 0.25:
        e = ["mul", dy_nz(rng, bits=1, lo=-3, hi=3), leaf]
    elif r < 0.4:
        e = ["div", rng.choice([0.5, 2.0, -4.0]), leaf]
    elif r < 0.5:
        e = ["mul", dy_nz(rng, bits=1), ["rmul", dy_nz(rng, bits=1), leaf]]
    elif r < 0.7:      # scaled copies of a loss that has already been used (call-history must not leak into the copy)
        e = [["mul", dy_nz(rng, bits=1, lo=-3, hi=3), ["used", leaf]], ["div", rng.choice([0.5, 2.0, -4.0]), ["used", leaf]],
             ["mul", dy_nz(rng, bits=1), ["used", ["rmul", dy_nz(rng, bits=1), ["used", leaf]]]]][rng.randrange(3)]
    return {"kind": "hessian", "cplx": cplx, "n": n, "shapes": [n], "expr": e,
            "x": rvec(rng, n, cplx), "d": rvec(rng, n, cplx), "u": rvec(rng, n, cplx)}


def run_hess_case(ctx, c, report=True):
    """-> (coq literal or None, ok)"""
    import scico.numpy as snp
    n, cplx = c["n"], c["cplx"]
    good = True

    def viol(what, expected=None, observed=None):
        nonlocal good
        good = False
        if report:
            ctx.violation("SquaredL2Loss.hessian", what, dict(c), expected=expected, observed=observed,
                          oracle="Coq model 2 alpha A^H W A (exact); g(x+d) - g(x); <Hu,v> = <u,Hv>")
    try:
        obj, terms = build_quad(c["expr"], n, cplx, c["shapes"])
        x, d, u = (snp.array(to_np(c[k], cplx)) for k in ("x", "d", "u"))
        H = obj.hessian
        Hd, Hu = H(d), H(u)
        if tuple(Hd.shape) != (n,):
            viol("hessian output has the wrong shape", [n], list(Hd.shape))
            return None, good
        gdiff = obj.grad(x + d) - obj.grad(x)
        if not close(gdiff, Hd):
            viol("H d differs from grad(x + d) - grad(x) (the gradient is affine)", to_pairs(gdiff), to_pairs(Hd))
        fdg = richardson(lambda t: flat(obj.grad(x + t * d)))
        if not np.allclose(flat(Hd), fdg, rtol=FD_TOL, atol=FD_TOL):
            viol("H d differs from the finite-difference derivative of the gradient", to_pairs(fdg), to_pairs(Hd))
        if abs(re_ip(Hd, u) - re_ip(d, Hu)) > 1e-9 * max(1.0, abs(re_ip(Hd, u))):
            viol("hessian is not self-adjoint", re_ip(Hd, u), re_ip(d, Hu))
        if not close(H.adj(d), Hd):
            viol("hessian.adj differs from hessian eval", to_pairs(Hd), to_pairs(H.adj(d)))
    except Exception as ex:                      # noqa: BLE001
        viol("hessian raises an exception", None, repr(ex)[:300])
        return None, good
    return f"({coq_terms(terms)}, {cvec(c['d'])}, {cvec(to_pairs(Hd))})", good


def stream_hessian(ctx):
    cases, lits = [], []
    for _ in range(ctx.n(40, 500)):
        c = gen_hess_case(ctx.rng)
        lit, _ = run_hess_case(ctx, c)
        ctx.count("hessian" + ("-complex" if c["cplx"] else "-real"), c)
        if lit is not None:
            cases.append(c)
            lits.append(lit)
    shard = 100
    bodies = ["Definition cases : list hess_case := " + coq_list(lits[s:s + shard], ";\n ") + ".\n"
              "Eval vm_compute in (bad_idx hess_case_ok cases 0%nat)." for s in range(0, len(lits), shard)]
    outs = coq_eval_shards("C07_hess", HEADER, bodies)
    for si, o in enumerate(outs):
        for idx in parse_eval_nat_list(o):
            ctx.violation("SquaredL2Loss.hessian", "H d differs from 2 alpha A^H W A d computed exactly by the Coq model",
                          cases[si * shard + idx], expected="QuadExec.qhess (tol 2^-30)", observed="see replay",
                          oracle="C07_hessian_is_derivative_of_gradient")


# --------------------------------------------------------------------------- stream G: kinks (no exception) and closed-form points

def special_points():
    """(name, builder, x pairs, cplx, shape, expected gradient pairs or None for 'kink: no exception only')"""
    from scico import functional as F
    from scico import loss
    import scico.numpy as snp
    P = []
    z3 = [[0.0, 0.0]] * 3
    # closed-form points: differentiable, gradient known from theorem C07_huber_gradient etc.
    P.append(("huber_nonsep@junction-real", lambda: F.HuberNorm(1.25, separable=False), [[0.75, 0], [1.0, 0]], False, [2], [[0.75, 0], [1.0, 0]]))
    P.append(("huber_nonsep@junction-complex", lambda: F.HuberNorm(1.25, separable=False), [[0.75, 1.0]], True, [1], [[0.75, 1.0]]))
    P.append(("huber_nonsep@junction-345", lambda: F.HuberNorm(5.0, separable=False), [[3.0, 0], [0.0, 0], [4.0, 0]], False, [3], [[3.0, 0], [0.0, 0], [4.0, 0]]))
    P.append(("huber_nonsep@0-real", lambda: F.HuberNorm(1.0, separable=False), z3, False, [3], z3))
    P.append(("huber_nonsep@0-complex", lambda: F.HuberNorm(1.0, separable=False), z3, True, [3], z3))
    P.append(("huber_sep@junction-real", lambda: F.HuberNorm(1.5, separable=True), [[1.5, 0], [-1.5, 0], [0.5, 0]], False, [3], [[1.5, 0], [-1.5, 0], [0.5, 0]]))
    P.append(("huber_sep@junction-complex", lambda: F.HuberNorm(1.25, separable=True), [[0.75, 1.0], [-1.0, 0.75], [0.25, 0.0]], True, [3], [[0.75, 1.0], [-1.0, 0.75], [0.25, 0.0]]))
    P.append(("huber_sep@0-complex", lambda: F.HuberNorm(1.0, separable=True), z3, True, [3], z3))
    P.append(("sql2norm@0-complex", lambda: F.SquaredL2Norm(), z3, True, [3], z3))
    P.append(("sql2loss@residual0-complex", lambda: loss.SquaredL2Loss(y=snp.array(np.array([1 + 1j, 2.0, -1j]))), [[1, 1], [2, 0], [0, -1]], True, [3], z3))
    P.append(("scaled-setdist@interior", lambda: 1.0 * F.SetDistance(proj_ball, args=(4.0,)), [[1.0, 0], [0.5, 0], [-1.0, 0]], False, [3], z3))
    P.append(("scaled-sqsetdist@interior", lambda: 1.0 * F.SquaredSetDistance(proj_ball, args=(4.0,)), [[1.0, 0], [0.5, 0], [-1.0, 0]], False, [3], z3))
    P.append(("loss-huber_nonsep@residual0", lambda: loss.Loss(y=snp.array(np.array([1.0, 2.0])), f=F.HuberNorm(1.0, separable=False)), [[1.0, 0], [2.0, 0]], False, [2], [[0.0, 0], [0.0, 0]]))
    # kinks: only "no exception"
    P.append(("L1@0-real", lambda: F.L1Norm(), z3, False, [3], None))
    P.append(("L1@0-complex", lambda: F.L1Norm(), z3, True, [3], None))
    P.append(("L2@0", lambda: F.L2Norm(), z3, False, [3], None))
    P.append(("scaled-L21@zero-column", lambda: 2.0 * F.L21Norm(), [[0, 0], [1, 0], [0, 0], [2, 0]], False, [2, 2], None))
    P.append(("nuclear@identity", lambda: F.NuclearNorm(), [[1, 0], [0, 0], [0, 0], [1, 0]], False, [2, 2], None))
    P.append(("sql2abs@Ax=0", lambda: loss.SquaredL2AbsLoss(y=snp.array(np.array([1.0, 2.0, 0.0]))), z3, True, [3], None))
    P.append(("scaled-l1ml2@0", lambda: 2.0 * F.L1MinusL2Norm(), z3, False, [3], None))
    P.append(("scaled-setdist@boundary", lambda: 1.0 * F.SetDistance(proj_ball, args=(1.0,)), [[1.0, 0], [0, 0], [0, 0]], False, [3], None))
    P.append(("scaled-anisoTV@constant", lambda: 2.0 * F.AnisotropicTVNorm(), [[1.0, 0]] * 4, False, [2, 2], None))
    P.append(("poisson@Ax=0", lambda: loss.PoissonLoss(y=snp.array(np.array([1.0, 2.0, 0.0]))), z3, False, [3], None))
    return P


def run_special(ctx, name, report=True):
    import scico.numpy as snp
    P = {p[0]: p for p in special_points()}
    _, mk, xp, cplx, shape, expected = P[name]
    inp = {"kind": "special", "name": name}
    x = snp.array(to_np(xp, cplx).reshape(shape))
    try:
        g = mk().grad(x)
    except Exception as ex:                      # noqa: BLE001
        if report:
            ctx.violation("Functional.grad", "grad raises an exception at a kink / special point", inp,
                          expected="no exception", observed=repr(ex)[:300], oracle="no exception")
        return False
    if expected is None:
        return True
    exp = to_np(expected, cplx)
    if not np.allclose(flat(g), exp, rtol=1e-9, atol=1e-9, equal_nan=False):
        if report:
            ctx.violation("Functional.grad",
                          "gradient contains NaN at a differentiable point" if has_nan(g)
                          else "gradient differs from the closed form at a differentiable point",
                          inp, expected=expected, observed=to_pairs(g),
                          oracle="closed-form gradient (theorems C07_huber_gradient, C07_squared_l2_norm_gradient; locally constant/zero functions)")
        return False
    return True


def stream_special(ctx):
    for p in special_points():
        run_special(ctx, p[0])
        ctx.count("special-" + ("kink" if p[5] is None else "closed-form"), {"name": p[0]})


# --------------------------------------------------------------------------- run / replay

def run(ctx: Ctx):
    if not getattr(ctx, "no_proofs", False):
        ctx.proofs()
    ctx.trusted += [
        "JAX autodiff itself (jax.grad / jvp / vjp / linear_transpose): Section variables; the conventions (G),(J),(V),(L),(M) "
        "of coq/theories/C07/Wrappers.v are hypotheses, each exercised on samples by stream E of vf/props/C07.py",
        "hand transcription of scico/_autograd.py, Operator.jvp/vjp, linop.jacobian, Function.jvp/vjp/jacobian, scico.util.partial, "
        "Loss.__mul__/__truediv__/set_scale, SquaredL2Loss.__call__/hessian, HuberNorm, PoissonLoss into coq/theories/C07/*.v "
        "(validated by the correspondence streams, not regenerated from source)",
        "Python object model of a shallow copy and of a bound-method closure (ObjModel.v)",
        "Coquelicot 3.x (is_derive) for the four derivative theorems",
        "float64 Richardson central differences (tolerance 1e-6) as oracle for non-polynomial functionals and operators",
    ]
    ctx.assumptions += [
        "exact arithmetic in the model; IEEE rounding is not modelled (tolerance 2^-30 relative for quantities compared inside Coq)",
        "operators used with the exact oracle are complex-linear (checked on the basis for each case)",
        "non-smooth points are only checked for 'no exception'; L0Norm (integer valued) is excluded",
    ]
    ctx.notes += ["L0Norm excluded: not a smooth functional (jax.grad rejects its integer output)",
                  "negative `index` / `jidx` are outside the documented parameter range and are not generated"]
    stream_conventions(ctx)
    stream_quad(ctx)
    stream_fd(ctx)
    stream_special(ctx)
    stream_ops(ctx)
    stream_jacobian(ctx)
    stream_function(ctx)
    stream_autograd(ctx)
    stream_hessian(ctx)


def _coq_single(name, typ, check, lit):
    body = f"Definition cases : list {typ} := [{lit}].\nEval vm_compute in (bad_idx {check} cases 0%nat)."
    return parse_eval_nat_list(coq_eval_shards(name, HEADER, [body])[0]) == []


def replay(ctx: Ctx, rec):
    c = rec["input"]
    kind = c.get("kind")
    if kind == "quad":
        try:
            lit, _, _, _ = run_quad_case(c)
        except Broken:
            raise
        except Exception:                        # noqa: BLE001
            return False
        return _coq_single("C07_replay", "grad_case", "grad_case_ok", lit)
    if kind == "fd":
        c = {k: v for k, v in c.items() if k not in ("top", "setdist_interior")}
        return run_fd_case(ctx, c, report=False)
    if kind == "special":
        return run_special(ctx, c["name"], report=False)
    if kind == "op":
        lit, ok = run_op_case(ctx, c, report=False)
        if lit is None:
            return ok
        return ok and _coq_single("C07_replay", "adj_case", "adj_case_ok", lit)
    # the include_eval part is replayed only for a violation recorded in that part (it is a
    # separate known finding for operators whose input and output dtypes differ in kind)
    ie = str(rec.get("what", "")).startswith(("linop.jacobian(include_eval=True)", "include_eval=True",
                                              "Function.jacobian(include_eval=True)"))
    c = {k: v for k, v in c.items() if k not in ("in_complex", "out_complex")}
    if kind == "jacobian":
        return run_jacobian_case(ctx, c, report=False, with_ie=ie) if not ie else run_jacobian_case(ctx, c, report=False)
    if kind == "function":
        return run_function_case(ctx, c, report=False, with_ie=ie)
    if kind == "autograd":
        return run_autograd_case(ctx, c, report=False)
    if kind == "hessian":
        lit, ok = run_hess_case(ctx, c, report=False)
        if lit is None:
            return ok
        return ok and _coq_single("C07_replay", "hess_case", "hess_case_ok", lit)
    raise SystemExit("unknown case kind")
