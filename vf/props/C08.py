"""C08 -- proximal calculus rules and capability flags.

Theorems: coq/Properties/C08.v (models coq/theories/C08/*.v; findings coq/Findings/C08_flags.v).
Harness: random functional expressions of depth <= 4 over the base functionals (scaling incl.
negative scales, SeparableFunctional, FunctionalSum, Loss with every forward-operator class,
SquaredL2Loss with weights), complex data, block arrays; the real scico objects are built and
 (a) has_eval / has_prox and "does the call raise" are compared INSIDE Coq with the flag model
     (C08.Exec.flag_ok on the syntax tree) and with each other (flag True => works, flag False =>
     NotImplementedError);
 (b) when prox works: (c*f).prox(v,lam) == f.prox(v,c*lam); SeparableFunctional.prox block by
     block; Loss.prox == f.prox(v-y, scale*lam)+y; objective oracle of C02 on the denoted
     functional (own numpy evaluation of the tree);
 (c) conj_prox against independently known proxes of conjugates (Moreau);
 (d) SquaredL2Loss.prox: diagonal A -> exact residual of (I + 2 a lam A^H W A)x = v + 2 a lam A^H W y
     at Qc inside Coq; dense non-diagonal A -> CG branch, residual <= configured tol * ||rhs||.
 (e) history stream: a SquaredL2Loss (dense / diagonal A, real / complex, weights) is USED (prox and/or
     hessian) and re-scaled (L*c, c*L, L/c, (c*L)*d, copy + set_scale) in both orders; every derived
     object and the original must solve the system / have the Hessian / the value of ITS OWN scale.
"""
from __future__ import annotations

import math
import random as _random

import numpy as np

from vf.common import Ctx, Broken, coq_eval_shards, parse_eval_nat_list, qlit, coq_list, coq_make
from vf.props.C02 import enc, dec, to_snp, to_np, flat, like, dy, rand_array, is_cplx, huber_np, qc

HEADER = """From Coq Require Import QArith Qcanon Bool List.
From SV Require Import Base.Num C02.Models C02.Exec C08.Calculus C08.Exec.
Import ListNotations.
"""
TOL = 1e-9
CLS_COQ = {"identity": "FIdentity", "scaledid": "FScaledIdentity", "diag": "FDiagonal", "matrix": "FLinear",
           "nonlinear": "FNonlinear", "callable": "FCallable"}


# ------------------------------------------------------------------ expression generator

def gen_space(rng, allow_block=True, cplx=None):
    cplx = rng.random() < 0.35 if cplx is None else cplx
    if allow_block and rng.random() < 0.3:
        # BlockArray reductions require one dtype for all blocks
        return {"k": "blk", "parts": [gen_space(rng, False, cplx) for _ in range(rng.randint(1, 3))],
                "cplx": cplx}
    return {"k": "arr", "shape": list(rng.choice([(2,), (3,), (2, 2), (1,), (4,)])), "cplx": cplx}


def rand_point(rng, sp):
    if sp["k"] == "blk":
        return [rand_point(rng, p) for p in sp["parts"]]
    return rand_array(rng, tuple(sp["shape"]), sp["cplx"])


BASES_ANY = ["L1Norm", "SquaredL2Norm", "L2Norm", "ZeroFunctional", "noeval", "noprox"]
BASES_ARR = ["HuberNorm", "L21Norm", "L0Norm", "L2BallIndicator"]


def gen_expr(rng, sp, depth):
    r = rng.random()
    blk = sp["k"] == "blk"
    if depth <= 0 or r < 0.22:
        names = list(BASES_ANY) + ([] if blk else BASES_ARR + (["NonNegativeIndicator"] if not sp["cplx"] else []))
        nm = rng.choice(names)
        e = {"t": "base", "name": nm}
        if nm == "HuberNorm":
            e["delta"], e["separable"] = rng.choice([0.5, 1.0, 2.0]), rng.random() < 0.5
        if nm == "L2BallIndicator":
            e["radius"] = rng.choice([1.0, 2.0])
        return e
    if r < 0.45:
        c = rng.choice([0.25, 0.5, 2.0, 3.0, 1.5]) if rng.random() < 0.9 else rng.choice([-1.0, -0.5])
        return {"t": "scaled", "c": c, "e": gen_expr(rng, sp, depth - 1)}
    if r < 0.6:
        return {"t": "sum", "a": gen_expr(rng, sp, depth - 1), "b": gen_expr(rng, sp, depth - 1)}
    if blk:
        return {"t": "sep", "es": [gen_expr(rng, p, depth - 1) for p in sp["parts"]]}
    if r < 0.85:
        cls = rng.choice(["identity", "identity", "identity", "none", "diag", "scaledid", "matrix", "callable"])
        f = None if rng.random() < 0.1 else gen_expr(rng, sp, depth - 1)
        return {"t": "loss", "cls": cls, "f": f, "y": enc(rand_point(rng, sp)),
                "scale": rng.choice([0.25, 0.5, 1.0, 2.0]), "op": gen_op(rng, sp, cls)}
    cls = rng.choice(["none", "identity", "diag", "diag", "scaledid", "matrix", "matrix", "nonlinear", "callable"])
    e = {"t": "sql2", "cls": cls, "y": enc(rand_point(rng, sp)), "scale": rng.choice([0.25, 0.5, 1.0, 2.0]),
         "op": gen_op(rng, sp, cls)}
    if rng.random() < 0.6:
        e["w"] = enc(np.abs(rand_array(rng, tuple(sp["shape"]), False)))
    return e


def gen_op(rng, sp, cls):
    n = int(np.prod(sp["shape"]))
    if cls == "diag":
        return enc(rand_array(rng, tuple(sp["shape"]), sp["cplx"]))
    if cls == "scaledid":
        return rng.choice([0.5, 2.0, -1.5])
    if cls == "matrix":
        M = rand_array(rng, (n, n), sp["cplx"])
        return enc(M)
    return None


def cls_of(e):
    return "identity" if e["cls"] == "none" else e["cls"]


def depth_of(e):
    t = e["t"]
    if t == "base":
        return 0
    if t == "scaled":
        return 1 + depth_of(e["e"])
    if t == "sum":
        return 1 + max(depth_of(e["a"]), depth_of(e["b"]))
    if t == "sep":
        return 1 + max([depth_of(x) for x in e["es"]] + [0])
    if t == "loss":
        return 1 + (depth_of(e["f"]) if e["f"] else 0)
    return 1


# ------------------------------------------------------------------ building the real objects

def build_op(e, sp, dtype):
    from scico import linop, operator
    import scico.numpy as snp
    shape = tuple(sp["shape"])
    cls = e["cls"]
    if cls == "none":
        return None
    if cls == "identity":
        return linop.Identity(shape, input_dtype=dtype)
    if cls == "scaledid":
        return linop.ScaledIdentity(e["op"], shape, input_dtype=dtype)
    if cls == "diag":
        return linop.Diagonal(to_snp(dec(e["op"])))
    if cls == "matrix":
        M = dec(e["op"])
        n = M.shape[0]
        Mj = snp.array(M)
        return linop.LinearOperator(input_shape=shape, output_shape=shape,
                                    eval_fn=lambda x: (Mj @ x.ravel()).reshape(shape),
                                    adj_fn=lambda z: (Mj.conj().T @ z.ravel()).reshape(shape),
                                    input_dtype=dtype, output_dtype=dtype)
    if cls == "nonlinear":
        return operator.Operator(input_shape=shape, output_shape=shape, eval_fn=lambda x: x * x,
                                 input_dtype=dtype, output_dtype=dtype)
    return (lambda x: 2.0 * x)     # plain callable


def build(e, sp):
    from scico import functional as F, loss, linop
    t = e["t"]
    if t == "base":
        nm = e["name"]
        if nm == "noeval":
            class NoEval(F.Functional):
                has_eval = False
                has_prox = True

                def prox(self, v, lam=1.0, **kw):
                    return v
            return NoEval()
        if nm == "noprox":
            class NoProx(F.Functional):
                has_eval = True
                has_prox = False

                def __call__(self, x):
                    return 0.0
            return NoProx()
        if nm == "HuberNorm":
            return F.HuberNorm(delta=e["delta"], separable=e["separable"])
        if nm == "L21Norm":
            return F.L21Norm(l2_axis=0)
        if nm == "L2BallIndicator":
            return F.L2BallIndicator(radius=e["radius"])
        return getattr(F, nm)()
    if t == "scaled":
        return e["c"] * build(e["e"], sp)
    if t == "sum":
        return build(e["a"], sp) + build(e["b"], sp)
    if t == "sep":
        return F.SeparableFunctional([build(x, p) for x, p in zip(e["es"], sp["parts"])])
    dtype = np.complex128 if sp["cplx"] else np.float64
    y = to_snp(dec(e["y"]))
    A = build_op(e, sp, dtype)
    if t == "loss":
        return loss.Loss(y=y, A=A, f=(build(e["f"], sp) if e["f"] else None), scale=e["scale"])
    W = linop.Diagonal(to_snp(dec(e["w"]))) if "w" in e else None
    return loss.SquaredL2Loss(y=y, A=A, scale=e["scale"], W=W, prox_kwargs={"maxiter": 200, "tol": e.get("tol", 1e-5)})


# ------------------------------------------------------------------ own numpy denotation

def apply_op(e, x):
    cls = e["cls"]
    if cls in ("none", "identity"):
        return x
    if cls == "scaledid":
        return e["op"] * x
    if cls == "diag":
        return dec(e["op"]) * x
    if cls == "matrix":
        return (dec(e["op"]) @ np.asarray(x).ravel()).reshape(np.shape(x))
    if cls == "nonlinear":
        return x * x
    return 2.0 * x


def deval(e, x):
    """value of the denoted functional at x (numpy array or list of arrays); may return inf"""
    t = e["t"]
    if t == "base":
        nm = e["name"]
        a = np.abs(flat(x))
        if nm == "L1Norm":
            return float(np.sum(a))
        if nm == "SquaredL2Norm":
            return float(np.sum(a * a))
        if nm == "L2Norm":
            return float(np.sqrt(np.sum(a * a)))
        if nm in ("ZeroFunctional", "noeval", "noprox"):
            return 0.0
        if nm == "HuberNorm":
            return huber_np(x, e["delta"], e["separable"])
        if nm == "L21Norm":
            return float(np.sum(np.sqrt(np.sum(np.abs(np.asarray(x)) ** 2, axis=0))))
        if nm == "NonNegativeIndicator":
            return 0.0 if np.all(flat(x) >= 0) else float("inf")
        if nm == "L0Norm":
            return float(np.count_nonzero(flat(x)))
        if nm == "L2BallIndicator":
            return 0.0 if np.sqrt(np.sum(a * a)) <= e["radius"] * (1 + 1e-12) else float("inf")
    if t == "scaled":
        return e["c"] * deval(e["e"], x)
    if t == "sum":
        return deval(e["a"], x) + deval(e["b"], x)
    if t == "sep":
        return sum(deval(q, xi) for q, xi in zip(e["es"], x))
    if t == "loss":
        return e["scale"] * deval(e["f"], apply_op(e, np.asarray(x)) - dec(e["y"]))
    w = dec(e["w"]) if "w" in e else 1.0
    return e["scale"] * float(np.sum(w * np.abs(dec(e["y"]) - apply_op(e, np.asarray(x))) ** 2))


def shape_txt(e):
    t = e["t"]
    if t == "base":
        he = e["name"] != "noeval"
        hp = e["name"] != "noprox"
        return f"(SBase {str(he).lower()} {str(hp).lower()})"
    if t == "scaled":
        return f"(SScaled {shape_txt(e['e'])})"
    if t == "sum":
        return f"(SSum {shape_txt(e['a'])} {shape_txt(e['b'])})"
    if t == "sep":
        s = "SSepNil"
        for x in reversed(e["es"]):
            s = f"(SSepCons {shape_txt(x)} {s})"
        return s
    if t == "loss":
        c = CLS_COQ[cls_of(e)]
        return f"(SLoss {c} {shape_txt(e['f'])})" if e["f"] else f"(SLossNone {c})"
    return f"(SSqL2 {CLS_COQ[cls_of(e)]})"


def has(e, pred):
    t = e["t"]
    if pred(e):
        return True
    if t == "scaled":
        return has(e["e"], pred)
    if t == "sum":
        return has(e["a"], pred) or has(e["b"], pred)
    if t == "sep":
        return any(has(x, pred) for x in e["es"])
    if t == "loss":
        return bool(e["f"]) and has(e["f"], pred)
    return False


def features(e):
    return {
        "neg_scale": has(e, lambda n: n["t"] == "scaled" and n["c"] < 0),
        # Loss(y, f=None): documented as abstract ("__call__ and prox must be defined in a derived class")
        "loss_none": has(e, lambda n: n["t"] == "loss" and n["f"] is None),
        "defective_base": has(e, lambda n: n["t"] == "base" and n["name"] in ("L0Norm", "L2BallIndicator")),
        "cg": has(e, lambda n: n["t"] == "sql2" and cls_of(n) == "matrix"),
        "pseudo": has(e, lambda n: n["t"] == "base" and n["name"] in ("noeval", "noprox")),
        "nonneg_scaled": has(e, lambda n: n["t"] == "base" and n["name"] == "NonNegativeIndicator"),
    }


def model_prox_defined(e):
    t = e["t"]
    if t == "base":
        return e["name"] != "noprox"
    if t == "scaled":
        return model_prox_defined(e["e"])
    if t == "sum":
        return False
    if t == "sep":
        return all(model_prox_defined(x) for x in e["es"])
    if t == "loss":
        # Loss.prox raises unless has_prox (= f is not None and f.has_prox and A is an Identity)
        return cls_of(e) == "identity" and e["f"] is not None and model_has_prox(e["f"]) \
            and model_prox_defined(e["f"])
    return cls_of(e) in ("identity", "scaledid", "diag", "matrix")


def model_has_prox(e):
    t = e["t"]
    if t == "base":
        return e["name"] != "noprox"
    if t == "scaled":
        return model_has_prox(e["e"])
    if t == "sum":
        return False
    if t == "sep":
        return all(model_has_prox(x) for x in e["es"])
    if t == "loss":
        return cls_of(e) == "identity" and e["f"] is not None and model_has_prox(e["f"])
    return cls_of(e) in ("identity", "scaledid", "diag", "matrix")


def model_eval_defined(e):
    t = e["t"]
    if t == "base":
        return e["name"] != "noeval"
    if t == "scaled":
        return model_eval_defined(e["e"])
    if t == "sum":
        return model_eval_defined(e["a"]) and model_eval_defined(e["b"])
    if t == "sep":
        return all(model_eval_defined(x) for x in e["es"])
    if t == "loss":
        return e["f"] is not None and model_eval_defined(e["f"])
    return True


# ------------------------------------------------------------------ rule-level reference

def ref_prox(e, sp, v, lam):
    """prox by the calculus rules, from the base proxes of the real code"""
    import scico.numpy as snp
    t = e["t"]
    if t == "scaled":
        return ref_prox(e["e"], sp, v, lam * e["c"])
    if t == "sep":
        return snp.blockarray([ref_prox(x, p, vi, lam) for x, p, vi in zip(e["es"], sp["parts"], v)])
    if t == "loss":
        y = to_snp(dec(e["y"]))
        return ref_prox(e["f"], sp, v - y, e["scale"] * lam) + y
    return build(e, sp).prox(v, lam)


def oracle_generic(fnp, v, lam, out, rng):
    fo, fv = flat(out), flat(v)
    if not np.all(np.isfinite(fo)):
        return ("prox returns a non-finite point", {})

    def obj(xf):
        fx = fnp(like(v, xf))
        if not math.isfinite(fx):
            return float("inf")
        return lam * fx + 0.5 * float(np.sum(np.abs(xf - fv) ** 2))
    op = obj(fo)
    if not math.isfinite(op):
        return ("prox result is outside dom f", {})
    cands = [fv, fv * 0] + [fo + t * (fv - fo) for t in (0.25, 0.5, 0.75)]
    n = fo.size
    for i in range(min(n, 5)):
        a = fo.copy(); a[i] = fv[i]; cands.append(a)
        a = fo.copy(); a[i] = 0; cands.append(a)
    for s in (1e-4, 1e-2, 0.3):
        for _ in range(3):
            d = np.array([rng.choice([-1, 0, 1]) for _ in range(n)], dtype=float)
            if np.iscomplexobj(fv):
                d = d + 1j * np.array([rng.choice([-1, 0, 1]) for _ in range(n)], dtype=float)
            cands.append(fo + s * d)
        cands += [fo * (1 + s), fo * (1 - s)]
    if not np.iscomplexobj(fv):
        cands = [np.real(x) for x in cands]
    for x in cands:
        ox = obj(x)
        if ox < op - TOL * (1 + abs(op)):
            return ("prox result is not the minimiser of the denoted functional: a strictly better point exists",
                    {"objective_at_result": op, "objective_at_better_point": ox, "better": enc(like(v, x)),
                     "result": enc(out)})
    return None


def close(a, b, tol=1e-9):
    fa, fb = flat(a), flat(b)
    if fa.shape != fb.shape:
        return False
    if not (np.all(np.isfinite(fa)) and np.all(np.isfinite(fb))):
        return bool(np.array_equal(fa, fb, equal_nan=True))
    return bool(np.all(np.abs(fa - fb) <= tol * (1 + np.abs(fb))))


# ------------------------------------------------------------------ checks

def check_expr(ctx, rng, case, flag_items):
    e, sp, lam = case["e"], case["space"], case["lam"]
    feats = features(e)
    inp = dict(case, features=feats)
    try:
        f = build(e, sp)
    except Exception as ex:
        ctx.violation("functional construction", f"constructing the expression raises {type(ex).__name__}", inp,
                      observed=str(ex)[:300])
        return
    he, hp = f.has_eval, f.has_prox
    x = rand_point(rng, sp)
    v = rand_point(rng, sp)
    ew = pw = None
    val = out = None
    try:
        val = float(f(to_snp(x)))
        ew = True
    except NotImplementedError:
        ew = False
    except Exception as ex:
        ew = "other"
        if model_eval_defined(e):
            ctx.violation("Functional.__call__", f"evaluation raises {type(ex).__name__}", inp, observed=str(ex)[:300])
    try:
        out = to_np(f.prox(to_snp(v), lam))
        pw = True
    except NotImplementedError:
        pw = False
    except Exception as ex:
        pw = "other"
        if model_prox_defined(e):
            ctx.violation("Functional.prox", f"prox raises {type(ex).__name__}", inp, observed=str(ex)[:300])
    if ew in (True, False) and pw in (True, False) and isinstance(he, bool) and isinstance(hp, bool):
        b = lambda t: str(bool(t)).lower()
        flag_items.append((case, f"({shape_txt(e)}, ({b(he)}, {b(hp)}), ({b(ew)}, {b(pw)}))"))
    elif not (isinstance(he, bool) and isinstance(hp, bool)):
        ctx.violation("capability flags", "has_eval / has_prox is not a bool", inp, observed=[str(he), str(hp)])
    # truthfulness against reality
    if hp is True and pw is False:
        ctx.violation("has_prox", "has_prox is True but prox raises NotImplementedError", inp,
                      expected="flag set exactly when the operation is available", observed="NotImplementedError")
    if hp is False and pw is True:
        ctx.violation("has_prox", "has_prox is False but prox returns a value", inp)
    if he is True and ew is False and not feats["loss_none"]:
        ctx.violation("has_eval", "has_eval is True but evaluation raises NotImplementedError", inp,
                      expected="flag set exactly when the operation is available", observed="NotImplementedError")
    if he is False and ew is True:
        ctx.violation("has_eval", "has_eval is False but evaluation returns a value", inp)
    # value of evaluation
    if ew is True and not feats["pseudo"]:
        ref = deval(e, x)
        if math.isfinite(ref) and not (abs(val - ref) <= 1e-9 * (1 + abs(ref))):
            ctx.violation("Functional.__call__", "value differs from the denoted functional", inp,
                          expected=ref, observed=val)
    # correctness of prox
    if pw is True and hp is True:
        t = e["t"]
        vs = to_snp(v)
        if t == "scaled":
            o2 = to_np(build(e["e"], sp).prox(vs, e["c"] * lam))
            if not close(out, o2, 1e-12):
                ctx.violation("ScaledFunctional.prox", "(c*f).prox(v, lam) differs from f.prox(v, c*lam)", inp,
                              expected=enc(o2), observed=enc(out))
        if t == "sep":
            o2 = [to_np(build(q, p).prox(to_snp(vi), lam)) for q, p, vi in zip(e["es"], sp["parts"], v)]
            if not close(out, o2, 1e-12):
                ctx.violation("SeparableFunctional.prox", "prox differs from the block-wise proxes", inp,
                              expected=enc(o2), observed=enc(out))
        if t == "loss":
            y = to_snp(dec(e["y"]))
            o2 = to_np(build(e["f"], sp).prox(vs - y, e["scale"] * lam) + y)
            if not close(out, o2, 1e-12):
                ctx.violation("Loss.prox", "prox differs from f.prox(v - y, scale*lam) + y", inp,
                              expected=enc(o2), observed=enc(out))
        if not feats["defective_base"] and not feats["pseudo"] and model_prox_defined(e):
            tol_note = feats["cg"]
            res = oracle_generic(lambda z: deval(e, z), v, lam, out, rng) if not tol_note else \
                oracle_cg(e, v, lam, out, rng)
            if res is not None:
                inp2 = dict(inp, v=enc(v))
                ctx.violation("Functional.prox", res[0], inp2, expected="minimiser of lam*f(x)+0.5||x-v||^2",
                              observed=res[1], oracle="objective comparison on the denoted functional")


def oracle_cg(e, v, lam, out, rng):
    """expressions containing a CG solve are only accurate to the CG tolerance: compare objectives with slack"""
    global TOL
    old = TOL
    TOL = 1e-6
    try:
        return oracle_generic(lambda z: deval(e, z), v, lam, out, rng)
    finally:
        TOL = old


CONJ = {
    "L1Norm": lambda v, lam, p: np.where(np.abs(v) > 1, v / np.where(np.abs(v) > 0, np.abs(v), 1), v),
    "L2Norm": lambda v, lam, p: v if np.linalg.norm(v) <= 1 else v / np.linalg.norm(v),
    "SquaredL2Norm": lambda v, lam, p: v / (1 + lam / 2),
    "ZeroFunctional": lambda v, lam, p: v * 0,
    "NonNegativeIndicator": lambda v, lam, p: np.minimum(v, 0),
    "HuberNorm": lambda v, lam, p: (lambda u: np.where(np.abs(u) > p, p * u / np.where(np.abs(u) > 0, np.abs(u), 1), u))(v / (1 + lam)),
}


def check_conj(ctx, rng):
    from scico import functional as F
    nm = rng.choice(list(CONJ))
    cplx = rng.random() < 0.4 and nm != "NonNegativeIndicator"
    v = rand_array(rng, (rng.choice([1, 2, 3, 4]),), cplx)
    lam = rng.choice([0.25, 0.5, 1.0, 2.0, 4.0])
    delta = rng.choice([0.5, 1.0, 2.0])
    f = F.HuberNorm(delta=delta, separable=True) if nm == "HuberNorm" else getattr(F, nm)()
    case = {"name": nm, "v": enc(v), "lam": lam, "delta": delta}
    ctx.count("conj_prox", case)
    out = to_np(f.conj_prox(to_snp(v), lam))
    ref = CONJ[nm](v, lam, delta)
    if not close(out, ref, 1e-9):
        ctx.violation("Functional.conj_prox", "conj_prox differs from the prox of the convex conjugate (Moreau)", case,
                      expected=enc(ref), observed=enc(out), oracle="closed-form prox of f*")
    # Moreau identity v = prox_{lam f}(v) + lam prox_{f*/lam}(v/lam)
    p1 = to_np(f.prox(to_snp(v), lam))
    p2 = to_np(f.conj_prox(to_snp(v / lam), 1.0 / lam))
    if not close(p1 + lam * p2, v, 1e-9):
        ctx.violation("Functional.conj_prox", "Moreau identity v = prox_{lam f}(v) + lam prox_{f*/lam}(v/lam) fails", case,
                      expected=enc(v), observed=enc(p1 + lam * p2))


def check_sql2(ctx, rng, diag_items):
    """SquaredL2Loss.prox: diagonal A (exact residual inside Coq) and dense A (CG)"""
    from scico import loss
    cplx = rng.random() < 0.5
    n = rng.choice([2, 3, 4])
    sp = {"k": "arr", "shape": [n], "cplx": cplx}
    cls = rng.choice(["diag", "matrix", "matrix"])
    e = {"t": "sql2", "cls": cls, "y": enc(rand_array(rng, (n,), cplx)), "scale": rng.choice([0.25, 0.5, 1.0, 2.0]),
         "op": gen_op(rng, sp, cls), "tol": rng.choice([1e-5, 1e-8])}
    if rng.random() < 0.8:
        e["w"] = enc(np.abs(rand_array(rng, (n,), False)))
    lam = rng.choice([0.25, 0.5, 1.0, 2.0])
    v = rand_array(rng, (n,), cplx)
    case = {"e": e, "space": sp, "lam": lam, "v": enc(v)}
    ctx.count("SquaredL2Loss-" + cls + ("-complex" if cplx else "-real"), case)
    f = build(e, sp)
    out = to_np(f.prox(to_snp(v), lam))
    y = dec(e["y"])
    w = dec(e["w"]) if "w" in e else np.ones(n)
    c = 2 * e["scale"] * lam
    if cls == "diag":
        a = dec(e["op"])
        z = lambda t: [float(np.real(t)), float(np.imag(t))]
        rows = [(z(v[k]) + z(a[k]) + [float(w[k])] + z(y[k]), z(out[k])) for k in range(n)]
        txt = (f"({qc(e['scale'])}, {qc(lam)}, " +
               coq_list([f"({coq_list([qc(t) for t in i])}, {coq_list([qlit(t) for t in o])})" for i, o in rows]) + ")")
        diag_items.append((case, txt))
        M = np.diag(a)
    else:
        M = dec(e["op"])
    lhs = out + c * (M.conj().T @ (w * (M @ out)))
    rhs = v + c * (M.conj().T @ (w * y))
    res = float(np.linalg.norm(lhs - rhs))
    tol = e["tol"] if cls == "matrix" else 1e-12
    bound = tol * float(np.linalg.norm(rhs)) * (1 + 1e-6) + 1e-12
    if not res <= bound:
        ctx.violation("SquaredL2Loss.prox", "residual of (I + 2 a lam A^H W A) x = v + 2 a lam A^H W y exceeds the "
                      "configured tolerance", case, expected=f"<= {bound}", observed=res,
                      oracle="normal equations (C08_weighted_least_squares_normal_equation)")
    r = oracle_cg(e, v, lam, out, rng)
    if r is not None:
        ctx.violation("SquaredL2Loss.prox", r[0], case, observed=r[1])


# ------------------------------------------------------------------ history stream
# SquaredL2Loss objects are re-scaled by copy(self) + set_scale: anything the original has
# materialised (e.g. a cached Hessian operator) must not leak its OLD scale into the derived
# object, whatever the order of use and derivation.

def gen_history(rng):
    cplx = rng.random() < 0.5
    n = rng.choice([2, 3, 4])
    sp = {"k": "arr", "shape": [n], "cplx": cplx}
    cls = "diag" if rng.random() < 0.2 else "matrix"
    e = {"t": "sql2", "cls": cls, "y": enc(rand_array(rng, (n,), cplx)), "scale": rng.choice([0.25, 0.5, 1.0, 2.0]),
         "op": gen_op(rng, sp, cls), "tol": rng.choice([1e-5, 1e-8]),
         "w": enc(np.abs(rand_array(rng, (n,), False)) + rng.choice([0.0, 0.25]))}
    cs = [0.25, 0.5, 2.0, 3.0, 4.0]
    ops = [["mul", rng.choice(cs)], ["rmul", rng.choice(cs)], ["div", rng.choice(cs)],
           ["mulmul", rng.choice(cs), rng.choice(cs)], ["setscale", rng.choice([0.125, 0.75, 3.0, 5.0])]]
    rng.shuffle(ops)
    return {"history": True, "e": e, "space": sp, "lam": rng.choice([0.25, 0.5, 1.0, 2.0]),
            "v": enc(rand_array(rng, (n,), cplx)), "u": enc(rand_array(rng, (n,), cplx)),
            "x": enc(rand_array(rng, (n,), cplx)),
            "order": rng.choice(["use_first", "use_first", "derive_first"]),
            "use": rng.choice(["prox", "hessian", "both"]), "ops": ops}


def run_history(case):
    """-> (list of (unit, what, detail), list of diag Coq items).  Deterministic in the case."""
    from copy import copy
    e, sp, lam = case["e"], case["space"], case["lam"]
    v, u, x = dec(case["v"]), dec(case["u"]), dec(case["x"])
    n = v.size
    y, w = dec(e["y"]), dec(e["w"])
    M = np.diag(dec(e["op"])) if e["cls"] == "diag" else dec(e["op"])
    tol = e["tol"] if e["cls"] == "matrix" else 1e-12
    bad, diag_items = [], []

    def use(obj):
        if case["use"] in ("prox", "both"):
            obj.prox(to_snp(v), lam)
        if case["use"] in ("hessian", "both"):
            obj.hessian(to_snp(u))

    def check(obj, alpha, label):
        sc = float(obj.scale)
        if abs(sc - alpha) > 1e-12 * (1 + abs(alpha)):
            bad.append(("SquaredL2Loss.scale", "scale of a re-scaled loss is wrong", {"object": label, "expected": alpha, "observed": sc}))
        out = to_np(obj.prox(to_snp(v), lam))
        c = 2 * alpha * lam
        lhs = out + c * (M.conj().T @ (w * (M @ out)))
        rhs = v + c * (M.conj().T @ (w * y))
        res = float(np.linalg.norm(lhs - rhs))
        bound = tol * float(np.linalg.norm(rhs)) * (1 + 1e-6) + 1e-12
        if not res <= bound:
            bad.append(("SquaredL2Loss.prox", "after a use/re-scale history, prox does not solve (I + 2 a lam A^H W A) x = "
                        "v + 2 a lam A^H W y for the object's own scale a", {"object": label, "scale": alpha, "residual": res, "bound": bound, "result": enc(out)}))
        if e["cls"] == "diag":
            a = dec(e["op"])
            z = lambda t: [float(np.real(t)), float(np.imag(t))]
            rows = [(z(v[k]) + z(a[k]) + [float(w[k])] + z(y[k]), z(out[k])) for k in range(n)]
            diag_items.append((dict(case, label=label), f"({qc(alpha)}, {qc(lam)}, " + coq_list(
                [f"({coq_list([qc(t) for t in i])}, {coq_list([qlit(t) for t in o])})" for i, o in rows]) + ")"))
        hu = np.asarray(obj.hessian(to_snp(u)))
        href = 2 * alpha * (M.conj().T @ (w * (M @ u)))
        if not close(hu, href, 1e-9):
            bad.append(("SquaredL2Loss.hessian", "after a use/re-scale history, hessian differs from 2 a A^H W A for the "
                        "object's own scale a", {"object": label, "scale": alpha, "expected": enc(href), "observed": enc(hu)}))
        val = float(obj(to_snp(x)))
        vref = alpha * float(np.sum(w * np.abs(y - M @ x) ** 2))
        if abs(val - vref) > 1e-9 * (1 + abs(vref)):
            bad.append(("Functional.__call__", "after a use/re-scale history, the value differs from a ||Ax - y||_W^2 for "
                        "the object's own scale a", {"object": label, "scale": alpha, "expected": vref, "observed": val}))

    L = build(e, sp)
    a0 = e["scale"]
    if case["order"] == "use_first":
        use(L)
    derived = []
    for op in case["ops"]:
        k = op[0]
        if k == "mul":
            derived.append((L * op[1], a0 * op[1], f"L*{op[1]}"))
        elif k == "rmul":
            derived.append((op[1] * L, a0 * op[1], f"{op[1]}*L"))
        elif k == "div":
            derived.append((L / op[1], a0 / op[1], f"L/{op[1]}"))
        elif k == "mulmul":
            D1 = op[1] * L
            use(D1)                      # the intermediate object is used before it is re-scaled
            derived.append((D1 * op[2], a0 * op[1] * op[2], f"({op[1]}*L)*{op[2]}"))
            derived.append((D1, a0 * op[1], f"{op[1]}*L (after deriving from it)"))
        else:
            D = copy(L)
            D.set_scale(op[1])
            derived.append((D, op[1], f"copy(L).set_scale({op[1]})"))
    if case["order"] == "derive_first":
        use(L)
    for D, alpha, label in derived:
        check(D, alpha, label)
    check(L, a0, "the original L (after deriving re-scaled losses from it)")
    for D, alpha, label in derived[:2]:
        check(D, alpha, label + " (checked again after the original was used)")
    return bad, diag_items


def check_history(ctx, rng, diag_items):
    case = gen_history(rng)
    ctx.count("history-" + case["e"]["cls"] + ("-complex" if case["space"]["cplx"] else "-real") + "-" + case["order"], case)
    try:
        bad, items = run_history(case)
    except Exception as ex:
        ctx.violation("SquaredL2Loss history", f"use/re-scale sequence raises {type(ex).__name__}", case, observed=str(ex)[:300])
        return
    diag_items += items
    for unit, what, det in bad:
        ctx.violation(unit, what, case, expected="re-scaled loss behaves as a freshly constructed loss with its own scale",
                      observed=det, oracle="normal equations / 2 a A^H W A / a ||Ax-y||_W^2 for the derived scale")



def gen_case(rng, maxdepth):
    sp = gen_space(rng)
    e = gen_expr(rng, sp, rng.randint(1, maxdepth))
    return {"e": e, "space": sp, "lam": rng.choice([0.25, 0.5, 1.0, 2.0])}


def run_flags(items, name="C08_flags"):
    shard = 150
    bodies = ["Definition cases : list flag_case := " + coq_list([t[1] for t in items[s:s + shard]], ";\n ") + ".\n"
              "Eval vm_compute in (bad_idx flag_ok cases 0%nat)." for s in range(0, len(items), shard)]
    outs = coq_eval_shards(name, HEADER, bodies) if bodies else []
    return [items[si * shard + i] for si, o in enumerate(outs) for i in parse_eval_nat_list(o)]


def run_diag(items, name="C08_diag"):
    shard = 100
    bodies = ["Definition cases := " + coq_list([t[1] for t in items[s:s + shard]], ";\n ") + ".\n"
              "Eval vm_compute in (bad_idx diag_case_ok cases 0%nat)." for s in range(0, len(items), shard)]
    outs = coq_eval_shards(name, HEADER, bodies) if bodies else []
    return [items[si * shard + i] for si, o in enumerate(outs) for i in parse_eval_nat_list(o)]


def run(ctx: Ctx):
    if not getattr(ctx, "no_proofs", False):
        ctx.proofs()
        try:
            coq_make(["Findings/C08_flags.vo"])
            ctx.notes.append("Findings/C08_flags.v (has_prox not truthful for negative scales) compiles")
        except Broken as b:
            ctx.notes.append("finding no longer reproduces in Coq: " + b.what)
    ctx.trusted += ["base functionals enter the calculus theorems through their C02 correctness (basefun.b_ok)",
                    "CG is modelled as returning an exact solution of the system it is handed; the harness asserts the "
                    "residual to the configured tolerance on the real code",
                    "Fenchel conjugate characterised by the Fenchel-Young inequality and its equality case (Section hypotheses)"]
    rng = ctx.rng
    flag_items, diag_items = [], []
    for _ in range(ctx.n(260, 4000)):
        case = gen_case(rng, 4)
        ctx.count("expr-depth-%d" % depth_of(case["e"]), case, nontrivial=depth_of(case["e"]) >= 1)
        check_expr(ctx, rng, case, flag_items)
    # every forward-operator class x {Loss, SquaredL2Loss} exhaustively
    for cls in ["none", "identity", "scaledid", "diag", "matrix", "nonlinear", "callable"]:
        for kind in ("loss", "lossnone", "sql2"):
            sp = {"k": "arr", "shape": [2], "cplx": cls == "diag"}
            y = enc(rand_point(rng, sp))
            if kind == "sql2":
                e = {"t": "sql2", "cls": cls, "y": y, "scale": 0.5, "op": gen_op(rng, sp, cls)}
            else:
                e = {"t": "loss", "cls": cls, "f": ({"t": "base", "name": "L1Norm"} if kind == "loss" else None),
                     "y": y, "scale": 0.5, "op": gen_op(rng, sp, cls)}
            case = {"e": e, "space": sp, "lam": 0.5}
            ctx.count("class-table", case)
            check_expr(ctx, rng, case, flag_items)
    for _ in range(ctx.n(60, 800)):
        check_conj(ctx, rng)
    for _ in range(ctx.n(60, 800)):
        check_sql2(ctx, rng, diag_items)
    for _ in range(ctx.n(40, 600)):
        check_history(ctx, rng, diag_items)
    for case, txt in run_flags(flag_items):
        ctx.violation("capability flags", "has_eval/has_prox or availability differs from the flag model "
                      "(C08.Exec.flag_ok)", dict(case, features=features(case["e"])),
                      expected="gen_has_eval / gen_has_prox / definedness of C08.Calculus", observed=txt[-200:])
    for case, txt in run_diag(diag_items):
        ctx.violation("SquaredL2Loss.prox", "diagonal closed form does not solve (I + 2 a lam A^H W A)x = v + 2 a lam A^H W y "
                      "(exact residual at Qc)", case, oracle="C08.Exec.diag_case_ok")
    ctx.notes.append(f"{len(flag_items)} flag comparisons and {len(diag_items)} exact diagonal residuals inside Coq")


def replay(ctx: Ctx, rec):
    inp = rec["input"]
    rng = _random.Random(0)
    before = len(ctx.violations) + len(ctx.known_hits)
    sub = Ctx(ctx.pid, ctx.tier, ctx.seed)
    sub.known = []
    if inp.get("history"):
        case = {k: v for k, v in inp.items() if k != "label"}
        bad, items = run_history(case)
        return not bad and not run_diag(items, "C08_replay")
    if "e" in inp and "v" not in inp:
        items = []
        check_expr(sub, rng, {k: inp[k] for k in ("e", "space", "lam")}, items)
        return not sub.violations and not run_flags(items, "C08_replay")
    if "e" in inp:
        e, sp, lam = inp["e"], inp["space"], inp["lam"]
        v = dec(inp["v"])
        out = to_np(build(e, sp).prox(to_snp(v), lam))
        return oracle_cg(e, v, lam, out, rng) is None
    if "name" in inp:
        # conj_prox case: regenerate deterministically is not possible; re-check this input
        from scico import functional as F
        nm, v, lam = inp["name"], dec(inp["v"]), inp["lam"]
        f = F.HuberNorm(delta=inp["delta"], separable=True) if nm == "HuberNorm" else getattr(F, nm)()
        return close(to_np(f.conj_prox(to_snp(v), lam)), CONJ[nm](v, lam, inp["delta"]), 1e-9)
    return False
