"""C09 -- functionals, losses and metrics evaluate to their definitions.

Theorems: coq/Properties/C09.v (models coq/theories/C09/{Defs,Spec,Impl,Thm}.v).
Correspondence: every built-in functional / loss / metric x parameter settings x inputs
(zeros, ties at thresholds, negative entries, complex values, block arrays, 1-3-d arrays with
singleton axes).  The real scico code is run on dyadic inputs; the same inputs and the value
it returned are written into Coq case files (coq/theories/C09/Exec.v), where BOTH the
documented formula (Spec) and the model of the code (Impl) are evaluated by vm_compute and
compared with the returned value inside Coq: exactly for polynomial formulas on real data,
with relative tolerance 2^-40 when sqrt / division / complex modulus / log / svd is involved.
Result code per case: 1 = differs from Spec (a violation of C09), 2 = differs from the Impl
model only (the model misreads the code: a broken obligation, not a violation).
"""
from __future__ import annotations

import math

import numpy as np

from vf.common import Ctx, Broken, coq_eval_shards, parse_eval_nat_list, parse_evals, qlit, coq_list, _match

HEADER = """From Coq Require Import List Bool Arith ZArith QArith Qcanon.
From SV Require Import Base.Num C09.Defs C09.Spec C09.Impl C09.Exec.
Import ListNotations.
"""

METRICS = ("mae", "mse", "snr", "psnr", "isnr", "bsnr", "rel_res")


# ---------------------------------------------------------------- inputs (JSON-able)

def natl(xs):
    return coq_list([f"{int(i)}%nat" for i in xs])


def mk_arr(shape, re, im=None):
    return {"shape": [int(s) for s in shape], "re": [float(v) for v in re],
            "im": None if im is None else [float(v) for v in im]}


def size(shape):
    n = 1
    for s in shape:
        n *= s
    return n


def is_block(x):
    return isinstance(x, list)


def is_complex(x):
    if is_block(x):
        return any(is_complex(b) for b in x)
    return x["im"] is not None


def to_np(a):
    v = np.array(a["re"], dtype=np.float64)
    if a["im"] is not None:
        v = v + 1j * np.array(a["im"], dtype=np.float64)
    return v.reshape(a["shape"])


def to_snp(x):
    import scico.numpy as snp
    if is_block(x):
        return snp.blockarray([to_np(b) for b in x])
    return snp.array(to_np(x))


def coq_data(a):
    """flat data of one array as a Coq term : list (Qc*Qc)"""
    if a["im"] is None:
        return "(LR " + coq_list([qlit(v) for v in a["re"]]) + ")"
    return "(L " + coq_list([f"({qlit(r)}, {qlit(i)})" for r, i in zip(a["re"], a["im"])]) + ")"


def coq_arr(a):
    return f"(A {natl(a['shape'])} {coq_data(a)})"


def coq_flat(x):
    """flat data of an array or of a block array (concatenation of the ravelled blocks)"""
    if is_block(x):
        return "(flat " + coq_list([coq_arr(b) for b in x]) + ")"
    return coq_data(x)


def Q(v):
    return f"(q {qlit(v)})"


def LK(vs):
    return "(LK " + coq_list([qlit(v) for v in vs]) + ")"


# ---------------------------------------------------------------- generators

PYTH = [[3, 4], [5, 12], [8, 15], [1, 2, 2], [2, 3, 6], [1, 4, 8], [2, 4, 4], [4, 4, 7], [1, 1, 1, 1],
        [2, 2, 2, 2], [1, 1, 3, 5], [3, 4, 12], [2, 10, 11]]
PYTH_NORM = [5, 13, 17, 3, 7, 9, 6, 9, 2, 4, 6, 13, 15]


def dy(rng, bits=2, lo=-4, hi=4):
    den = 1 << bits
    return rng.randint(lo * den, hi * den) / den


# quick tier: shapes come from a small pool so that XLA compilations are reused
POOL = {"on": False}
SHAPE_POOL = {1: [[1], [2], [3], [4], [5]], 2: [[2, 3], [3, 1], [1, 4], [2, 2], [4, 2]],
              3: [[2, 1, 3], [2, 3, 2], [1, 2, 2], [3, 2, 1]]}


def gen_shape(rng, ndim=None, maxsize=24):
    ndim = ndim or rng.choice([1, 1, 2, 2, 3])
    if POOL["on"]:
        c = [s for s in SHAPE_POOL[ndim] if size(s) <= maxsize]
        return list(rng.choice(c))
    while True:
        shp = [rng.choice([1, 2, 3, 4, 5]) for _ in range(ndim)]
        if size(shp) <= maxsize:
            return shp


def gen_vals(rng, n, kind):
    if kind == "zeros":
        return [0.0] * n
    vs = [dy(rng) for _ in range(n)]
    if kind == "sparse":
        vs = [v if rng.random() < 0.5 else 0.0 for v in vs]
    if kind == "nonneg":
        vs = [abs(v) for v in vs]
    if kind == "pos":
        vs = [abs(v) + 0.25 for v in vs]
    return vs


def gen_array(rng, shape=None, cplx=None, kind=None):
    shape = shape or gen_shape(rng)
    n = size(shape)
    kind = kind or rng.choice(["dense", "dense", "sparse", "zeros" if rng.random() < 0.3 else "dense", "nonneg"])
    cplx = (rng.random() < 0.3) if cplx is None else cplx
    re = gen_vals(rng, n, kind)
    im = gen_vals(rng, n, rng.choice(["dense", "sparse"]) if kind != "zeros" else "zeros") if cplx else None
    return mk_arr(shape, re, im)


def gen_pyth(rng, cplx=None):
    """vector with a rational l2 norm (scaled Pythagorean tuple), returns (array, norm)"""
    i = rng.randrange(len(PYTH))
    sc = rng.choice([0.25, 0.5, 1.0, 2.0])
    vals = [sc * v * rng.choice([1, -1]) for v in PYTH[i]]
    nrm = sc * PYTH_NORM[i]
    pad = rng.randint(0, 2)
    vals = vals + [0.0] * pad
    rng.shuffle(vals)
    cplx = (rng.random() < 0.3) if cplx is None else cplx
    if cplx and len(vals) % 2 == 0:
        re, im = vals[0::2], vals[1::2]
        return mk_arr([len(re)], re, im), nrm
    if rng.random() < 0.3 and len(vals) % 2 == 0:
        return mk_arr([2, len(vals) // 2], vals), nrm
    return mk_arr([len(vals)], vals), nrm


def gen_block(rng, nblocks=None, cplx=None):
    nb = nblocks or rng.choice([1, 2, 2, 3])
    cplx = (rng.random() < 0.25) if cplx is None else cplx
    return [gen_array(rng, gen_shape(rng, maxsize=8), cplx=cplx) for _ in range(nb)]


def gen_input(rng, cplx=None, allow_block=True):
    if allow_block and rng.random() < 0.3:
        return gen_block(rng, cplx=cplx)
    return gen_array(rng, cplx=cplx)


def like(rng, x, kind="dense"):
    """another array / block array of the same shapes"""
    if is_block(x):
        return [like(rng, b, kind) for b in x]
    return gen_array(rng, x["shape"], cplx=x["im"] is not None, kind=kind)


# ---------------------------------------------------------------- functional descriptors

def gen_proj(rng, x):
    r = rng.random()
    if r < 0.4 or is_complex(x):
        if is_complex(x):
            return {"p": "const", "c": like(rng, x)}
        return {"p": "nonneg"}
    if r < 0.7:
        lo = dy(rng, 1, -2, 0)
        return {"p": "box", "lo": lo, "hi": lo + rng.choice([0.5, 1.0, 2.5]), "use_args": rng.random() < 0.5}
    return {"p": "const", "c": like(rng, x)}


def gen_leaf(rng, x, real_only=False):
    kinds = ["L0", "L1", "SqL2", "L2", "L1mL2", "HuberSep", "HuberNonSep", "L2Ball", "SetDist", "SqSetDist"]
    if rng.random() < 0.06:
        return {"kind": "Zero"}
    if not is_complex(x):
        kinds += ["NonNeg", "NonNeg"]
    k = rng.choice(kinds)
    d = {"kind": k}
    if k == "L1mL2":
        d["beta"] = rng.choice([0.5, 1.0, 2.0, 0.25])
    if k in ("HuberSep", "HuberNonSep"):
        d["delta"] = rng.choice([0.5, 1.0, 1.5, 2.0, 3.0])
    if k == "L2Ball":
        d["radius"] = rng.choice([0.5, 1.0, 2.0, 3.0, 5.0, 8.0])
    if k in ("SetDist", "SqSetDist"):
        d["proj"] = gen_proj(rng, x)
    if k in ("L1mL2", "HuberSep", "HuberNonSep", "L2Ball") and rng.random() < 0.2:
        # constructor defaults: beta = 1.0, delta = 1.0, radius = 1
        for key in ("beta", "delta", "radius"):
            if key in d:
                d[key] = 1.0
        d["default_ctor"] = True
    return d


def make_proj(p):
    import scico.numpy as snp
    if p["p"] == "nonneg":
        return lambda v: snp.maximum(v, 0)
    if p["p"] == "box":
        return lambda v: snp.minimum(snp.maximum(v, p["lo"]), p["hi"])
    c = to_snp(p["c"])
    return lambda v: c


def coq_proj(p):
    if p["p"] == "nonneg":
        return "proj_nonneg"
    if p["p"] == "box":
        return f"(proj_box {Q(p['lo'])} {Q(p['hi'])})"
    return f"(proj_const {coq_flat(p['c'])})"


def make_f(d):
    from scico import functional as F
    k = d["kind"]
    if k == "L21":
        return F.L21Norm(l2_axis=tup(d["l2_axis"]))
    if k == "Nuclear":
        return F.NuclearNorm()
    if k == "Zero":
        return F.ZeroFunctional()
    if k == "L0":
        return F.L0Norm()
    if k == "L1":
        return F.L1Norm()
    if k == "SqL2":
        return F.SquaredL2Norm()
    if k == "L2":
        return F.L2Norm()
    dflt = d.get("default_ctor")
    if k == "L1mL2":
        return F.L1MinusL2Norm() if dflt else F.L1MinusL2Norm(d["beta"])
    if k == "HuberSep":
        return F.HuberNorm() if dflt else F.HuberNorm(d["delta"], separable=True)
    if k == "HuberNonSep":
        return F.HuberNorm(separable=False) if dflt else F.HuberNorm(d["delta"], separable=False)
    if k == "NonNeg":
        return F.NonNegativeIndicator()
    if k == "L2Ball":
        return F.L2BallIndicator() if dflt else F.L2BallIndicator(d["radius"])
    if k in ("SetDist", "SqSetDist"):
        cls = F.SetDistance if k == "SetDist" else F.SquaredSetDistance
        p = d["proj"]
        if p["p"] == "box" and p.get("use_args"):
            import scico.numpy as snp
            return cls(lambda v, lo, hi: snp.minimum(snp.maximum(v, lo), hi), args=(p["lo"], p["hi"]))
        return cls(make_proj(p))
    if k == "Scaled":
        f = make_f(d["f"])
        if d.get("how") == "rmul":
            return d["c"] * f
        if d.get("how") == "twice":
            return (d["c1"] * f) * d["c2"]
        return F.ScaledFunctional(f, d["c"])
    if k == "Sum":
        return make_f(d["f"]) + make_f(d["g"])
    raise ValueError(k)


def coq_f(d, D, layer, arr=None, blk=None):
    """Coq term : ext Qc, the value of functional d on flat data term D; layer 'spec'|'impl'.
    Shape-dependent kinds (L21, Nuclear; separable stream only) need the Coq array term `arr`
    and the JSON array `blk` (for the svd oracle)."""
    k = d["kind"]
    s = layer == "spec"
    if k == "L21":
        ax = natl(axes_norm(d["l2_axis"], len(blk["shape"])))
        return f"(Fin ({'l21_spec' if s else 'l21_impl'} qrt {ax} {arr}))"
    if k == "Nuclear":
        sv = np.linalg.svd(to_np(blk), compute_uv=False)
        o = "(svd_oracle " + coq_list([qlit(t) for t in sv]) + ")"
        return f"(Fin ({'nuclear_spec' if s else 'nuclear_impl'} {o} {arr}))"
    if k == "Zero":
        return f"(Fin ({'zero_spec' if s else 'zero_impl'} {D}))"
    if k == "L0":
        return f"(Fin ({'l0_spec' if s else 'l0_impl'} {D}))"
    if k == "L1":
        return f"(Fin ({'l1_spec' if s else 'l1_impl'} qrt {D}))"
    if k == "SqL2":
        return f"(Fin (sql2_spec {D}))" if s else f"(Fin (sql2_impl qrt {D}))"
    if k == "L2":
        return f"(Fin ({'l2_spec' if s else 'l2_impl'} qrt {D}))"
    if k == "L1mL2":
        return f"(Fin ({'l1ml2_spec' if s else 'l1ml2_impl'} qrt {Q(d['beta'])} {D}))"
    if k == "HuberSep":
        return f"(Fin ({'huber_sep_spec' if s else 'huber_sep_impl'} qrt {Q(d['delta'])} {D}))"
    if k == "HuberNonSep":
        return f"(Fin ({'huber_nonsep_spec' if s else 'huber_nonsep_impl'} qrt {Q(d['delta'])} {D}))"
    if k == "NonNeg":
        return f"({'nonneg_spec' if s else 'nonneg_impl'} {D})"
    if k == "L2Ball":
        return f"(l2ball_exec {Q(d['radius'])} {D})" if s else f"(l2ball_impl qrt {Q(d['radius'])} {D})"
    if k == "SetDist":
        return f"(Fin ({'setdist_spec' if s else 'setdist_impl'} qrt {coq_proj(d['proj'])} {D}))"
    if k == "SqSetDist":
        return (f"(Fin (sqsetdist_spec {coq_proj(d['proj'])} {D}))" if s
                else f"(Fin (sqsetdist_impl qrt {coq_proj(d['proj'])} {D}))")
    if k == "Scaled":
        c = d["c1"] * d["c2"] if d.get("how") == "twice" else d["c"]
        return f"({'scaled_spec' if s else 'scaled_impl'} {Q(c)} {coq_f(d['f'], D, layer, arr, blk)})"
    if k == "Sum":
        return (f"({'fsum_spec' if s else 'fsum_impl'} {coq_f(d['f'], D, layer, arr, blk)} "
                f"{coq_f(d['g'], D, layer, arr, blk)})")
    raise ValueError(k)


POLY = {"Zero", "L0", "L1", "SqL2", "HuberSep", "NonNeg", "L2Ball"}


def poly(d):
    """value is computed exactly in float64 on small real dyadic data"""
    k = d["kind"]
    if k == "Scaled":
        return poly(d["f"])
    if k == "Sum":
        return poly(d["f"]) and poly(d["g"])
    return k in POLY


def even(d):
    k = d["kind"]
    if k == "Scaled":
        return even(d["f"])
    if k == "Sum":
        return even(d["f"]) and even(d["g"])
    return k not in ("NonNeg", "SetDist", "SqSetDist")


# ---------------------------------------------------------------- case generation per unit

def axes_norm(axes, ndim):
    if axes is None:
        return list(range(ndim))
    if isinstance(axes, int):
        axes = [axes]
    return [a % ndim for a in axes]


def gen_cases(ctx: Ctx):
    rng = ctx.rng
    n = lambda a, b: ctx.n(a, b)
    POOL["on"] = ctx.quick
    cases = []

    def add(unit, **kw):
        kw["unit"] = unit
        cases.append(kw)

    # --- leaf functionals on arrays and block arrays
    for _ in range(n(110, 1500)):
        x = gen_input(rng)
        d = gen_leaf(rng, x)
        if d["kind"] in ("L2Ball", "HuberNonSep") and rng.random() < 0.6:
            # tie: ||x|| equal to the radius / delta exactly (or just off it)
            x, nrm = gen_pyth(rng)
            key = "radius" if d["kind"] == "L2Ball" else "delta"
            d.pop("default_ctor", None)
            d[key] = nrm * rng.choice([1, 1, 1, 0.5, 2]) + rng.choice([0, 0, 0, 0.25, -0.25])
            if d[key] <= 0:
                d[key] = nrm
        if d["kind"] == "HuberSep" and rng.random() < 0.6 and not is_block(x):
            # ties |x_i| = delta
            if x["im"] is None:
                x["re"] = [v if rng.random() < 0.5 else d["delta"] * rng.choice([1, -1]) for v in x["re"]]
            else:
                pairs = [(3, 4), (4, 3), (-3, 4), (0, 5), (5, 0), (-4, -3)]
                sc = d["delta"] / 5.0
                for i in range(len(x["re"])):
                    if rng.random() < 0.5:
                        a, b = rng.choice(pairs)
                        x["re"][i], x["im"][i] = a * sc, b * sc
        if d["kind"] in ("SetDist", "SqSetDist"):
            d["proj"] = gen_proj(rng, x)
        add("leaf:" + d["kind"], f=d, x=x)

    # --- L21Norm: every l2_axis
    for _ in range(n(36, 500)):
        if rng.random() < 0.25:
            x = gen_block(rng)
            add("L21Norm", l2_axis=None, x=x)
            continue
        x = gen_array(rng)
        nd = len(x["shape"])
        r = rng.random()
        if r < 0.15:
            ax = None
        elif r < 0.55:
            ax = rng.randrange(-nd, nd)
        else:
            k = rng.randint(1, nd)
            ax = sorted(rng.sample(range(nd), k))
            if rng.random() < 0.3:
                ax = [a - nd for a in ax]
        add("L21Norm", l2_axis=ax, x=x, default=(ax == 0 and rng.random() < 0.5))

    # --- NuclearNorm
    for _ in range(n(12, 150)):
        shp = [rng.randint(1, 4), rng.randint(1, 4)]
        x = gen_array(rng, shp)
        add("NuclearNorm", x=x)

    # --- ScaledFunctional / FunctionalSum
    for _ in range(n(36, 400)):
        x = gen_input(rng)
        if rng.random() < 0.5:
            f = gen_leaf(rng, x)
            how = rng.choice(["ctor", "rmul", "twice"])
            d = {"kind": "Scaled", "f": f, "how": how}
            if how == "twice":
                d["c1"], d["c2"] = rng.choice([0.5, 2.0, 3.0]), rng.choice([0.25, 1.5, 2.0])
            else:
                d["c"] = rng.choice([0.25, 0.5, 1.5, 2.0, 3.0])
                if f["kind"] not in ("NonNeg", "L2Ball") and rng.random() < 0.25:
                    d["c"] = -d["c"]        # c f(x) for finite f(x): any sign
            add("ScaledFunctional", f=d, x=x)
        else:
            f, g = gen_leaf(rng, x), gen_leaf(rng, x)
            if rng.random() < 0.3:
                g = {"kind": "Scaled", "f": g, "how": "rmul", "c": rng.choice([0.5, 2.0])}
            add("FunctionalSum", f={"kind": "Sum", "f": f, "g": g}, x=x)

    # --- SeparableFunctional
    for _ in range(n(30, 400)):
        add("SeparableFunctional", **gen_separable(rng))

    # --- ProximalAverage
    for _ in range(n(28, 350)):
        x = gen_input(rng, cplx=False)
        if rng.random() < 0.5 and not is_block(x):
            x["re"] = [abs(v) for v in x["re"]] if rng.random() < 0.5 else x["re"]
        nf = rng.choice([1, 2, 2, 3])
        fs = []
        for _i in range(nf):
            while True:
                f = gen_leaf(rng, x)
                if f["kind"] not in ():
                    break
            fs.append(f)
        if rng.random() < 0.6 and nf >= 2:
            fs[rng.randrange(nf)] = {"kind": rng.choice(["NonNeg", "L2Ball"]), "radius": rng.choice([1.0, 3.0])}
        r = rng.random()
        if r < 0.3:
            alphas = None
        elif r < 0.5:
            alphas = rng.choice([[1.0], [0.5, 0.5], [0.25, 0.75], [0.25, 0.25, 0.5]])
            if len(alphas) != nf:
                alphas = [rng.choice([0.5, 1.0, 2.0, 3.0]) for _ in range(nf)]
        else:
            alphas = [rng.choice([0.5, 1.0, 2.0, 3.0, 0.25]) for _ in range(nf)]
        add("ProximalAverage", fs=fs, alphas=alphas, no_inf_eval=rng.random() < 0.6, x=x)

    # --- Loss with a functional f
    for _ in range(n(36, 400)):
        x, A = gen_loss_xA(rng)
        y = gen_y(rng, x, A)
        f = gen_leaf(rng, y)
        if rng.random() < 0.25 and not is_complex(y):
            f = {"kind": "NonNeg"}
        add("Loss", f=f, scale=rng.choice([1.0, 0.5, 2.0, 0.25]), x=x, y=y, A=A,
            post=rng.choice([None, None, None, ["mul", 2.0], ["div", 4.0], ["rmul", 0.5]]))

    # --- SquaredL2Loss / SquaredL2AbsLoss / SquaredL2SquaredAbsLoss
    for unit in ("SquaredL2Loss", "SquaredL2AbsLoss", "SquaredL2SquaredAbsLoss"):
        for _ in range(n(28, 350)):
            x, A = gen_loss_xA(rng)
            y = gen_y(rng, x, A, real=(unit != "SquaredL2Loss"))
            W = None
            if rng.random() < 0.6:
                W = like(rng, y, "nonneg")
                W = strip_im(W)
                if rng.random() < 0.4:
                    W = zero_some(rng, W)
            r = rng.random()
            scale = None if r < 0.3 else rng.choice([1.0, 0.25, 2.0, 0.75])
            post = rng.choice([None, None, ["mul", 2.0], ["div", 4.0], ["rmul", 0.5]])
            add(unit, scale=scale, post=post, x=x, y=y, A=A, W=W)

    # --- PoissonLoss
    for _ in range(n(22, 300)):
        if rng.random() < 0.3:
            x = gen_block(rng, cplx=False)
            x = [gen_array(rng, b["shape"], cplx=False, kind="pos") for b in x]
            A = None
        else:
            x, A = gen_loss_xA(rng, cplx=False, pos=True)
        y = like(rng, x if A is None else mk_arr([len(A["M"])], [0.0] * len(A["M"])), "nonneg")
        if not is_block(y):
            y["re"] = [float(rng.choice([0, 0, 1, 2, 3, 5])) if rng.random() < 0.7 else v for v in y["re"]]
        add("PoissonLoss", scale=rng.choice([None, 1.0, 2.0, 0.25]), x=x, y=y, A=A)

    # --- TV norms
    for _ in range(n(66, 1000)):
        x = gen_array(rng, cplx=rng.random() < 0.2)
        nd = len(x["shape"])
        r = rng.random()
        if r < 0.3:
            axes = None
        elif r < 0.55:
            axes = rng.randrange(-nd, nd)
        else:
            axes = sorted(rng.sample(range(nd), rng.randint(1, nd)))
            if rng.random() < 0.3:
                axes = [a - nd for a in axes]
        cls = rng.choice(["AnisotropicTVNorm", "IsotropicTVNorm", "TVNorm"])
        circ = rng.random() < 0.5
        p = {"circular": circ, "axes": axes}
        if cls == "TVNorm":
            p["norm"] = rng.choice(["L1", "L21", "L2", "SqL2"])
            p["circular_default"] = rng.random() < 0.3
            if p["circular_default"]:
                p["circular"] = True
        elif rng.random() < 0.12:
            p = {"ctor": "default", "circular": True, "axes": None}
        if rng.random() < 0.25 and p.get("ctor") != "default":
            p["prebuilt"] = True      # input_shape / input_dtype given to the constructor
        add(cls, params=p, x=x)

    # --- metrics
    for m in METRICS:
        for _ in range(n(15, 200)):
            blk = rng.random() < 0.15
            cplx = rng.random() < 0.25 and m != "psnr"
            r = gen_block(rng, cplx=cplx) if blk else gen_array(rng, cplx=cplx, kind="dense")
            c = like(rng, r)
            c2 = like(rng, r)
            p = {}
            if m == "psnr":
                p["signal_range"] = rng.choice([None, None, 255, 1.0, 4.5])
            if m == "rel_res":
                k = rng.random()
                if k < 0.2:
                    r, c = like(rng, r, "zeros"), like(rng, r, "zeros")
                elif k < 0.35:
                    c = like(rng, r, "zeros")
                elif k < 0.5:
                    r = like(rng, r, "zeros")
            add(m, params=p, a=r, b=c, c=c2, block=blk)
    rng.shuffle(cases)
    return cases


NONADDITIVE = ["L2", "L21", "L1mL2", "HuberNonSep", "Nuclear", "L2Ball", "SetDist"]


def gen_shared_leaf(rng, kind, cplx):
    """descriptor of ONE functional object that is applied to several blocks of different
    shapes (so nothing in it may depend on a block's shape)"""
    d = {"kind": kind}
    if kind == "L21":
        d["l2_axis"] = rng.choice([0, 0, None, -1])
    if kind == "L1mL2":
        d["beta"] = rng.choice([0.5, 1.0, 2.0])
    if kind in ("HuberSep", "HuberNonSep"):
        d["delta"] = rng.choice([0.5, 1.0, 1.5, 3.0])
    if kind == "L2Ball":
        d["radius"] = rng.choice([1.0, 2.0, 3.0, 5.0])
    if kind in ("SetDist", "SqSetDist"):
        lo = dy(rng, 1, -2, 0)
        d["proj"] = ({"p": "nonneg"} if rng.random() < 0.5 else
                     {"p": "box", "lo": lo, "hi": lo + rng.choice([0.5, 1.0, 2.5]), "use_args": rng.random() < 0.5})
    r = rng.random()
    if r < 0.15:
        d = {"kind": "Scaled", "f": d, "how": rng.choice(["ctor", "rmul"]), "c": rng.choice([0.5, 2.0, 3.0])}
    elif r < 0.3:
        d = {"kind": "Sum", "f": d, "g": {"kind": rng.choice(["L1", "SqL2", "L2"])}}
    return d


def gen_separable(rng):
    """SeparableFunctional cases.  `objs` are the distinct functional OBJECTS, `share[i]` the
    index of the object used for block i (the same Python object may be listed several
    times: [g, g], [g]*3, [g, h, g]); `fs` is the per-block expansion used for the Coq terms.
    Documented value: sum_i f_i(x_i), whatever the identity of the objects."""
    r = rng.random()
    if r < 0.35:
        # independent objects, one per block (as generated per block)
        x = gen_block(rng, nblocks=rng.choice([1, 2, 3]))
        objs = [gen_leaf(rng, b) for b in x]
        share = list(range(len(x)))
    else:
        kind = rng.choice(NONADDITIVE + NONADDITIVE + ["SqSetDist", "L1", "HuberSep"])
        cplx = rng.random() < 0.2 and kind not in ("SetDist", "SqSetDist")
        pat = rng.choice(["gg", "gg", "ggg", "ghg", "g_g", "g"])
        nb = {"gg": 2, "ggg": 3, "ghg": 3, "g_g": 2, "g": 1}[pat]
        if kind == "Nuclear":
            shapes = [[rng.randint(1, 3), rng.randint(1, 3)] for _ in range(nb)]
        elif kind == "L21":
            shapes = [gen_shape(rng, ndim=rng.choice([1, 2, 2, 3]), maxsize=8) for _ in range(nb)]
        else:
            shapes = [gen_shape(rng, maxsize=8) for _ in range(nb)]
        x = [gen_array(rng, shp, cplx=cplx, kind=rng.choice(["dense", "dense", "sparse"])) for shp in shapes]
        g = gen_shared_leaf(rng, kind, cplx)
        if kind == "L2Ball" and rng.random() < 0.6:
            # every block inside the ball, the concatenation outside (or on the boundary)
            rad = g["f"]["radius"] if g["kind"] in ("Scaled", "Sum") else g["radius"]
            for b in x:
                m = len(b["re"])
                b["re"] = [0.0] * m
                b["re"][rng.randrange(m)] = rad * rng.choice([1.0, 0.75, -1.0, 0.5])
                if b["im"] is not None:
                    b["im"] = [0.0] * m
        if pat == "ghg":
            h = gen_shared_leaf(rng, rng.choice(["L1", "SqL2", "L2", "HuberNonSep"]), cplx)
            objs, share = [g, h], [0, 1, 0]
        elif pat == "g_g":
            # control: two DISTINCT objects built from the same descriptor
            objs, share = [g, dict(g)], [0, 1]
        else:
            objs, share = [g], [0] * nb
    c = {"objs": objs, "share": share, "fs": [objs[i] for i in share], "x": x}
    if rng.random() < 0.25:
        c["outer_scale"] = rng.choice([0.5, 2.0, 3.0])       # c * SeparableFunctional([...])
    return c


def strip_im(W):
    if is_block(W):
        return [strip_im(b) for b in W]
    return mk_arr(W["shape"], W["re"], None)


def zero_some(rng, W):
    if is_block(W):
        return [zero_some(rng, b) for b in W]
    return mk_arr(W["shape"], [0.0 if rng.random() < 0.4 else v for v in W["re"]], None)


def gen_loss_xA(rng, cplx=None, pos=False):
    """input x and forward operator A: None (identity), a dyadic matrix, or a diagonal"""
    r = rng.random()
    kind = "pos" if pos else None
    if r < 0.45:
        x = gen_input(rng, cplx=cplx) if not pos else gen_array(rng, cplx=False, kind="pos")
        return x, None
    nx = rng.randint(1, 5)
    x = gen_array(rng, [nx], cplx=cplx, kind=kind)
    if r < 0.8:
        m = rng.randint(1, 4)
        M = [[(abs(dy(rng, 1, -2, 2)) + (0.5 if pos else 0)) if pos else dy(rng, 1, -2, 2) for _ in range(nx)]
             for _ in range(m)]
        return x, {"op": "matrix", "M": M}
    dg = [abs(dy(rng, 1, -2, 2)) + 0.5 if pos else dy(rng, 1, -2, 2) for _ in range(nx)]
    return x, {"op": "diag", "M": [[dg[i] if i == j else 0.0 for j in range(nx)] for i in range(nx)], "d": dg}


def gen_y(rng, x, A, real=False):
    if A is None:
        y = like(rng, x)
    else:
        y = gen_array(rng, [len(A["M"])], cplx=is_complex(x))
    if real:
        y = strip_im(y)
    return y


def make_A(A, x):
    from scico import linop
    import scico.numpy as snp
    if A is None:
        return None
    dt = np.complex128 if is_complex(x) else np.float64
    if A["op"] == "matrix":
        return linop.MatrixOperator(snp.array(np.array(A["M"], dtype=dt)))
    return linop.Diagonal(snp.array(np.array(A["d"], dtype=dt)))


def coq_Ax(A, x):
    if A is None:
        return coq_flat(x)
    M = coq_list(["(LR " + coq_list([qlit(v) for v in row]) + ")" for row in A["M"]])
    return f"(matvec {M} {coq_flat(x)})"


def coq_w(W, y):
    if W is None:
        n = sum(size(b["shape"]) for b in y) if is_block(y) else size(y["shape"])
        return f"(repeat 1%Qc {n}%nat)"
    fl = [v for b in W for v in b["re"]] if is_block(W) else W["re"]
    return LK(fl)


# ---------------------------------------------------------------- running the implementation

def fl(v):
    """implementation value -> float | 'inf' ; raises if it is not a real scalar"""
    a = np.asarray(v)
    if a.shape != ():
        raise TypeError(f"non-scalar value of shape {a.shape}")
    if np.iscomplexobj(a):
        raise TypeError("complex value")
    f = float(a)
    if math.isnan(f):
        return "nan"
    if math.isinf(f):
        return "inf" if f > 0 else "-inf"
    return f


def run_impl(c):
    """returns ('ok', value) or ('exc', 'TypeName: msg')"""
    try:
        return "ok", fl(_run_impl(c))
    except Exception as e:  # noqa
        return "exc", f"{type(e).__name__}: {str(e)[:160]}"


def _run_impl(c):
    from scico import functional as F, loss, metric, linop
    u = c["unit"]
    if u.startswith("leaf:") or u in ("ScaledFunctional", "FunctionalSum"):
        return make_f(c["f"])(to_snp(c["x"]))
    if u == "L21Norm":
        f = F.L21Norm() if c.get("default") else F.L21Norm(l2_axis=tup(c["l2_axis"]))
        return f(to_snp(c["x"]))
    if u == "NuclearNorm":
        return F.NuclearNorm()(to_snp(c["x"]))
    if u == "SeparableFunctional":
        if "objs" in c:
            objs = [make_f(d) for d in c["objs"]]
            fl_ = [objs[i] for i in c["share"]]          # repeated entries are THE SAME object
        else:
            fl_ = [make_f(d) for d in c["fs"]]
        f = F.SeparableFunctional(fl_)
        if c.get("outer_scale") is not None:
            f = c["outer_scale"] * f
        return f(to_snp(c["x"]))
    if u == "ProximalAverage":
        return F.ProximalAverage([make_f(d) for d in c["fs"]], c["alphas"], no_inf_eval=c["no_inf_eval"])(to_snp(c["x"]))
    if u in ("Loss", "SquaredL2Loss", "SquaredL2AbsLoss", "SquaredL2SquaredAbsLoss", "PoissonLoss"):
        y, x, A = to_snp(c["y"]), to_snp(c["x"]), make_A(c["A"], c["x"])
        kw = {}
        if c.get("scale") is not None:
            kw["scale"] = c["scale"]
        if u == "Loss":
            L = loss.Loss(y, A=A, f=make_f(c["f"]), **kw)
        else:
            if u != "PoissonLoss" and c.get("W") is not None:
                kw["W"] = linop.Diagonal(to_snp(c["W"]))
            L = getattr(loss, u)(y, A=A, **kw)
        post = c.get("post")
        if post:
            L = L * post[1] if post[0] == "mul" else (post[1] * L if post[0] == "rmul" else L / post[1])
        return L(x)
    if u in ("AnisotropicTVNorm", "IsotropicTVNorm", "TVNorm"):
        p = c["params"]
        kw = {}
        if p.get("prebuilt"):
            kw = {"input_shape": tuple(c["x"]["shape"]),
                  "input_dtype": np.complex128 if is_complex(c["x"]) else np.float64}
        if p.get("ctor") == "default":
            f = getattr(F, u)()
        elif u == "TVNorm":
            nrm = {"L1": F.L1Norm(), "L21": F.L21Norm(), "L2": F.L2Norm(), "SqL2": F.SquaredL2Norm()}[p["norm"]]
            if p.get("circular_default"):
                f = F.TVNorm(nrm, axes=tup(p["axes"]), **kw)
            else:
                f = F.TVNorm(nrm, circular=p["circular"], axes=tup(p["axes"]), **kw)
        else:
            f = getattr(F, u)(circular=p["circular"], axes=tup(p["axes"]), **kw)
        return f(to_snp(c["x"]))
    if u in METRICS:
        a, b = to_snp(c["a"]), to_snp(c["b"])
        if u == "isnr":
            return metric.isnr(a, b, to_snp(c["c"]))
        if u == "psnr":
            return metric.psnr(a, b, signal_range=c["params"].get("signal_range"))
        return getattr(metric, u)(a, b)
    raise ValueError(u)


def tup(ax):
    return tuple(ax) if isinstance(ax, list) else ax


# ---------------------------------------------------------------- reference oracles (numpy / math)

def np_flat(x):
    if is_block(x):
        return np.concatenate([to_np(b).ravel() for b in x])
    return to_np(x).ravel()


def table(pairs):
    return coq_list([f"({qlit(k)}, {qlit(v)})" for k, v in pairs if math.isfinite(k) and math.isfinite(v)])


def log10_table(args):
    return table([(a, math.log10(a)) for a in args if a > 0 and math.isfinite(a)])


def metric_ratio(c):
    """argument of log10 for the dB metrics, computed with numpy (oracle for the table key)"""
    u = c["unit"]
    a, b = np_flat(c["a"]), np_flat(c["b"])
    mse = lambda r, s: float(np.mean(np.abs(r - s) ** 2))
    with np.errstate(all="ignore"):
        if u == "snr":
            return float(np.var(a)) / mse(a, b)
        if u == "psnr":
            rg = c["params"].get("signal_range")
            if rg is None:
                rg = abs(float(np.max(a.real)) - float(np.min(a.real)))
            return rg ** 2 / mse(a, b)
        if u == "isnr":
            return mse(a, b) / mse(a, np_flat(c["c"]))
        if u == "bsnr":
            return float(np.var(a)) / float(np.var(b - a))
    raise ValueError(u)


# ---------------------------------------------------------------- Coq terms

def ext_lit(v):
    return "PInf" if v == "inf" else f"(F {qlit(v)})"


def coq_case(c, v):
    """Coq term : nat (0 = agrees with Spec and Impl).  v: float | 'inf'."""
    u = c["unit"]
    if u.startswith("leaf:") or u in ("ScaledFunctional", "FunctionalSum"):
        D = coq_flat(c["x"])
        exact = poly(c["f"]) and not is_complex(c["x"])
        return (f"({'chkx_exact' if exact else 'chkx_close'} {ext_lit(v)} "
                f"{coq_f(c['f'], D, 'spec')} {coq_f(c['f'], D, 'impl')})")
    if v == "inf":
        if u not in ("SeparableFunctional", "ProximalAverage", "Loss"):
            return "1%nat"      # a finite-valued functional returned +inf
    if u == "L21Norm":
        x = c["x"]
        if is_block(x):
            B = coq_list([coq_arr(b) for b in x])
            return f"(chk_close {Q(v)} (l21_block_spec qrt {B}) (l21_block_impl qrt {B}))"
        ax = natl(axes_norm(0 if c.get("default") else c["l2_axis"], len(x["shape"])))
        return f"(chk_close {Q(v)} (l21_spec qrt {ax} {coq_arr(x)}) (l21_impl qrt {ax} {coq_arr(x)}))"
    if u == "NuclearNorm":
        sv = np.linalg.svd(to_np(c["x"]), compute_uv=False)
        o = "(svd_oracle " + coq_list([qlit(s) for s in sv]) + ")"
        return f"(chk_close {Q(v)} (nuclear_spec {o} {coq_arr(c['x'])}) (nuclear_impl {o} {coq_arr(c['x'])}))"
    if u == "SeparableFunctional":
        xs = coq_list([coq_arr(b) for b in c["x"]])
        fs_s = coq_list([f"(fun a : arr (K:=Qc) => {coq_f(d, '(adata a)', 'spec', 'a', b)})"
                         for d, b in zip(c["fs"], c["x"])])
        fs_i = coq_list([f"(fun a : arr (K:=Qc) => {coq_f(d, '(adata a)', 'impl', 'a', b)})"
                         for d, b in zip(c["fs"], c["x"])])
        sp, im = f"(separable_spec {fs_s} {xs})", f"(separable_impl {fs_i} {xs})"
        if c.get("outer_scale") is not None:
            k = Q(c["outer_scale"])
            sp, im = f"(scaled_spec {k} {sp})", f"(option_map (scaled_impl {k}) {im})"
        return f"(chko_close {ext_lit(v)} {sp} {im})"
    if u == "ProximalAverage":
        D = coq_flat(c["x"])
        vs = coq_list([coq_f(d, D, "spec") for d in c["fs"]])
        vi = coq_list([coq_f(d, D, "impl") for d in c["fs"]])
        b = "true" if c["no_inf_eval"] else "false"
        nf = len(c["fs"])
        if c["alphas"] is None:
            return (f"(chkx_close {ext_lit(v)} (proxavg_spec {b} (repeat 1%Qc {nf}%nat) {vs}) "
                    f"(proxavg_call {b} (proxavg_default_alphas {nf}%nat) {vi}))")
        al = LK(c["alphas"])
        return f"(chkx_close {ext_lit(v)} (proxavg_spec {b} {al} {vs}) (proxavg_impl {b} {al} {vi}))"
    if u == "Loss":
        fs = f"(fun d => {coq_f(c['f'], 'd', 'spec')})"
        fi = f"(fun d => {coq_f(c['f'], 'd', 'impl')})"
        sc = c["scale"]
        if c.get("post"):
            sc = sc / c["post"][1] if c["post"][0] == "div" else sc * c["post"][1]
        y, ax, a = coq_flat(c["y"]), coq_Ax(c["A"], c["x"]), Q(sc)
        exact = poly(c["f"]) and not is_complex(c["x"]) and not is_complex(c["y"])
        return (f"({'chkx_exact' if exact else 'chkx_close'} {ext_lit(v)} (loss_spec {fs} {a} {y} {ax}) "
                f"(loss_impl {fi} {a} {y} {ax}))")
    if u in ("SquaredL2Loss", "SquaredL2AbsLoss", "SquaredL2SquaredAbsLoss", "PoissonLoss"):
        sc = 0.5 if c.get("scale") is None else c["scale"]
        post = c.get("post")
        if post:
            sc = sc / post[1] if post[0] == "div" else sc * post[1]
        y, ax, a = coq_flat(c["y"]), coq_Ax(c["A"], c["x"]), Q(sc)
        if u == "PoissonLoss":
            axv = np_flat(c["x"]) if c["A"] is None else np.array(c["A"]["M"]) @ np_flat(c["x"])
            lt = table([(float(t), math.log(float(t))) for t in sorted(set(axv.real.tolist())) if t > 0])
            gt = table([(float(t) + 1.0, math.lgamma(float(t) + 1.0)) for t in sorted(set(np_flat(c["y"]).real.tolist()))])
            return (f"(chk_close {Q(v)} (poisson_spec (tab {lt}) (tab {gt}) {a} {y} {ax}) "
                    f"(poisson_impl (tab {lt}) (tab {gt}) {a} {y} {ax}))")
        w = coq_w(c.get("W"), c["y"])
        exact = not is_complex(c["x"]) and not is_complex(c["y"])
        nm = {"SquaredL2Loss": ("sql2loss_spec", "sql2loss_impl qrt"),
              "SquaredL2AbsLoss": ("sql2abs_spec qrt", "sql2abs_impl qrt"),
              "SquaredL2SquaredAbsLoss": ("sql2sqabs_spec", "sql2sqabs_impl qrt")}[u]
        return (f"({'chk_exact' if exact else 'chk_close'} {Q(v)} ({nm[0]} {a} {w} {y} {ax}) "
                f"({nm[1]} {a} {w} {y} {ax}))")
    if u in ("AnisotropicTVNorm", "IsotropicTVNorm", "TVNorm"):
        p, x = c["params"], c["x"]
        axes = natl(axes_norm(p["axes"], len(x["shape"])))
        circ = "true" if p["circular"] else "false"
        nrm = {"AnisotropicTVNorm": "L1", "IsotropicTVNorm": "L21"}.get(u) or p["norm"]
        ns, ni = {"L1": ("(fun a => l1_spec qrt (adata a))", "(fun a => l1_impl qrt (adata a))"),
                  "L21": ("(l21_spec qrt [0%nat])", "(l21_impl qrt [0%nat])"),
                  "L2": ("(fun a => l2_spec qrt (adata a))", "(fun a => l2_impl qrt (adata a))"),
                  "SqL2": ("(fun a => sql2_spec (adata a))", "(fun a => sql2_impl qrt (adata a))")}[nrm]
        exact = nrm in ("L1", "SqL2") and not is_complex(x)
        return (f"({'chk_exact' if exact else 'chk_close'} {Q(v)} (tv_spec {ns} {circ} {axes} {coq_arr(x)}) "
                f"(tv_impl {ni} {circ} {axes} {coq_arr(x)}))")
    if u in METRICS:
        a, b = coq_flat(c["a"]), coq_flat(c["b"])
        if u == "mae":
            return f"(chk_close {Q(v)} (mae_spec qrt {a} {b}) (mae_impl qrt {a} {b}))"
        if u == "mse":
            return f"(chk_close {Q(v)} (mse_spec {a} {b}) (mse_impl qrt {a} {b}))"
        if u == "rel_res":
            return f"(chk_close {Q(v)} (relres_spec qrt {a} {b}) (relres_impl qrt {a} {b}))"
        t = f"(tab {log10_table([metric_ratio(c)])})"
        if u == "snr":
            return f"(chk_close {Q(v)} (snr_spec {t} {a} {b}) (snr_impl qrt {t} {a} {b}))"
        if u == "bsnr":
            return f"(chk_close {Q(v)} (bsnr_spec {t} {a} {b}) (bsnr_impl {t} {a} {b}))"
        if u == "isnr":
            cc = coq_flat(c["c"])
            return f"(chk_close {Q(v)} (isnr_spec {t} {a} {b} {cc}) (isnr_impl qrt {t} {a} {b} {cc}))"
        if u == "psnr":
            rg = c["params"].get("signal_range")
            rs = f"(range_of {a})" if rg is None else Q(rg)
            ri = f"(range_impl {a})" if rg is None else Q(rg)
            return f"(chk_close {Q(v)} (psnr_spec {t} {rs} {a} {b}) (psnr_impl qrt {t} {ri} {a} {b}))"
    raise ValueError(u)


def defined(c):
    """False when the documented formula has no finite value at this input (division by zero,
    log of 0): such inputs are outside what the property states and are skipped."""
    u = c["unit"]
    if u in ("snr", "psnr", "isnr", "bsnr"):
        with np.errstate(all="ignore"):
            try:
                r = metric_ratio(c)
            except ZeroDivisionError:
                return False
        return math.isfinite(r) and r > 1e-9
    if u in ("mae", "mse"):
        return True
    if u == "PoissonLoss":
        axv = np_flat(c["x"]) if c["A"] is None else np.array(c["A"]["M"]) @ np_flat(c["x"])
        return bool(np.all(axv.real > 0))
    return True


def uses_inf_scale_ok(c):
    return True


WHAT_VALUE = "value differs from the documented formula"
WHAT_RAISES = "raises on an input in the documented domain"


def check_cases(ctx: Ctx, cases, name):
    """run the implementation, evaluate Spec/Impl in Coq, report.  Returns #violations found."""
    todo, terms = [], []
    for c in cases:
        if not defined(c):
            ctx.count("skipped-undefined:" + c["unit"], None)
            continue
        st, v = run_impl(c)
        nontriv = True
        ctx.count(c["unit"], c, nontrivial=nontriv)
        if st == "exc":
            ctx.violation(c["unit"], WHAT_RAISES, c, expected="a value", observed=v, oracle="Spec")
            continue
        if v in ("nan", "-inf"):
            ctx.violation(c["unit"], WHAT_VALUE, c, expected="documented value", observed=v, oracle="Spec")
            continue
        todo.append((c, v))
        terms.append(coq_case(c, v))
    shard = 150
    bodies = []
    for s in range(0, len(terms), shard):
        bodies.append("Definition cases : list nat := " + coq_list(terms[s:s + shard], ";\n ") + ".\n"
                      "Eval vm_compute in (report cases 0%nat).")
    import time
    t0 = time.time()
    outs = coq_eval_shards(name, HEADER, bodies) if bodies else []
    ctx.notes.append(f"time: Coq evaluation of {len(terms)} cases in {len(bodies)} shards {time.time() - t0:.1f} s")
    bad = []
    for si, o in enumerate(outs):
        for code in parse_eval_nat_list(o):
            idx, k = divmod(code, 4)
            bad.append((todo[si * shard + idx], k))
    nviol = 0
    for (c, v), k in bad:
        if k & 1:
            rec = {"input": c, "what": WHAT_VALUE, "observed": v}
            is_known = any(kk["unit"] == c["unit"] and _match(kk, rec) for kk in ctx.known)
            seen = any(vv["unit"] == c["unit"] and vv["what"] == WHAT_VALUE for vv in ctx.violations)
            exp = "Spec value (not printed)" if (is_known or seen) else spec_value(c, v)
            if ctx.violation(c["unit"], WHAT_VALUE, c, expected=exp, observed=v,
                             oracle="coq/theories/C09/Spec.v evaluated by vm_compute"):
                nviol += 1
        else:
            ctx.obligation(False, f"Impl model of {c['unit']} differs from the code (Spec agrees)",
                           f"input {c}\nobserved {v}")
    return nviol


def spec_value(c, v):
    """printable Spec value for a failing case (second evaluation, only for reports)"""
    try:
        term = coq_case(c, v)
        # the Spec argument is the 2nd argument of the chk function: re-evaluate the whole check
        # with printing of the spec value
        import re
        m = re.match(r"\((chkx?o?_(?:exact|close)) (\(F [^)]*\)\)|PInf|\(q [^)]*\)\))", term)
        if not m:
            return "Spec value"
        rest = term[m.end():].strip()
        # split the two top-level parenthesised arguments
        depth, i0, args = 0, None, []
        for i, ch in enumerate(rest):
            if ch == "(":
                if depth == 0:
                    i0 = i
                depth += 1
            elif ch == ")":
                depth -= 1
                if depth == 0 and i0 is not None:
                    args.append(rest[i0:i + 1])
                    i0 = None
                    if len(args) == 2:
                        break
        spec = args[0]
        if m.group(1).startswith("chkx") or m.group(1).startswith("chko"):
            body = f"Eval vm_compute in (match {spec} with Fin a => (0%nat, this a) | PInf => (1%nat, 0%Q) end)."
        else:
            body = f"Eval vm_compute in (0%nat, this {spec})."
        out = coq_eval_shards("C09_specval", HEADER, [body])[0]
        val = parse_evals(out)[0]
        m2 = re.search(r"\((\d)(?:%nat)?,\s*(.*)\)\s*$", val, re.S)
        if m2 and m2.group(1) == "1":
            return "inf"
        t = m2.group(2).strip() if m2 else val
        m3 = re.match(r"\(?(-?\d+)\)?\s*#\s*(\d+)", t.replace("(", "").replace(")", ""))
        if m3:
            return int(m3.group(1)) / int(m3.group(2))
        try:
            return float(int(t))
        except Exception:
            return t
    except Exception as e:  # noqa
        return f"Spec value (not printed: {type(e).__name__})"


# ---------------------------------------------------------------- entry points

def run(ctx: Ctx):
    import jax
    jax.config.update("jax_enable_x64", True)
    import time
    t0 = time.time()
    if not getattr(ctx, "no_proofs", False):
        ctx.proofs()
    ctx.notes.append(f"time: theorem build {time.time() - t0:.1f} s")
    ctx.trusted += [
        "numpy/jax axis semantics of reductions and diff along an axis as transcribed in C09/Defs.v (groups, on_axis): shared by Spec and Impl, validated by the correspondence check only",
        "oracles (reference values computed in the harness, accepted in Coq only when their argument matches the exactly computed one to 2^-40): math.log10 / math.log / math.lgamma, numpy.linalg.svd (singular values additionally checked against the Frobenius norm)",
        "square roots in the executable instance: floor(sqrt(s) 2^64)/2^64 by Z.sqrt, bracket re-checked at run time (Exec.qrt)",
        "forward operators of losses are evaluated exactly in Coq (identity, dyadic MatrixOperator, Diagonal); other operators are a Section variable (the value A(x) is an argument of the loss models)",
    ]
    ctx.assumptions += [
        "exact arithmetic in the model; float64 rounding is covered by the stated tolerance (relative 2^-40) and not modelled",
        "scale factors multiplying +inf are > 0 (ScaledFunctional / Loss / ProximalAverage weights)",
        "inputs where the documented formula has no finite value (0/0, log 0 in the dB metrics and PoissonLoss) are skipped",
    ]
    ctx.notes += ["L1Norm docstring states sum |x_i|^2 (typo); the check uses sum |x_i|"]
    cases = gen_cases(ctx)
    t0 = time.time()
    check_cases(ctx, cases, "C09_cases")
    ctx.notes.append(f"time: implementation runs + Coq evaluation {time.time() - t0:.1f} s")


def replay(ctx: Ctx, rec):
    import jax
    jax.config.update("jax_enable_x64", True)
    c = rec["input"]
    if not defined(c):
        return True
    st, v = run_impl(c)
    if st == "exc" or v in ("nan", "-inf"):
        return False
    body = "Definition cases : list nat := [" + coq_case(c, v) + "].\nEval vm_compute in (report cases 0%nat)."
    out = coq_eval_shards("C09_replay", HEADER, [body])[0]
    codes = parse_eval_nat_list(out)
    return not any(k % 4 & 1 for k in codes)
