"""C10 -- every ADMM x-update solver returns the sub-problem minimiser.

Theorems: coq/Properties/C10.v (models coq/theories/C10/*.v, refuted full statements in
coq/Findings/C10_*.v).

Correspondence / violation search, on REAL scico objects: build an ADMM object for a generated
problem, overwrite the public state (z_list, u_list) with arbitrary exact (dyadic) arrays, call
subproblem_solver.solve(x0) once, and hand the returned x to Coq together with the dense
matrices of A and the C_i (extracted from the operators on basis vectors), W, y, z, u, rho,
alpha.  Inside Coq (C10/Exec.v, exact Gaussian-rational arithmetic, vm_compute):
  * residual of system (1) at x  <= the solver's accuracy (relative to ||rhs||),
  * compute_rhs() / lhs_op(probe) equal the proved model (SolverModels.v) = the two sides of (1),
  * reported accuracy / CG rel_res equal the true relative residual,
  * all solvers applicable to one problem agree (up to accuracy x condition bound).
A failing (problem, solver) pair is the replay.
"""
from __future__ import annotations

import math
from fractions import Fraction

import numpy as np

from vf.common import COQ, Ctx, Broken, _lock, coq_eval_shards, coqc_file, parse_eval_nat_list, qlit, coq_list

HEADER = """From Coq Require Import List Bool QArith Qcanon.
From SV Require Import C10.Exec.
Import ListNotations.
Open Scope Q_scope.
"""

WHAT = {
    "resid": "returned x does not satisfy the normal equations (1) of the sub-problem to the solver's accuracy",
    "acc": "reported accuracy / rel_res differs from the true relative residual of system (1)",
    "rhs": "compute_rhs() differs from the right-hand side of system (1) (proved model)",
    "lhs": "lhs_op differs from the left-hand operator of system (1) (proved model)",
    "g0rhs": "G0 compute_rhs() differs from its transcribed model",
    "codemodel": "returned x differs from what the transcribed model of this solver computes (FreqDomain.v / SolverModels.v)",
    "agree": "two solvers that both satisfy system (1) return different x",
    "raises": "solver raises on a problem of its documented class",
    "nonfinite": "solver returns a non-finite x",
}

COND_MAX = 60.0
DIRECT_TOL = 1e-9
CG_TOL = 1e-6
GEN_TOL = 1e-5


# ------------------------------------------------------------------ numbers

def dy(rng, bits=2, lo=-2, hi=2, nonzero=False):
    den = 1 << bits
    while True:
        v = rng.randint(lo * den, hi * den) / den
        if v != 0 or not nonzero:
            return v


def rand_arr(rng, shape, cplx, bits=2, lo=-2, hi=2, nonzero=False):
    n = int(np.prod(shape))
    if cplx:
        return [[dy(rng, bits, lo, hi, nonzero), dy(rng, bits, lo, hi)] for _ in range(n)]
    return [[dy(rng, bits, lo, hi, nonzero), 0.0] for _ in range(n)]


def to_np(lst, shape, cplx):
    a = np.array([complex(r, i) for r, i in lst]).reshape(shape)
    return a.astype(np.complex128) if cplx else a.real.astype(np.float64)


RHOS = [0.25, 0.5, 1.0, 1.5, 2.0, 3.0]
SCALES = [0.5, 0.25, 0.75, 1.0, 1.5, 2.0]
WVALS = [0.25, 0.5, 1.0, 1.5, 2.0, 3.0]


# ------------------------------------------------------------------ building real objects

def np_dtype(cplx):
    return np.complex128 if cplx else np.float64


def build_op(spec, shape, cplx):
    import scico.numpy as snp
    from scico import linop
    dt = np_dtype(cplx)
    k = spec["kind"]
    shape = tuple(shape)
    if k == "Identity":
        return linop.Identity(shape, input_dtype=dt)
    if k == "Diagonal":
        return linop.Diagonal(snp.array(to_np(spec["d"], shape, cplx)), input_dtype=dt)
    if k == "ScaledIdentity":
        c = spec["c"]
        if isinstance(c, (list, tuple)):   # [re, im]: complex scalar (complex problems)
            c = complex(c[0], c[1]) if cplx else c[0]
        return linop.ScaledIdentity(c, shape, input_dtype=dt)
    if k == "MatrixOperator":
        M = to_np(spec["M"], tuple(spec["mshape"]), cplx)
        return linop.MatrixOperator(snp.array(M))
    if k == "FiniteDifference":
        return linop.FiniteDifference(shape, input_dtype=dt, axes=(spec["axis"],), circular=True)
    if k == "CircularConvolve":
        h = to_np(spec["h"], tuple(spec["hshape"]), cplx)
        return linop.CircularConvolve(snp.array(h), shape, ndims=spec["ndims"], input_dtype=dt)
    if k == "SumConv":
        h = to_np(spec["h"], tuple(spec["hshape"]), cplx)
        Cc = linop.CircularConvolve(snp.array(h), shape, ndims=spec["ndims"], input_dtype=dt)
        S = linop.Sum(input_shape=shape, axis=0, input_dtype=dt)
        return S @ Cc
    raise Broken("unknown operator kind " + k)


HIST_OPS = ["mul", "rmul", "div", "set_scale"]
HIST_USES = ["hessian", "prox", "admm"]


def make_loss(fs, y, A, W, shape, cplx):
    """The SquaredL2Loss of a case.  Fresh-object stream: constructed with scale=.  History
    stream (fs["history"] = {"op", "c", "use"}): a loss f0 whose hessian / prox has already been
    USED (directly, or through an ADMM x-update with LinearSubproblemSolver) is re-scaled by
    c * f0, f0 * c, f0 / c or f0.set_scale(.) so that the documented scale of the resulting loss
    is fs["scale"] (all factors dyadic: exact); the sub-problem solvers then run on that loss."""
    import scico.numpy as snp
    from scico import functional, linop, loss
    from scico.optimize import ADMM
    from scico.optimize.admm import LinearSubproblemSolver
    h = fs.get("history")
    if not h:
        return loss.SquaredL2Loss(y=y, A=A, scale=fs["scale"], W=W)
    c, op = h["c"], h["op"]
    s0 = {"mul": fs["scale"] / c, "rmul": fs["scale"] / c, "div": fs["scale"] * c,
          "set_scale": fs["scale"] * c}[op]
    f0 = loss.SquaredL2Loss(y=y, A=A, scale=s0, W=W)
    v = snp.array(to_np(h["v"], shape, cplx))
    if h["use"] == "hessian":
        f0.hessian(v)
    elif h["use"] == "prox":
        f0.prox(v, 0.5)
    else:
        a0 = ADMM(f=f0, g_list=[functional.L1Norm()], C_list=[linop.Identity(shape, input_dtype=np_dtype(cplx))],
                  rho_list=[1.0], x0=v, maxiter=1, itstat_options={"display": False},
                  subproblem_solver=LinearSubproblemSolver(cg_kwargs={"tol": 1e-4, "maxiter": 5}))
        a0.subproblem_solver.solve(a0.x)
    if op == "mul":
        f = f0 * c
    elif op == "rmul":
        f = c * f0
    elif op == "div":
        f = f0 / c
    else:
        f0.set_scale(fs["scale"])
        f = f0
    if float(f.scale) != float(fs["scale"]):
        raise Broken("history stream: derived loss does not have the intended scale", f"{f.scale} vs {fs['scale']}")
    return f


def build_problem(case):
    """Real scico objects for a case: (f, g_list, C_list, rho_list, z_list, u_list, x0)."""
    import scico.numpy as snp
    from scico import functional, linop, loss
    cplx = case["complex"]
    shape = tuple(case["shape"])
    dt = np_dtype(cplx)
    f = None
    if case["f"] is not None:
        fs = case["f"]
        A = build_op(fs["A"], shape, cplx)
        yshape = tuple(A.output_shape)
        y = snp.array(to_np(fs["y"], yshape, cplx))
        W = None
        if fs["W"] is not None:
            W = linop.Diagonal(snp.array(np.array(fs["W"], dtype=np.float64).reshape(yshape)))
        f = make_loss(fs, y, A, W, shape, cplx)
    elif case.get("fzero"):
        f = functional.ZeroFunctional()
    C_list, g_list, rho_list, z_list, u_list = [], [], [], [], []
    for i, b in enumerate(case["blocks"]):
        C = build_op(b["C"], shape, cplx)
        C_list.append(C)
        rho_list.append(b["rho"])
        oshape = tuple(C.output_shape)
        z_list.append(snp.array(to_np(b["z"], oshape, cplx)))
        u_list.append(snp.array(to_np(b["u"], oshape, cplx)))
        if i == 0 and case["family"] == "g0":
            yg = snp.array(to_np(b["gy"], oshape, cplx))
            g_list.append(loss.SquaredL2Loss(y=yg, scale=b["gscale"]))
        else:
            g_list.append(functional.L1Norm())
    x0 = snp.array(to_np(case["x0"], shape, cplx))
    return f, g_list, C_list, rho_list, z_list, u_list, x0


def make_solver(sspec, case):
    from scico.optimize.admm import (CircularConvolveSolver, FBlockCircularConvolveSolver,
                                     G0BlockCircularConvolveSolver, GenericSubproblemSolver,
                                     LinearSubproblemSolver, MatrixSubproblemSolver)
    n = sspec["name"]
    nd = case.get("ndims")
    if n == "generic":
        return GenericSubproblemSolver(minimize_kwargs={"options": {"maxiter": 2000, "ftol": 1e-15, "gtol": 1e-11}})
    if n == "cg-scico":
        return LinearSubproblemSolver(cg_kwargs={"tol": CG_TOL, "maxiter": 500})
    if n == "cg-scico-trunc":
        return LinearSubproblemSolver(cg_kwargs={"tol": 1e-12, "maxiter": sspec["maxiter"]})
    if n == "cg-jax":
        return LinearSubproblemSolver(cg_kwargs={"tol": CG_TOL, "maxiter": 500}, cg_function="jax")
    if n == "matrix":
        return MatrixSubproblemSolver(check_solve=True, solve_kwargs={"cho_factor": bool(sspec.get("cho"))})
    if n == "circ":
        return CircularConvolveSolver(ndims=nd)
    if n == "fblock":
        return FBlockCircularConvolveSolver(ndims=nd, check_solve=True)
    if n == "g0":
        return G0BlockCircularConvolveSolver(ndims=nd, check_solve=True)
    raise Broken("unknown solver " + n)


SOLVER_TOL = {"generic": GEN_TOL, "cg-scico": 2 * CG_TOL, "cg-jax": 2 * CG_TOL, "matrix": DIRECT_TOL,
              "circ": DIRECT_TOL, "fblock": DIRECT_TOL, "g0": DIRECT_TOL, "cg-scico-trunc": None}
UNIT = {"generic": "GenericSubproblemSolver", "cg-scico": "LinearSubproblemSolver",
        "cg-scico-trunc": "LinearSubproblemSolver", "cg-jax": "LinearSubproblemSolver",
        "matrix": "MatrixSubproblemSolver", "circ": "CircularConvolveSolver",
        "fblock": "FBlockCircularConvolveSolver", "g0": "G0BlockCircularConvolveSolver"}


def solvers_for(case, quick_i=None):
    """every solver applicable to the problem; in the quick tier the two slowest generic-purpose
    solvers (scipy L-BFGS-B, jax CG: jit compilation) alternate between problems"""
    fam = case["family"]
    lin_ok = case["f"] is not None or not case.get("fzero")
    out = []
    if quick_i is None or quick_i % 2 == 0 or not lin_ok:
        out.append({"name": "generic"})
    if lin_ok:
        out.append({"name": "cg-scico"})
        if quick_i is None or quick_i % 2 == 1:
            out.append({"name": "cg-jax"})
    if fam == "matrix":
        out.append({"name": "cg-scico-trunc", "maxiter": case.get("trunc", 2)})
        out.append({"name": "matrix", "cho": False})
        wz = case["f"] is not None and case["f"]["W"] is not None and any(w == 0 for w in case["f"]["W"])
        if not wz:
            out.append({"name": "matrix", "cho": True})
    elif fam == "circ":
        out.append({"name": "circ"})
    elif fam == "fblock":
        out.append({"name": "fblock"})
    elif fam == "g0":
        out.append({"name": "g0"})
    return out


def attach_to_problem1(case, solver, f, g_list, C_list, x0):
    """Re-attachment history: the SAME solver object first serves another ADMM problem (same
    operators; different y, W, loss scale, rho, z, u) for one or two x-updates.  Afterwards the
    caller attaches it to the problem of the case (ADMM.__init__ -> internal_init) and that
    x-update is checked against system (1) exactly as for a fresh solver object."""
    import scico.numpy as snp
    from scico import linop, loss
    from scico.optimize import ADMM
    ra = case["reattach"]
    cplx = case["complex"]
    f1 = f
    if case["f"] is not None:
        yshape = tuple(f.A.output_shape)
        W1 = None if ra["W"] is None else linop.Diagonal(
            snp.array(np.array(ra["W"], dtype=np.float64).reshape(yshape)))
        f1 = loss.SquaredL2Loss(y=snp.array(to_np(ra["y"], yshape, cplx)), A=f.A, scale=ra["scale"], W=W1)
    a1 = ADMM(f=f1, g_list=g_list, C_list=C_list, rho_list=list(ra["rho"]), x0=x0, maxiter=1,
              subproblem_solver=solver, itstat_options={"display": False})
    a1.z_list = [snp.array(to_np(z, tuple(C.output_shape), cplx)) for z, C in zip(ra["z"], C_list)]
    a1.u_list = [snp.array(to_np(u, tuple(C.output_shape), cplx)) for u, C in zip(ra["u"], C_list)]
    for _ in range(ra["nupd"]):
        a1.x = solver.solve(a1.x)


def run_solver(case, sspec, built=None):
    """One x-update of the real solver from the given (z, u).  Returns a result dict.
    [built]: the scico objects of the problem (shared between the solvers of one problem, each
    solver gets its own ADMM object)."""
    import scico.numpy as snp
    from scico.optimize import ADMM
    res = {"solver": sspec}
    try:
        f, g_list, C_list, rho_list, z_list, u_list, x0 = built or build_problem(case)
    except Exception as e:  # building the problem itself must work
        raise Broken("cannot build the generated problem", f"{type(e).__name__}: {e}")
    try:
        solver = make_solver(sspec, case)
        if case.get("reattach"):
            attach_to_problem1(case, solver, f, g_list, C_list, x0)
        admm = ADMM(f=f, g_list=g_list, C_list=C_list, rho_list=rho_list, x0=x0, maxiter=1,
                    subproblem_solver=solver, itstat_options={"display": False})
        admm.z_list = list(z_list)
        admm.u_list = list(u_list)
        x = admm.subproblem_solver.solve(admm.x)
        res["x"] = np.asarray(x).ravel()
    except Exception as e:
        res["exc"] = f"{type(e).__name__}: {str(e)[:160]}"
        return res
    name = sspec["name"]
    if name in ("matrix", "fblock", "g0"):
        acc = getattr(solver, "accuracy", None)
        res["acc"] = None if acc is None else float(acc)
    if name in ("cg-scico", "cg-scico-trunc"):
        res["acc"] = float(solver.info["rel_res"])
        res["num_iter"] = int(solver.info["num_iter"])
    if name in ("cg-scico", "cg-jax", "matrix", "circ", "fblock"):
        res["rhs"] = np.asarray(solver.compute_rhs()).ravel()
        probe = snp.array(to_np(case["probe"], tuple(case["shape"]), case["complex"]))
        res["lhs_probe"] = np.asarray(solver.lhs_op(probe)).ravel()
    if name == "g0":
        res["g0rhs"] = np.asarray(solver.compute_rhs()).ravel()
    return res


# ------------------------------------------------------------------ dense matrices (oracle side)

def dense_matrix(op, shape, cplx):
    """Matrix of a real operator object on the canonical basis, snapped to the dyadic grid the
    generator uses (entries are sums of products of small dyadics; FFT-based operators return
    them up to 1e-15)."""
    import scico.numpy as snp
    n = int(np.prod(shape))
    dt = np_dtype(cplx)
    cols = []
    for k in range(n):
        e = np.zeros(n, dtype=dt)
        e[k] = 1
        cols.append(np.asarray(op(snp.array(e.reshape(shape)))).ravel())
    M = np.stack(cols, 1).astype(np.complex128)
    S = (np.round(M.real * 4096) + 1j * np.round(M.imag * 4096)) / 4096
    if np.max(np.abs(M - S)) > 1e-9:
        raise Broken("operator matrix is not on the dyadic grid", f"max dev {np.max(np.abs(M - S))}")
    return S


def problem_matrices(case, built=None):
    f, g_list, C_list, rho_list, z_list, u_list, x0 = built or build_problem(case)
    shape = tuple(case["shape"])
    cplx = case["complex"]
    A = None if (f is None or case["f"] is None) else dense_matrix(f.A, shape, cplx)
    Cs = [dense_matrix(C, shape, cplx) for C in C_list]
    return A, Cs


def dense_system(case, A, Cs):
    """numpy version of system (1): only used to shape the generated inputs (conditioning)."""
    n = int(np.prod(case["shape"]))
    L = np.zeros((n, n), dtype=np.complex128)
    if A is not None:
        fs = case["f"]
        W = np.ones(A.shape[0]) if fs["W"] is None else np.array(fs["W"], dtype=float)
        L += 2 * fs["scale"] * A.conj().T @ (W[:, None] * A)
    for b, M in zip(case["blocks"], Cs):
        L += b["rho"] * M.conj().T @ M
    return L


# ------------------------------------------------------------------ generators

def gen_blocks_zu(rng, case):
    """fill z, u (arbitrary exact arrays of the right shapes), x0, probe"""
    cplx = case["complex"]
    shape = tuple(case["shape"])
    for b in case["blocks"]:
        C = build_op(b["C"], shape, cplx)
        osz = tuple(C.output_shape)
        b["z"] = rand_arr(rng, osz, cplx)
        b["u"] = rand_arr(rng, osz, cplx)
        if "gscale" in b:
            b["gy"] = rand_arr(rng, osz, cplx)
    case["x0"] = rand_arr(rng, shape, cplx, bits=1, lo=-1, hi=1)
    case["probe"] = rand_arr(rng, shape, cplx)
    ra = case.get("reattach")
    if ra:
        # ADMM problem 1 of the re-attachment history: same operators (so the same solver class
        # applies), different rho, z, u and -- below -- different y, W and loss scale
        ra["rho"] = [rng.choice([r for r in RHOS if r != b["rho"]]) for b in case["blocks"]]
        ra["z"] = [rand_arr(rng, tuple(build_op(b["C"], shape, cplx).output_shape), cplx) for b in case["blocks"]]
        ra["u"] = [rand_arr(rng, tuple(build_op(b["C"], shape, cplx).output_shape), cplx) for b in case["blocks"]]
    if case["f"] is not None:
        A = build_op(case["f"]["A"], shape, cplx)
        ysz = tuple(A.output_shape)
        case["f"]["y"] = rand_arr(rng, ysz, cplx)
        m = int(np.prod(ysz))
        if ra:
            ra["y"] = rand_arr(rng, ysz, cplx, nonzero=True)
            ra["scale"] = rng.choice([s for s in SCALES if s != case["f"]["scale"]])
            ra["W"] = None if rng.random() < 0.4 else [rng.choice(WVALS) for _ in range(m)]
        wk = case["f"].pop("wkind")
        if wk == "none":
            case["f"]["W"] = None
        elif wk == "uniform":
            c = rng.choice([0.5, 2.0, 3.0, 1.5])
            case["f"]["W"] = [c] * m
        elif wk == "zero":
            w = [rng.choice(WVALS) for _ in range(m)]
            w[rng.randrange(m)] = 0.0
            case["f"]["W"] = w
        else:
            w = [rng.choice(WVALS) for _ in range(m)]
            if all(v == 1.0 for v in w):
                w[0] = 2.0
            case["f"]["W"] = w


def conv_spec(rng, shape, ndims, cplx, lead=None):
    sp = shape[-ndims:]
    hs = [rng.randint(1, min(3, s)) for s in sp]
    if lead is not None:
        hs = [lead] + hs
    return {"kind": "CircularConvolve", "h": rand_arr(rng, hs, cplx, bits=1, lo=-2, hi=2),
            "hshape": hs, "ndims": ndims}


def shift_invariant_block(rng, shape, ndims, cplx, lead=None):
    r = rng.random()
    if r < 0.25:
        return {"kind": "Identity"}
    if r < 0.4:
        return scaled_identity_spec(rng, cplx)
    if r < 0.75:
        ax = rng.randrange(len(shape) - ndims, len(shape))
        if shape[ax] >= 2:
            return {"kind": "FiniteDifference", "axis": ax}
        return {"kind": "Identity"}
    if lead is not None and rng.random() < 0.5:
        return conv_spec(rng, shape, ndims, cplx, lead=lead)
    return conv_spec(rng, shape, ndims, cplx)


def scaled_identity_spec(rng, cplx):
    """c * Identity; on complex problems c has a NON-ZERO imaginary part (C^H C = |c|^2 I, not c^2 I)"""
    re = rng.choice([0.5, 1.5, 2.0, -1.5])
    im = rng.choice([0.5, -1.0, 1.5, -0.5]) if cplx else 0.0
    return {"kind": "ScaledIdentity", "c": [re, im]}


def add_history(rng, case, i):
    """mark the loss of the case as 'derived by re-scaling an already used loss'"""
    case["f"]["history"] = {"op": HIST_OPS[i % len(HIST_OPS)] if i < 8 else rng.choice(HIST_OPS),
                            "c": rng.choice([0.25, 0.5, 2.0, 4.0]),
                            "use": rng.choice(HIST_USES),
                            "v": rand_arr(rng, tuple(case["shape"]), case["complex"])}


def gen_matrix(rng, i=0):
    """stratified over i % 8 (shape lattice wide / SQUARE / tall):
    0 Woodbury (wide A, diagonal blocks, weighted); 1 SQUARE A, diagonal blocks, real, weighted;
    2 strictly tall A, diagonal blocks; 3 matrix-only blocks; 4 mixed blocks; 5 wide A with a zero
    weight; 6 f.A Diagonal; 7 SQUARE A, diagonal blocks, complex, unweighted (every other round:
    fully random incl. square); every 12th: f = None.  Diagonal blocks are Identity, Diagonal or
    ScaledIdentity.  Strata 2, 3 alternate with the history stream (re-scaled used losses)."""
    k = i % 8
    rnd7 = k == 7 and (i // 8) % 2 == 1
    cplx = rng.random() < 0.4
    if k == 1 and i < 8:
        cplx = False
    if k == 7 and not rnd7:
        cplx = True
    n = rng.randint(2, 5)
    case = {"family": "matrix", "complex": cplx, "shape": [n], "trunc": rng.randint(1, 2)}
    if k in (0, 7) or (k in (3, 6) and (i // 8) % 2 == 1):
        case["reattach"] = {"nupd": 1 + (i // 8 + k) % 2}
    r = rng.random()
    if i % 12 == 11:
        case["f"] = None
    else:
        if k == 6 or (rnd7 and r < 0.2):
            A = {"kind": "Diagonal", "d": rand_arr(rng, (n,), cplx, nonzero=True)}
        else:
            if rnd7:
                m = rng.choice([rng.randint(1, n - 1), n, rng.randint(n + 1, n + 3)])
            elif k in (0, 5):
                m = rng.randint(1, n - 1)
            elif k in (1, 7):
                m = n
            elif k == 2:
                m = rng.randint(n + 1, n + 3)
            else:
                m = rng.randint(n, n + 3)
            A = {"kind": "MatrixOperator", "M": rand_arr(rng, (m, n), cplx), "mshape": [m, n]}
        wk = rng.choices(["none", "pos", "uniform", "zero"], [0.2, 0.55, 0.1, 0.15])[0]
        if k == 5:
            wk = "zero"
        elif k in (0, 1):
            wk = "pos"
        elif k == 7 and not rnd7:
            wk = "none"
        case["f"] = {"A": A, "scale": rng.choice(SCALES), "wkind": wk}
        if k in (2, 3) and (i // 8) % 2 == 0:
            add_history(rng, case, i)
    mode = rng.choices(["diag", "mat", "mixed"], [0.6, 0.22, 0.18])[0]
    if not rnd7:
        mode = {3: "mat", 4: "mixed"}.get(k, "diag")
    nb = rng.randint(1, 3)
    blocks = []
    for i in range(nb):
        if mode == "diag" or (mode == "mixed" and i % 2 == 0):
            rr = rng.random()
            if rr < 0.3:
                C = {"kind": "Identity"}
            elif rr < 0.5:
                C = scaled_identity_spec(rng, cplx)
            else:
                C = {"kind": "Diagonal", "d": rand_arr(rng, (n,), cplx, nonzero=True)}
        else:
            p = rng.randint(1, 4)
            C = {"kind": "MatrixOperator", "M": rand_arr(rng, (p, n), cplx), "mshape": [p, n]}
        blocks.append({"C": C, "rho": rng.choice(RHOS)})
    if k == 7 and not rnd7:
        blocks[0]["C"] = scaled_identity_spec(rng, cplx)
    if mode == "mixed" and nb == 1:
        blocks.append({"C": {"kind": "MatrixOperator", "M": rand_arr(rng, (2, n), cplx), "mshape": [2, n]},
                       "rho": rng.choice(RHOS)})
    case["blocks"] = blocks
    return case


def gen_circ(rng, i=0):
    cplx = rng.random() < 0.35 or i % 5 == 3
    if rng.random() < 0.5:
        shape = [rng.randint(3, 6)]
    else:
        shape = [rng.randint(2, 3), rng.randint(3, 4)]
    nd = len(shape)
    case = {"family": "circ", "complex": cplx, "shape": shape, "ndims": nd}
    if i % 5 in (1, 3):
        case["reattach"] = {"nupd": 1 + (i // 5) % 2}
    if i % 5 == 4:
        case["f"] = None
    else:
        A = {"kind": "Identity"} if rng.random() < 0.3 else conv_spec(rng, shape, nd, cplx)
        wk = ["none", "uniform", "none", "pos"][i % 4]
        case["f"] = {"A": A, "scale": rng.choice(SCALES), "wkind": wk}
        if i % 5 in (0, 2):
            add_history(rng, case, i + 1)
    case["blocks"] = [{"C": shift_invariant_block(rng, shape, nd, cplx), "rho": rng.choice(RHOS)}
                      for _ in range(rng.randint(1, 3))]
    if i % 5 == 3:   # complex problem with a complex-scalar ScaledIdentity block
        case["blocks"][0]["C"] = scaled_identity_spec(rng, cplx)
    return case


def sumconv_spec(rng, shape, nd, cplx):
    K = shape[0]
    sp = shape[1:]
    hs = [K] + [rng.randint(1, min(3, s)) for s in sp]
    return {"kind": "SumConv", "h": rand_arr(rng, hs, cplx, bits=1, lo=-2, hi=2), "hshape": hs, "ndims": nd}


def gen_fblock(rng, i=0):
    cplx = rng.random() < 0.3 or i % 4 == 3
    K = rng.randint(2, 3)
    sp = [rng.randint(3, 5)] if rng.random() < 0.6 else [rng.randint(2, 3), 3]
    shape = [K] + sp
    nd = len(sp)
    case = {"family": "fblock", "complex": cplx, "shape": shape, "ndims": nd}
    if i % 4 in (2, 3):
        case["reattach"] = {"nupd": 1 + (i // 4) % 2}
    wk = ["none", "uniform", "none", "pos"][i % 4]
    case["f"] = {"A": sumconv_spec(rng, shape, nd, cplx), "scale": rng.choice(SCALES), "wkind": wk}
    if i % 4 in (0, 1):
        add_history(rng, case, i + 2)
    case["blocks"] = [{"C": shift_invariant_block(rng, shape, nd, cplx, lead=K), "rho": rng.choice(RHOS)}
                      for _ in range(rng.randint(1, 3))]
    if i % 4 == 3:
        case["blocks"][0]["C"] = scaled_identity_spec(rng, cplx)
    return case


def gen_g0(rng, i=0):
    cplx = rng.random() < 0.3 or i % 4 == 2
    K = rng.randint(2, 3)
    sp = [rng.randint(3, 5)] if rng.random() < 0.6 else [rng.randint(2, 3), 3]
    shape = [K] + sp
    nd = len(sp)
    case = {"family": "g0", "complex": cplx, "shape": shape, "ndims": nd, "f": None,
            "fzero": rng.random() < 0.3}
    if i % 4 in (0, 3):
        case["reattach"] = {"nupd": 1 + (i // 4) % 2}
    gscale = 0.5 if i % 2 == 0 else rng.choice([0.25, 0.75, 1.0, 2.0])
    blocks = [{"C": sumconv_spec(rng, shape, nd, cplx), "rho": rng.choice(RHOS), "gscale": gscale}]
    blocks += [{"C": shift_invariant_block(rng, shape, nd, cplx, lead=K), "rho": rng.choice(RHOS)}
               for _ in range(rng.randint(1, 2))]
    if i % 4 == 2:
        blocks[1]["C"] = scaled_identity_spec(rng, cplx)
    case["blocks"] = blocks
    return case


GEN = {"matrix": gen_matrix, "circ": gen_circ, "fblock": gen_fblock, "g0": gen_g0}


def well_posed(case, L, Cs):
    """system (1) definite with cond <= COND_MAX; for the two block-circulant solvers also
    D = sum rho_i C_i^H C_i (the D^-1 of their documented Woodbury formula; all blocks for the
    F-solver, blocks 2.. for the G0-solver) definite with cond <= COND_MAX."""
    ev = np.linalg.eigvalsh((L + L.conj().T) / 2)
    if not (ev[0] > 1e-6 and ev[-1] / ev[0] <= COND_MAX):
        return False
    if case["family"] in ("fblock", "g0"):
        k0 = 1 if case["family"] == "g0" else 0
        n = L.shape[0]
        D = np.zeros((n, n), dtype=np.complex128)
        for b, M in list(zip(case["blocks"], Cs))[k0:]:
            D += b["rho"] * M.conj().T @ M
        evd = np.linalg.eigvalsh((D + D.conj().T) / 2)
        if not (evd[0] > 1e-6 and evd[-1] / evd[0] <= COND_MAX):
            return False
    case["cond"] = float(ev[-1] / ev[0])
    return True


def gen_case(rng, family, i=0):
    """A well-conditioned problem of the family (system (1) definite, cond <= COND_MAX): the
    numpy condition number only shapes the input stream, it is not an oracle."""
    for attempt in range(60):
        case = GEN[family](rng, i)
        gen_blocks_zu(rng, case)
        A, Cs = problem_matrices(case)
        L = dense_system(case, A, Cs)
        if well_posed(case, L, Cs):
            return case, A, Cs
        # make it definite: add an identity block (same data otherwise) and test again
        if family != "matrix" or all(b["C"]["kind"] != "MatrixOperator" for b in case["blocks"]):
            shape = tuple(case["shape"])
            case["blocks"].append({"C": {"kind": "Identity"}, "rho": rng.choice([1.0, 2.0, 3.0]),
                                   "z": rand_arr(rng, shape, case["complex"]),
                                   "u": rand_arr(rng, shape, case["complex"])})
            if case.get("reattach"):
                case["reattach"]["rho"].append(rng.choice([0.5, 1.5]))
                case["reattach"]["z"].append(rand_arr(rng, shape, case["complex"]))
                case["reattach"]["u"].append(rand_arr(rng, shape, case["complex"]))
            A, Cs = problem_matrices(case)
            L = dense_system(case, A, Cs)
            if well_posed(case, L, Cs):
                return case, A, Cs
    raise Broken("generator could not produce a well-conditioned problem", family)


# ------------------------------------------------------------------ Coq literals

def qpair(z):
    z = complex(z)
    return f"({qlit(z.real)}, {qlit(z.imag)})"


def vec_lit(v, cplx):
    v = np.asarray(v).ravel()
    if cplx:
        return "(cv " + coq_list([qpair(t) for t in v]) + ")"
    return "(rv " + coq_list([qlit(float(np.real(t))) for t in v]) + ")"


def mat_lit(M, cplx):
    if cplx:
        return "(cm " + coq_list([coq_list([qpair(t) for t in row]) for row in M]) + ")"
    return "(rm " + coq_list([coq_list([qlit(float(t.real)) for t in row]) for row in M]) + ")"


def qc(x):
    return f"(Q2Qc {qlit(x)})"


def problem_lit(case, A, Cs):
    cplx = case["complex"]
    n = int(np.prod(case["shape"]))
    if A is None:
        f = "None"
    else:
        fs = case["f"]
        m = A.shape[0]
        W = [1.0] * m if fs["W"] is None else fs["W"]
        y = np.array([complex(r, i) for r, i in fs["y"]])
        f = (f"(Some (mkdata {mat_lit(A, cplx)} (qv {coq_list([qlit(w) for w in W])}) "
             f"{vec_lit(y, cplx)} {qc(fs['scale'])}))")
    bl = []
    for b, M in zip(case["blocks"], Cs):
        z = np.array([complex(r, i) for r, i in b["z"]])
        u = np.array([complex(r, i) for r, i in b["u"]])
        bl.append(f"(mkblock {mat_lit(M, cplx)} {qc(b['rho'])} {vec_lit(z, cplx)} {vec_lit(u, cplx)})")
    return f"(mkprob {n}%nat {f} {coq_list(bl, ';' + chr(10) + '   ')})"


def finite(v):
    return v is not None and np.all(np.isfinite(np.asarray(v)))


def checks_for(case, results):
    """Coq checks for the solver results of one problem; returns (literals, meta) where
    meta[i] = (kind, result index, other index)."""
    cplx = case["complex"]
    lits, meta = [], []
    ok_for_agree = []
    for ri, r in enumerate(results):
        if "exc" in r:
            continue
        name = r["solver"]["name"]
        x = r["x"]
        if not finite(x):
            continue
        tol = SOLVER_TOL[name]
        if tol is not None:
            lits.append(f"ChkResid {vec_lit(x, cplx)} {qc(tol)}")
            meta.append(("resid", ri, None))
            ok_for_agree.append(ri)
        if r.get("acc") is not None and math.isfinite(r["acc"]):
            lits.append(f"ChkAcc {vec_lit(x, cplx)} {qc(r['acc'])} {qc(1e-9)} {qc(1e-6)}")
            meta.append(("acc", ri, None))
        if "rhs" in r and finite(r["rhs"]):
            lits.append(f"ChkRhs {vec_lit(r['rhs'], cplx)} {qc(1e-9)}")
            meta.append(("rhs", ri, None))
        if "lhs_probe" in r and finite(r["lhs_probe"]):
            probe = np.array([complex(a, b) for a, b in case["probe"]])
            lits.append(f"ChkLhs {vec_lit(probe, cplx)} {vec_lit(r['lhs_probe'], cplx)} {qc(1e-9)}")
            meta.append(("lhs", ri, None))
        if name in ("circ", "fblock"):
            lits.append(f"ChkResidNoW {vec_lit(x, cplx)} {qc(DIRECT_TOL)}")
            meta.append(("codemodel", ri, None))
        if name == "g0":
            lits.append(f"ChkResidRho1 {qc(2 * case['blocks'][0]['gscale'])} {vec_lit(x, cplx)} {qc(DIRECT_TOL)}")
            meta.append(("codemodel", ri, None))
        if "g0rhs" in r and finite(r["g0rhs"]):
            lits.append(f"ChkG0Rhs {qc(case['blocks'][0]['gscale'])} {vec_lit(r['g0rhs'], cplx)} {qc(1e-9)}")
            meta.append(("g0rhs", ri, None))
    # agreement: every solver against the first one that has an accuracy
    if ok_for_agree:
        r0 = ok_for_agree[0]
        for ri in ok_for_agree[1:]:
            t = SOLVER_TOL[results[r0]["solver"]["name"]] + SOLVER_TOL[results[ri]["solver"]["name"]]
            ktol = 2.0 * COND_MAX * t
            lits.append(f"ChkAgree {vec_lit(results[r0]['x'], cplx)} {vec_lit(results[ri]['x'], cplx)} {qc(ktol)}")
            meta.append(("agree", ri, r0))
    return lits, meta


def case_body(items):
    """items: list of (problem literal, check literals)"""
    cs = [f"({p},\n  {coq_list(ch, ';' + chr(10) + '   ')})" for p, ch in items]
    return ("Definition cases : list (problem * list check) := " + coq_list(cs, ";\n ") + ".\n"
            "Eval vm_compute in (bad_cases cases 0%nat).")


# ------------------------------------------------------------------ reporting

def slim(case, sspec, other=None):
    d = dict(case)
    d["solver"] = sspec
    if other is not None:
        d["other"] = other
    return d


def report(ctx, case, results, failing):
    """failing: list of (kind, ri, other)"""
    resid_bad = {ri for k, ri, _ in failing if k == "resid"}
    for k, ri, other in failing:
        r = results[ri]
        sspec = r["solver"]
        unit = UNIT[sspec["name"]]
        if k == "agree":
            if ri in resid_bad or other in resid_bad:
                continue  # consequence of a residual violation already reported
            ctx.violation(unit, WHAT["agree"], slim(case, sspec, results[other]["solver"]),
                          expected="unique solution of system (1) (C10_system_solution_unique)",
                          observed={"x": [str(t) for t in r["x"]], "x_other": [str(t) for t in results[other]["x"]]},
                          oracle="||x1-x2|| <= 2*cond*(tol1+tol2)*||x1||, decided in Coq")
            continue
        obs = {"x": [str(t) for t in r["x"]]}
        if k == "acc":
            obs["reported"] = r.get("acc")
        if k in ("rhs", "g0rhs"):
            obs["compute_rhs"] = [str(t) for t in r.get("rhs", r.get("g0rhs"))]
        if k == "lhs":
            obs["lhs_op(probe)"] = [str(t) for t in r["lhs_probe"]]
        ctx.violation(unit, WHAT[k], slim(case, sspec),
                      expected="system (1): (2a A^H W A + sum rho_i C_i^H C_i) x = 2a A^H W y + sum rho_i C_i^H (z_i-u_i)",
                      observed=obs, oracle="exact residual of system (1) evaluated in Coq (C10/Exec.v)")


def report_exceptions(ctx, case, results):
    for r in results:
        if "exc" in r:
            ctx.violation(UNIT[r["solver"]["name"]], WHAT["raises"], slim(case, r["solver"]),
                          expected="an x satisfying system (1)", observed=r["exc"],
                          oracle="problem is in the solver's documented class")
        elif not finite(r.get("x")):
            ctx.violation(UNIT[r["solver"]["name"]], WHAT["nonfinite"], slim(case, r["solver"]),
                          expected="an x satisfying system (1)", observed=[str(t) for t in r["x"]],
                          oracle="finite result")


# ------------------------------------------------------------------ run

def run(ctx: Ctx):
    import jax
    jax.config.update("jax_enable_x64", True)
    if not getattr(ctx, "no_proofs", False):
        ctx.proofs()
        # refuted full statements (witnesses by vm_compute); a file that stops compiling means the
        # finding no longer reproduces on the model -- reported as a note, never as a violation
        for fn in sorted((COQ / "Findings").glob("C10_*.v")):
            lk = _lock()
            try:
                coqc_file(fn, timeout=120)
                ctx.notes.append(f"refuted full statement still holds: Findings/{fn.name}")
            except Broken as b:
                ctx.notes.append(f"finding no longer reproduces: Findings/{fn.name}: {b.detail[-300:]}")
            finally:
                lk.close()
    ctx.trusted += [
        "C^n with Re<x,y> is an inner-product space and the conjugate transpose of a matrix is its adjoint "
        "(the executable instance C10/Exec.v of the abstract system (1) of C10/NormalEq.v)",
        "dense matrices of A, C_i obtained by applying the real operators to the canonical basis (snapped to the dyadic grid, deviation < 1e-9 enforced)",
        "Section hypotheses standing for library behaviour: JAX lu_solve/cho_solve invert the factorised G (Woodbury.v, SolverModels.v); "
        "one invertible linear transform F (the DFT) diagonalises every C_i^H C_i and A^H W A (Circulant.v); CG / scipy L-BFGS-B / jax CG "
        "are not modelled: their returned x is checked against system (1) on every case",
    ]
    ctx.assumptions += [
        "exact arithmetic in the model; IEEE rounding is not modelled: residual tolerances 1e-9 (direct), 2e-6 (CG tol 1e-6), 1e-5 (generic)",
        "generated problems have cond(lhs of system (1)) <= %g (numpy, input shaping only); for the two block-circulant "
        "solvers also D = sum rho_i C_i^H C_i invertible with the same bound (the D^-1 of their documented Woodbury formula)" % COND_MAX,
    ]
    plan = [("matrix", ctx.n(8, 64)), ("circ", ctx.n(5, 45)), ("fblock", ctx.n(4, 32)), ("g0", ctx.n(4, 32))]
    records = []
    for fam, cnt in plan:
        for i in range(cnt):
            case, A, Cs = gen_case(ctx.rng, fam, i)
            built = build_problem(case)
            results = [run_solver(case, s, built) for s in solvers_for(case, i if ctx.quick else None)]
            for r in results:
                key = {k: v for k, v in case.items() if k not in ("x0", "probe")}
                ctx.count(f"{fam}:{r['solver']['name']}" + ("-cho" if r["solver"].get("cho") else ""),
                          {"case": key, "solver": r["solver"]})
            report_exceptions(ctx, case, results)
            lits, meta = checks_for(case, results)
            if len(lits) >= 100:
                raise Broken("too many checks for one case")
            records.append((case, results, problem_lit(case, A, Cs), lits, meta))
    shard = 12
    bodies = [case_body([(p, l) for _, _, p, l, _ in records[s:s + shard]])
              for s in range(0, len(records), shard)]
    outs = coq_eval_shards("C10_sys", HEADER, bodies)
    nchecks = 0
    for si, o in enumerate(outs):
        bad = parse_eval_nat_list(o)
        per = {}
        for code in bad:
            per.setdefault(code // 100, []).append(code % 100)
        for ci_local, idxs in per.items():
            case, results, _, lits, meta = records[si * shard + ci_local]
            report(ctx, case, results, [meta[i] for i in idxs])
    for _, _, _, lits, _ in records:
        nchecks += len(lits)
    ctx.obligation(True, "correspondence: %d exact checks of system (1) in Coq on %d problems" % (nchecks, len(records)))
    ctx.notes.append("checks evaluated inside Coq: %d (residual, compute_rhs, lhs_op, accuracy, agreement)" % nchecks)


def replay(ctx: Ctx, rec):
    import jax
    jax.config.update("jax_enable_x64", True)
    inp = dict(rec["input"])
    sspec = inp.pop("solver")
    other = inp.pop("other", None)
    case = inp
    A, Cs = problem_matrices(case)
    specs = [sspec] + ([other] if other else [])
    results = [run_solver(case, s) for s in specs]
    if any("exc" in r or not finite(r.get("x")) for r in results):
        return False
    if other:
        results = [results[1], results[0]]
    lits, meta = checks_for(case, results)
    out = coq_eval_shards("C10_replay", HEADER, [case_body([(problem_lit(case, A, Cs), lits)])])[0]
    return parse_eval_nat_list(out) == []
