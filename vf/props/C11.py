"""C11 -- solver iterations follow the documented update equations.

Theorems: coq/Properties/C11.v (the definitions tools/py2coq.py regenerates from /repo equal the
class docstrings transcribed in coq/theories/C11/Spec_*.v).
Correspondence: real optimiser objects on exact problems (dyadic data; real / complex / block
variables; every option); the public state before a real step() (after 0-10 prior iterations),
the state after it, the state right after construction and the accessor values (arguments chosen
independently of the state) are written into Coq case files where [step_spec] / [init_spec] /
the documented accessor expressions are evaluated at the executable instance C11/Exec.v and
compared inside Coq (tolerance 2^-30 (1 + |value|): the implementation rounds, sqrt is
approximated to 2^-40 in the model).
"""
from __future__ import annotations

import subprocess
import sys
from fractions import Fraction

import numpy as np

from vf.common import Ctx, Broken, VERIF, coq_eval_shards, parse_eval_nat_list, coq_make, frac

HEADER = """From Coq Require Import List Bool ZArith QArith Qcanon.
From SV Require Import Base.Num C11.Overload C11.Exec C11.Check.
From SV Require C11.Spec_PGM.
From SVGen Require C11_Ladmm C11_Padmm C11_Nlpadmm C11_Pdhg C11_Pgm C11_Apgm C11_Admm.
Import ListNotations.
"""

UNITS = ["Functional", "LADMM", "PADMM", "NLPADMM", "PDHG", "PGM", "APGM", "ADMM"]
CLASSES = ["LADMM", "PADMM", "NLPADMM", "PDHG", "PGM", "APGM", "ADMM"]
NAMES = {"LADMM": "LinearizedADMM", "PADMM": "ProximalADMM", "NLPADMM": "NonLinearPADMM", "PDHG": "PDHG",
         "PGM": "PGM", "APGM": "AcceleratedPGM", "ADMM": "ADMM"}
COMP = {1: "x", 2: "second state component", 3: "third state component", 4: "fourth state component",
        5: "fifth state component", 11: "objective()", 12: "objective(args)", 13: "norm_primal_residual()",
        14: "norm_primal_residual(args)", 16: "norm_dual_residual()", 31: "initial x", 32: "initial state (2)",
        33: "initial state (3)", 34: "initial state (4)", 35: "initial state (5)", 36: "default B", 37: "default c"}
STATE_NAMES = {"LADMM": ["x", "z", "z_old", "u"], "PADMM": ["x", "z", "z_old", "u", "u_old"],
               "NLPADMM": ["x", "z", "z_old", "u", "u_old"], "PDHG": ["x", "x_old", "z", "z_old"],
               "PGM": ["x", "L", "fixed_point_residual"], "APGM": ["x", "v", "t", "L", "fixed_point_residual"],
               "ADMM": ["x", "z_list", "z_list_old", "u_list"]}


# ------------------------------------------------------------------ literals

def qc(x):
    f = frac(x)
    n = f"({f.numerator})" if f.numerator < 0 else str(f.numerator)
    return f"(q {n} {f.denominator})"


def vlit(xs):
    return "[" + "; ".join(qc(x) for x in xs) + "]"


def mlit(rows):
    return "[" + ";\n   ".join(vlit(r) for r in rows) + "]"


def olit(v):
    return "None" if v is None else f"(Some {v})"


def flat(v):
    """scico array / BlockArray / complex array -> flat list of Python floats (complex interleaved)."""
    from scico.numpy import BlockArray
    if isinstance(v, BlockArray):
        return [t for b in v for t in flat(b)]
    a = np.asarray(v)
    if np.iscomplexobj(a):
        out = []
        for t in a.ravel():
            out += [float(t.real), float(t.imag)]
        return out
    return [float(t) for t in a.ravel()]


def dy(rng, lo=-2, hi=2, bits=2):
    den = 1 << bits
    return rng.randint(lo * den, hi * den) / den


# ------------------------------------------------------------------ problem pieces

class Space:
    """A variable space: real n-vector, complex n-vector, or a two-block array."""

    def __init__(self, kind, n):
        self.kind, self.n = kind, n          # n: int, or (n1, n2) for blocks

    @property
    def dim(self):
        return sum(self.n) if self.kind == "block" else (2 * self.n if self.kind == "complex" else self.n)

    def make(self, vals):
        """flat real list (model layout) -> scico array"""
        import scico.numpy as snp
        if self.kind == "real":
            return snp.array(np.array(vals, dtype=np.float64))
        if self.kind == "complex":
            a = np.array(vals, dtype=np.float64).reshape(-1, 2)
            return snp.array(a[:, 0] + 1j * a[:, 1])
        n1 = self.n[0]
        return snp.blockarray([np.array(vals[:n1], dtype=np.float64), np.array(vals[n1:], dtype=np.float64)])

    def rand(self, rng, nonneg=False, scale=1.0):
        vals = [dy(rng) * scale for _ in range(self.dim)]
        if nonneg:
            vals = [abs(t) for t in vals]
        return self.make(vals)

    def real_dup(self, vals):
        """one real number per entry -> model layout (duplicated for complex)"""
        return [t for v in vals for t in ([v, v] if self.kind == "complex" else [v])]

    @property
    def entries(self):
        return sum(self.n) if self.kind == "block" else self.n

    @property
    def shape(self):
        return tuple((k,) for k in self.n) if self.kind == "block" else (self.n,)

    @property
    def dtype(self):
        return np.complex128 if self.kind == "complex" else np.float64


def make_linop(rng, X: Space, m=None, scale=1.0):
    """Linear operator on X with a dense model matrix.  Returns (scico op, output Space, rows)."""
    from scico import linop
    import scico.numpy as snp
    if X.kind == "block":
        if rng.random() < 0.3:
            d = [1.0] * X.entries
            op = linop.Identity(X.shape, input_dtype=np.float64)
        else:
            d = [dy(rng, -2, 2, 1) * scale or 0.5 for _ in range(X.entries)]
            op = linop.Diagonal(X.make(d))
        rows = [[d[i] if i == j else 0.0 for j in range(X.entries)] for i in range(X.entries)]
        return op, X, rows
    m = m or rng.randint(1, 3)
    if X.kind == "real":
        M = np.array([[dy(rng, -2, 2, 1) * scale for _ in range(X.n)] for _ in range(m)])
        return linop.MatrixOperator(snp.array(M)), Space("real", m), M.tolist()
    Mr = np.array([[dy(rng, -1, 1, 1) * scale for _ in range(X.n)] for _ in range(m)])
    Mi = np.array([[dy(rng, -1, 1, 1) * scale for _ in range(X.n)] for _ in range(m)])
    rows = []
    for i in range(m):
        r1, r2 = [], []
        for j in range(X.n):
            r1 += [Mr[i, j], -Mi[i, j]]
            r2 += [Mi[i, j], Mr[i, j]]
        rows += [r1, r2]
    return linop.MatrixOperator(snp.array(Mr + 1j * Mi)), Space("complex", m), rows


def fro2(rows):
    return sum(t * t for r in rows for t in r)


def pow2_at_least(v):
    p = 1.0
    while p < v:
        p *= 2
    return p


def ball_class():
    from scico import functional
    import scico.numpy as snp
    from scico.numpy.linalg import norm

    class BallProj(functional.Functional):
        """Indicator of the l2 ball with the exact projection as prox (harness-defined:
        scico's L2BallIndicator.prox is a C02 matter, not a C11 one)."""
        has_eval = True
        has_prox = True

        def __init__(self, r):
            self.r = r
            super().__init__()

        def __call__(self, x):
            return 0.0

        def prox(self, v, lam=1.0, **kwargs):
            n = norm(v)
            return snp.where(n <= self.r, 1.0, self.r / snp.where(n == 0, 1.0, n)) * v
    return BallProj


def make_func(rng, S: Space, kinds):
    """A functional on S among `kinds`; returns (scico functional, Coq fspec, kind)."""
    from scico import functional, linop, loss
    import scico.numpy as snp
    kinds = [k for k in kinds if not (k == "nonneg" and S.kind == "complex")]
    k = rng.choice(kinds)
    if k == "zero":
        return functional.ZeroFunctional(), "FZero", k
    if k == "sql2":
        c = rng.choice([0.25, 0.5, 1.0, 1.5])
        return c * functional.SquaredL2Norm(), f"(FSqL2 {qc(c)})", k
    if k == "l1":
        c = rng.choice([0.25, 0.5, 1.0])
        return c * functional.L1Norm(), f"({'FL1C' if S.kind == 'complex' else 'FL1'} {qc(c)})", k
    if k == "nonneg":
        return functional.NonNegativeIndicator(), "FNonNeg", k
    if k == "ball":
        r = rng.choice([0.5, 1.0, 2.0])
        return ball_class()(r), f"(FBall {qc(r)})", k
    if k == "lossD":
        a = rng.choice([0.5, 1.0, 0.25])
        d = [rng.choice([0.5, 1.0, 2.0, -1.0, 1.5]) for _ in range(S.entries)]
        y = S.rand(rng)
        dd = S.make(S.real_dup(d)) if S.kind != "complex" else snp.array(np.array(d, dtype=np.complex128))
        A = linop.Diagonal(dd)
        return loss.SquaredL2Loss(y=y, A=A, scale=a), f"(FLossD {qc(a)} {vlit(S.real_dup(d))} {vlit(flat(y))})", k
    if k == "lossM":
        a = rng.choice([0.5, 1.0])
        A, Y, rows = make_linop(rng, S)
        y = Y.rand(rng)
        f = loss.SquaredL2Loss(y=y, A=A, scale=a)
        f._vf_rows = rows
        return f, f"(FLossM {qc(a)} {mlit(rows)} {vlit(flat(y))})", k
    raise ValueError(k)


def pick_space(rng):
    r = rng.random()
    if r < 0.45:
        return Space("real", rng.randint(1, 4))
    if r < 0.75:
        return Space("complex", rng.randint(1, 3))
    return Space("block", (rng.randint(1, 3), rng.randint(1, 2)))


def arg_for(rng, S, kind):
    """accessor argument independent of the state (inside the domain of indicator functionals)"""
    if kind == "nonneg":
        return S.rand(rng, nonneg=True)
    if kind == "ball":
        return S.rand(rng, scale=0.125)
    return S.rand(rng)


def fl(x):
    return float(np.asarray(x))


def safe(rec, name, fn):
    """accessor value; an exception is recorded (and reported by classify) instead of crashing"""
    try:
        return fl(fn())
    except Exception as e:   # noqa: BLE001
        rec.setdefault("raised", {})[name] = type(e).__name__
        return 0.0


# ------------------------------------------------------------------ one case per class

def state_of(o, kind):
    out = {}
    for n in STATE_NAMES[kind]:
        v = getattr(o, n)
        if n.endswith("list") or n.endswith("list_old"):
            out[n] = [flat(t) for t in v]
        elif n in ("L", "t", "fixed_point_residual"):
            out[n] = fl(v)
        else:
            out[n] = flat(v)
    return out


def gen_case(rng, kind, force=None):
    """Build a real optimiser, run it, and return (coq term builder, record for reports)."""
    from scico import linop
    import scico.numpy as snp
    from scico.optimize import ADMM, LinearizedADMM, PDHG, PGM, AcceleratedPGM, ProximalADMM, NonLinearPADMM
    force = force or {}
    X = pick_space(rng)
    nprior = rng.randint(0, 10) if rng.random() < 0.8 else 0
    rec = {"class": kind, "space": X.kind, "n": X.n, "prior_iterations": nprior}
    use_x0 = rng.random() < 0.8
    x0 = X.rand(rng) if use_x0 else None

    def run(o):
        ini = state_of(o, kind)
        for _ in range(nprior):
            o.step()
        pre = state_of(o, kind)
        o.step()
        return ini, pre, state_of(o, kind)

    if kind == "LADMM":
        C, Zs, rows = make_linop(rng, X)
        f, fs, fk = make_func(rng, X, ["zero", "sql2", "lossD"])
        g, gs, gk = make_func(rng, Zs, ["l1", "sql2", "nonneg", "ball"])
        nu = rng.choice([0.5, 1.0, 2.0])
        mu = nu / pow2_at_least(max(fro2(rows), 0.25)) / rng.choice([1, 2])
        o = LinearizedADMM(f, g, C, mu, nu, x0=x0, maxiter=1)
        ini, pre, post = run(o)
        ax, az = arg_for(rng, X, fk), arg_for(rng, Zs, gk)
        acc = dict(obj0=fl(o.objective()), obj1=fl(o.objective(ax, az)), pr0=fl(o.norm_primal_residual()),
                   pr1=fl(o.norm_primal_residual(ax)), du=fl(o.norm_dual_residual()))
        rec.update(f=fk, g=gk, mu=mu, nu=nu, x0=None if x0 is None else flat(x0), ax=flat(ax), az=flat(az),
                   arg_differs_from_iterate=flat(ax) != post["x"], pre=pre, post=post, acc=acc, C=rows)

        def term(i):
            st = lambda s: f"(C11_Ladmm.mk_st {vlit(s['x'])} {vlit(s['z'])} {vlit(s['z_old'])} {vlit(s['u'])} F G CC {qc(mu)} {qc(nu)})"
            return (f"let F := mkF {fs} in let G := mkF {gs} in let CC := op_mat {mlit(rows)} in\n"
                    f"  LA.check {i} {olit(None if x0 is None else vlit(flat(x0)))} {st(ini)}\n   {st(pre)}\n   {st(post)}\n"
                    f"   {qc(acc['obj0'])} {vlit(flat(ax))} {vlit(flat(az))} {qc(acc['obj1'])} {qc(acc['pr0'])} {qc(acc['pr1'])} {qc(acc['du'])}")
        return term, rec

    if kind == "PADMM":
        A, Zs, rows = make_linop(rng, X)
        defB = rng.random() < 0.4
        defc = rng.random() < 0.5
        if defB:
            B, Brows = None, [[-1.0 if i == j else 0.0 for j in range(Zs.dim)] for i in range(Zs.dim)]
        else:
            B, Z2, Brows = make_linop(rng, Zs, m=(Zs.n if Zs.kind != "block" else None))
        c = None if defc else Zs.rand(rng)
        f, fs, fk = make_func(rng, X, ["zero", "sql2", "lossD"])
        g, gs, gk = make_func(rng, Zs, ["l1", "sql2", "nonneg", "ball"])
        rho = rng.choice([0.5, 1.0, 2.0])
        mu = pow2_at_least(max(fro2(rows), 0.5)) * rng.choice([1, 2])
        nu = pow2_at_least(max(fro2(Brows), 0.5)) * rng.choice([1, 2])
        fdr = rng.random() < 0.5
        z0 = Zs.rand(rng) if rng.random() < 0.6 else None
        u0 = Zs.rand(rng) if rng.random() < 0.6 else None
        o = ProximalADMM(f, g, A, rho, mu, nu, B=B, c=c, x0=x0, z0=z0, u0=u0, fast_dual_residual=fdr, maxiter=1)
        ini, pre, post = run(o)
        ax, az = arg_for(rng, X, fk), arg_for(rng, Zs, gk)
        acc = dict(obj0=fl(o.objective()), obj1=fl(o.objective(ax, az)), pr0=fl(o.norm_primal_residual()),
                   pr1=fl(o.norm_primal_residual(ax, az)), du=fl(o.norm_dual_residual()))
        cvec = [0.0] * Zs.dim if c is None else flat(c)
        rec.update(f=fk, g=gk, rho=rho, mu=mu, nu=nu, default_B=defB, default_c=defc, fast_dual_residual=fdr,
                   pre=pre, post=post, acc=acc, A=rows, B=Brows)

        def term(i):
            st = lambda s: (f"(C11_Padmm.mk_st {vlit(s['x'])} {vlit(s['z'])} {vlit(s['z_old'])} {vlit(s['u'])} {vlit(s['u_old'])} "
                            f"F G AA BB {vlit(cvec)} {qc(rho)} {qc(mu)} {qc(nu)} {str(fdr).lower()})")
            o_ = lambda v: olit(None if v is None else vlit(flat(v)))
            return (f"let F := mkF {fs} in let G := mkF {gs} in let AA := op_mat {mlit(rows)} in let BB := op_mat {mlit(Brows)} in\n"
                    f"  PA.check {i} {o_(x0)} {o_(z0)} {o_(u0)} {str(not defB).lower()} {str(not defc).lower()} {st(ini)}\n   {st(pre)}\n   {st(post)}\n"
                    f"   {qc(acc['obj0'])} {vlit(flat(ax))} {vlit(flat(az))} {qc(acc['obj1'])} {qc(acc['pr0'])} {qc(acc['pr1'])} {qc(acc['du'])}")
        return term, rec

    if kind == "NLPADMM":
        from scico.function import Function
        X = Space("real", rng.randint(1, 3))
        x0 = X.rand(rng) if use_x0 else None
        m = rng.randint(1, 3)
        Zs = Space("real", m)
        M = np.array([[dy(rng, -1, 1, 1) for _ in range(X.n)] for _ in range(m)])
        lin = rng.random() < 0.3
        d = [0.0] * X.n if lin else [rng.choice([0.0, 0.25, -0.25, 0.125]) for _ in range(X.n)]
        e = [0.0] * m if lin else [rng.choice([0.0, 0.25, -0.125]) for _ in range(m)]
        Mj, dj, ej = snp.array(M), snp.array(np.array(d)), snp.array(np.array(e))
        H = Function(((X.n,), (m,)), output_shape=(m,), eval_fn=lambda x, z: Mj @ (x + dj * x * x) - (z + ej * z * z),
                     input_dtypes=np.float64, output_dtype=np.float64)
        f, fs, fk = make_func(rng, X, ["zero", "sql2", "lossD"])
        g, gs, gk = make_func(rng, Zs, ["l1", "sql2", "nonneg", "ball"])
        rho = rng.choice([0.5, 1.0, 2.0])
        mu = pow2_at_least(4 * max(fro2(M.tolist()), 0.5))
        nu = rng.choice([4.0, 8.0])
        fdr = rng.random() < 0.5
        z0 = Zs.rand(rng, scale=0.5) if rng.random() < 0.7 else None
        u0 = Zs.rand(rng, scale=0.5) if rng.random() < 0.7 else None
        nprior_ = min(nprior, 5)
        o = NonLinearPADMM(f, g, H, rho, mu, nu, x0=x0, z0=z0, u0=u0, fast_dual_residual=fdr, maxiter=1)
        ini = state_of(o, kind)
        for _ in range(nprior_):
            o.step()
        pre = state_of(o, kind)
        o.step()
        post = state_of(o, kind)
        ax, az = arg_for(rng, X, fk), arg_for(rng, Zs, gk)
        acc = dict(obj0=fl(o.objective()), obj1=fl(o.objective(ax, az)), pr0=fl(o.norm_primal_residual()),
                   pr1=fl(o.norm_primal_residual(ax, az)), du=safe(rec, "norm_dual_residual", o.norm_dual_residual))
        rec.update(space="real", n=X.n, prior_iterations=nprior_, f=fk, g=gk, rho=rho, mu=mu, nu=nu, linear_H=lin,
                   fast_dual_residual=fdr, pre=pre, post=post, acc=acc)

        def term(i):
            st = lambda s: (f"(C11_Nlpadmm.mk_st {vlit(s['x'])} {vlit(s['z'])} {vlit(s['z_old'])} {vlit(s['u'])} {vlit(s['u_old'])} "
                            f"F G HH {qc(rho)} {qc(mu)} {qc(nu)} {str(fdr).lower()})")
            o_ = lambda v: olit(None if v is None else vlit(flat(v)))
            return (f"let F := mkF {fs} in let G := mkF {gs} in let HH := fun2_quad {mlit(M.tolist())} {vlit(d)} {vlit(e)} in\n"
                    f"  NL.check {i} {o_(x0)} {o_(z0)} {o_(u0)} {st(ini)}\n   {st(pre)}\n   {st(post)}\n"
                    f"   {qc(acc['obj0'])} {vlit(flat(ax))} {vlit(flat(az))} {qc(acc['obj1'])} {qc(acc['pr0'])} {qc(acc['pr1'])} {qc(acc['du'])}")
        return term, rec

    if kind == "PDHG":
        nonlin = rng.random() < 0.3
        if nonlin:
            from scico.operator import Operator
            X = Space("real", rng.randint(1, 3))
            x0 = X.rand(rng) if use_x0 else None
            m = rng.randint(1, 3)
            Zs = Space("real", m)
            M = np.array([[dy(rng, -1, 1, 1) for _ in range(X.n)] for _ in range(m)])
            d = [rng.choice([0.0, 0.25, -0.25, 0.125]) for _ in range(X.n)]
            Mj, dj = snp.array(M), snp.array(np.array(d))
            C = Operator(input_shape=(X.n,), output_shape=(m,), eval_fn=lambda x: Mj @ (x + dj * x * x),
                         input_dtype=np.float64, output_dtype=np.float64)
            rows = M.tolist()
            cs = f"op_quad {mlit(rows)} {vlit(d)}"
            bound = 4 * max(fro2(rows), 0.25)
        else:
            C, Zs, rows = make_linop(rng, X)
            cs = f"op_mat {mlit(rows)}"
            bound = max(fro2(rows), 0.25)
        f, fs, fk = make_func(rng, X, ["zero", "sql2", "lossD"])
        g, gs, gk = make_func(rng, Zs, ["l1", "sql2", "nonneg", "ball"])
        tau = rng.choice([0.25, 0.5, 1.0])
        sigma = 1.0 / pow2_at_least(bound * tau) / rng.choice([1, 2])
        alpha = rng.choice([0.0, 0.5, 1.0, 1.0])
        z0 = Zs.rand(rng) if rng.random() < 0.6 else None
        o = PDHG(f, g, C, tau, sigma, alpha=alpha, x0=x0, z0=z0, maxiter=1)
        if nonlin:
            nprior = min(nprior, 5)
        ini, pre, post = run(o)
        ax = arg_for(rng, X, fk)
        if gk in ("nonneg", "ball"):
            ax = X.make([0.0] * X.dim) if gk == "nonneg" else ax   # g(C x) must stay finite
        acc = dict(obj0=fl(o.objective()), obj1=fl(o.objective(ax)), pr0=fl(o.norm_primal_residual()),
                   du=fl(o.norm_dual_residual()))
        finite_obj = np.isfinite(acc["obj0"]) and np.isfinite(acc["obj1"])
        rec.update(space=X.kind, n=X.n, prior_iterations=nprior, f=fk, g=gk, tau=tau, sigma=sigma, alpha=alpha,
                   nonlinear_C=nonlin, pre=pre, post=post, acc=acc)

        def term(i):
            st = lambda s: (f"(C11_Pdhg.mk_st {vlit(s['x'])} {vlit(s['x_old'])} {vlit(s['z'])} {vlit(s['z_old'])} "
                            f"F G CC {qc(tau)} {qc(sigma)} {qc(alpha)})")
            o_ = lambda v: olit(None if v is None else vlit(flat(v)))
            # an infinite objective (indicator outside its domain) is not compared
            g0 = "G" if finite_obj else "(mkF FZero)"
            ob = (lambda v: qc(v)) if finite_obj else (lambda v: qc(0.0))
            stp = st(post) if finite_obj else st(post).replace(" F G CC", " (mkF FZero) (mkF FZero) CC")
            return (f"let F := mkF {fs} in let G := mkF {gs} in let CC := {cs} in\n"
                    f"  PD.check {i} {o_(x0)} {o_(z0)} {st(ini)}\n   {st(pre)}\n   {stp}\n"
                    f"   {ob(acc['obj0'])} {vlit(flat(ax))} {ob(acc['obj1'])} {qc(acc['pr0'])} {qc(acc['du'])}")
        return term, rec

    if kind in ("PGM", "APGM"):
        f, fs, fk = make_func(rng, X, ["sql2", "lossD", "lossM"])
        g, gs, gk = make_func(rng, X, ["l1", "sql2", "nonneg", "ball", "zero"])
        if fk == "lossM":
            K = 2 * f.scale * fro2(f._vf_rows)
        elif fk == "lossD":
            K = 2 * f.scale * 4.0
        else:
            K = 4.0
        L0 = pow2_at_least(max(K, 0.5)) * rng.choice([1, 2])
        x0 = X.rand(rng)
        cls = PGM if kind == "PGM" else AcceleratedPGM
        o = cls(f=f, g=g, L0=L0, x0=x0, maxiter=1)
        ini, pre, post = run(o)
        ax, ay = arg_for(rng, X, gk), X.rand(rng)
        aL = rng.choice([1.0, 2.0, 0.5])
        acc = dict(obj0=fl(o.objective()), obj1=fl(o.objective(ax)), res=fl(o.norm_residual()))
        if kind == "PGM":
            acc["quad"] = fl(o.f_quad_approx(ax, ay, aL))
        rec.update(f=fk, g=gk, L0=L0, pre=pre, post=post, acc=acc)

        def term(i):
            if kind == "PGM":
                st = lambda s: f"(C11_Pgm.mk_st {vlit(s['x'])} {qc(s['L'])} {qc(s['fixed_point_residual'] if np.isfinite(s['fixed_point_residual']) else 0.0)} F G Spec_PGM.fixed_policy)"
                return (f"let F := mkF {fs} in let G := mkF {gs} in\n  PG.check {i} {st(pre)}\n   {st(post)}\n"
                        f"   {qc(acc['obj0'])} {vlit(flat(ax))} {vlit(flat(ay))} {qc(aL)} {qc(acc['obj1'])} {qc(acc['quad'])} {qc(acc['res'])}")
            st = lambda s: (f"(C11_Apgm.mk_st {vlit(s['x'])} {vlit(s['v'])} {qc(s['t'])} {qc(s['L'])} "
                            f"{qc(s['fixed_point_residual'] if np.isfinite(s['fixed_point_residual']) else 0.0)} F G Spec_PGM.fixed_policy)")
            return (f"let F := mkF {fs} in let G := mkF {gs} in\n  AP.check {i} {vlit(flat(x0))} {st(ini)}\n   {st(pre)}\n   {st(post)}\n"
                    f"   {qc(acc['obj0'])} {vlit(flat(ax))} {qc(acc['obj1'])} {qc(acc['res'])}")
        return term, rec

    if kind == "ADMM":
        from scico.optimize.admm import LinearSubproblemSolver, MatrixSubproblemSolver, GenericSubproblemSolver
        N = rng.randint(1, 3)
        Cs, Zss, rowss, gs_, gss, gks = [], [], [], [], [], []
        for _ in range(N):
            C, Zs, rows = make_linop(rng, X)
            Cs.append(C), Zss.append(Zs), rowss.append(rows)
            g, gs, gk = make_func(rng, Zs, ["l1", "sql2", "nonneg", "ball"])
            gs_.append(g), gss.append(gs), gks.append(gk)
        solver = force.get("solver") or rng.choice(["linear", "matrix", "generic"])
        if X.kind == "block" and solver in ("matrix", "generic"):
            solver = "linear"
        if solver == "generic":
            f, fs, fk = make_func(rng, X, ["sql2", "lossD"])
            sp = GenericSubproblemSolver(minimize_kwargs={"options": {"maxiter": 200}})
            nprior = min(nprior, 2)
        else:
            f, fs, fk = make_func(rng, X, (["lossM"] if solver == "matrix" else ["lossD", "lossM"]) if X.kind != "block" else ["lossD"])
            sp = LinearSubproblemSolver(cg_kwargs={"tol": 1e-12, "maxiter": 200}) if solver == "linear" else MatrixSubproblemSolver()
        rho = [rng.choice([0.5, 1.0, 2.0]) for _ in range(N)]
        if fk == "lossM":
            # the x-sub-problem must have a unique minimiser: 2a A^T A + sum rho_i C_i^T C_i positive definite
            Am = np.array(f._vf_rows, dtype=float)
            Gm = 2 * f.scale * Am.T @ Am + sum(r * np.array(R, dtype=float).T @ np.array(R, dtype=float) for r, R in zip(rho, rowss))
            if np.linalg.eigvalsh(Gm).min() < 1e-2:
                return gen_case(rng, kind, force)
        alpha = rng.choice([1.0, 1.0, 1.5, 0.5, 1.75])
        o = ADMM(f=f, g_list=gs_, C_list=Cs, rho_list=rho, alpha=alpha, x0=x0, subproblem_solver=sp, maxiter=1)
        ini, pre, post = run(o)
        ax = arg_for(rng, X, fk)
        azl = [arg_for(rng, Zs, gk) for Zs, gk in zip(Zss, gks)]
        acc = dict(obj0=fl(o.objective()), obj1=fl(o.objective(ax, azl)), pr0=fl(o.norm_primal_residual()),
                   pr1=fl(o.norm_primal_residual(ax)), du=fl(o.norm_dual_residual()))
        rec.update(f=fk, g=gks, blocks=N, rho=rho, alpha=alpha, solver=solver, x0=None if x0 is None else flat(x0),
                   ax=flat(ax), arg_differs_from_iterate=flat(ax) != post["x"], pre=pre, post=post, acc=acc, C=rowss)

        def term(i):
            ll = lambda vs: "[" + "; ".join(vlit(v) for v in vs) + "]"
            st = lambda s, xs: (f"(C11_Admm.mk_st {vlit(s['x'])} {ll(s['z_list'])} {ll(s['z_list_old'])} {ll(s['u_list'])} F true GL CL "
                                f"{vlit(rho)} {qc(alpha)} (fun _ _ _ => {xs}))")
            return (f"let F := mkF {fs} in let GL := [{'; '.join('mkF ' + t for t in gss)}] in "
                    f"let CL := [{'; '.join('op_mat ' + mlit(r) for r in rowss)}] in\n"
                    f"  AD.check {i} {olit(None if x0 is None else vlit(flat(x0)))} {st(ini, '[]')}\n   {st(pre, vlit(post['x']))}\n   {st(post, '[]')}\n"
                    f"   {qc(acc['obj0'])} {vlit(flat(ax))} {ll([flat(t) for t in azl])} {qc(acc['obj1'])} {qc(acc['pr0'])} {qc(acc['pr1'])} {qc(acc['du'])}")
        return term, rec
    raise ValueError(kind)


# ------------------------------------------------------------------ evaluation

def slim(rec):
    """JSON-able replay record (inputs only)."""
    return {k: v for k, v in rec.items() if k not in ("pre", "post", "acc")} | {"acc": rec.get("acc")}


def eval_cases(name, cases, header=None, extra=()):
    """cases: list of (term builder, rec).  Returns {index: [failing components]}."""
    import vf.common as vc
    header = header or HEADER
    saved = list(vc.COQFLAGS)
    vc.COQFLAGS[:] = saved + list(extra)
    shard = 40
    bodies = []
    for s in range(0, len(cases), shard):
        defs, names = [], []
        for j, (term, rec) in enumerate(cases[s:s + shard]):
            defs.append(f"Definition c{j} :=\n  {term(j)}.")
            names.append(f"c{j}")
        bodies.append("\n".join(defs) + "\nEval vm_compute in (" + " ++ ".join(names) + " ++ [] : list nat).")
    try:
        outs = coq_eval_shards(name, header, bodies)
    finally:
        vc.COQFLAGS[:] = saved
    res = {}
    for si, o in enumerate(outs):
        for code in parse_eval_nat_list(o):
            res.setdefault(si * shard + code // 100, []).append(code % 100)
    return res


def classify(ctx, kind, rec, comps, seedinfo):
    """Turn failing components of one case into violations (known findings are matched on
    `what` and on the recorded input)."""
    comps = set(comps)
    cname = NAMES[kind]
    inp = slim(rec) | seedinfo
    for acc_name, exc in rec.get("raised", {}).items():
        comps.discard({"norm_dual_residual": 16, "norm_primal_residual": 13, "objective": 11}.get(acc_name, 0))
        ctx.violation(f"{cname}.{acc_name}", f"{acc_name}() raises {exc} instead of returning the documented value",
                      inp, expected="the documented expression of the current state", observed=f"{exc} raised",
                      oracle="accessor call on the real optimiser object")
    # argument of norm_primal_residual: 14 = vs documented expression, 15 = vs value at the iterate
    if 14 in comps and kind in ("LADMM", "ADMM"):
        comps.discard(14)
        ignored = 15 not in comps
        ctx.violation(f"{cname}.norm_primal_residual",
                      "norm_primal_residual(x) is not the documented residual at the supplied x",
                      inp | {"agrees_with": "residual at the current iterate self.x (argument ignored)" if ignored else None},
                      expected="|| C x - z || at the argument x", observed=rec["acc"]["pr1"],
                      oracle="Spec primal_residual_doc evaluated by vm_compute")
    comps.discard(15)
    if 16 in comps and kind == "LADMM":
        comps.discard(16)
        alt = 17 not in comps
        ctx.violation(f"{cname}.norm_dual_residual",
                      "norm_dual_residual() is not the documented || z - z_old ||",
                      inp | {"agrees_with": "|| C^H (z - z_old) ||" if alt else None},
                      expected="|| z - z_old ||", observed=rec["acc"]["du"],
                      oracle="Spec_LADMM.dual_residual_doc evaluated by vm_compute")
    comps.discard(17)
    if comps:
        first = min(comps)
        names = STATE_NAMES[kind]
        label = names[first - 1] if 1 <= first <= len(names) else (
            "initial " + names[first - 31] if 31 <= first < 31 + len(names) else COMP.get(first, str(first)))
        where = "step()" if first < 10 else ("accessor" if first < 30 else "__init__")
        ctx.violation(f"{cname}.{'step' if first < 10 else ('__init__' if first >= 30 else 'accessors')}",
                      f"{where}: {label} differs from the documented expression",
                      inp | {"components": sorted(comps)}, expected="Spec_* evaluated at the same state (vm_compute)",
                      observed={"post": rec.get("post"), "acc": rec.get("acc")}, oracle="first differing state component / accessor value")


# class -> (generated modules, spec module, module of Check.v)
PARTS = {"LADMM": (["C11_Ladmm"], "Spec_LADMM", "LA"), "PADMM": (["C11_Padmm"], "Spec_PADMM", "PA"),
         "NLPADMM": (["C11_Nlpadmm"], "Spec_NLPADMM", "NL"), "PDHG": (["C11_Functional", "C11_Pdhg"], "Spec_PDHG", "PD"),
         "PGM": (["C11_Pgm", "C11_Apgm"], "Spec_PGM", "PG"), "APGM": (["C11_Pgm", "C11_Apgm"], "Spec_PGM", "AP"),
         "ADMM": (["C11_Admm"], "Spec_ADMM", "AD")}


def build_fallback():
    """The theorem files (or some generated unit) no longer compile: build definition-only copies
    of Spec_*.v / Check.v under build/C11/specdef (logical path SVX), restricted to the classes
    whose generated module still compiles, so that the documented equations can still be
    evaluated against the implementation and a concrete failing input found.
    Returns (case-file header, directory, classes without an executable model)."""
    import re
    from vf.common import COQ, BUILD, COQFLAGS
    d = BUILD / "C11" / "specdef"
    d.mkdir(parents=True, exist_ok=True)
    coq_make(["theories/C11/Exec.vo", "theories/C11/SpecBase.vo"])
    bad = set()
    for kind, (gens, spec, mod) in PARTS.items():
        try:
            coq_make([f"gen/{g}.vo" for g in gens])
        except Broken:
            bad.add(kind)
    good = [k for k in PARTS if k not in bad]
    if not good:
        raise Broken("no generated unit compiles")
    dead_gen = {g for k in bad for g in PARTS[k][0]} - {g for k in good for g in PARTS[k][0]}
    dead_spec = {PARTS[k][1] for k in bad} - {PARTS[k][1] for k in good}

    def strip_imports(txt):
        for g in dead_gen:
            txt = re.sub(r"\b" + g + r"\b ?", "", txt)
        for sp in dead_spec:
            txt = re.sub(r"\b(C11\.)?" + sp + r"\b ?", "", txt)
        return txt
    names = sorted({PARTS[k][1] for k in good}) + ["Check"]
    for n in names:
        txt = (COQ / "theories" / "C11" / f"{n}.v").read_text()
        txt = re.sub(r"^[ \t]*(Theorem|Corollary|Lemma)\b.*?\bQed\.", "", txt, flags=re.S | re.M)
        if n == "Check":
            for k in bad:
                txt = re.sub(r"^Module " + PARTS[k][2] + r"\..*?^End " + PARTS[k][2] + r"\.", "", txt, flags=re.S | re.M)
        txt = strip_imports(txt)
        txt = re.sub(r"From SV Require (Import )?C11\.Spec_\w+( C11\.Spec_\w+)*\.",
                     lambda m: "From SVX Require " + (m.group(1) or "") + " ".join(
                         w.replace("C11.", "") for w in m.group(0).split()[3 if not m.group(1) else 4:]), txt)
        (d / f"{n}.v").write_text(txt)
    for n in names:
        p = subprocess.run(["timeout", "600", "coqc"] + COQFLAGS + ["-Q", str(d), "SVX", str(d / f"{n}.v")],
                           capture_output=True, text=True, cwd=d)
        if p.returncode != 0:
            raise Broken("definition-only copy of " + n + " does not compile", (p.stdout + p.stderr)[-2000:])
    hdr = strip_imports(HEADER).replace("C11.Check", "C11.Exec")
    hdr = hdr.replace("From SV Require .\n", "")
    hdr = re.sub(r"From SV Require\s*\.\n", "", hdr)
    hdr += "From SVX Require " + ("Spec_PGM " if "Spec_PGM" not in dead_spec else "") + "Check.\nImport Check.\n"
    return hdr, d, bad


def run_py2coq(ctx):
    p = subprocess.run([sys.executable, str(VERIF / "tools" / "py2coq.py")] + sum([["--unit", u] for u in UNITS], []),
                       capture_output=True, text=True)
    ctx.obligation(p.returncode == 0, "py2coq translates every optimiser unit (fail-closed)", p.stderr[-1500:])
    return p.returncode == 0


def run(ctx: Ctx):
    run_py2coq(ctx)
    ctx.trusted += ["tools/py2coq.py (syntax-directed, fail-closed) and its primitive table: operator call / adjoint spellings, "
                    "f.prox / f.grad / conj_prox, norm, snp.sum(real(conj a * b)) = Re<a,b>, snp.zeros = 0, zip/enumerate "
                    "loops writing list items at the loop index, static specialisation of Optional arguments",
                    "the hand transcription of the class docstrings into coq/theories/C11/Spec_*.v",
                    "executable instance coq/theories/C11/Exec.v (dense matrices, closed-form proxes, sqrt to 2^-40)"]
    ctx.assumptions += ["exact arithmetic in the model; comparison with the float64 implementation up to 2^-30 (1 + |value|)",
                        "prox / grad / x-update sub-problem solver / jvp / vjp are oracles of the generic theorems; the "
                        "ADMM x-update of the correspondence is the implementation's own result",
                        "PGM step-size policies other than the fixed one are a pure record here (C16 covers them)"]
    if not getattr(ctx, "no_proofs", False):
        ctx.proofs()
        try:
            coq_make(["Findings/C11_ladmm_dual_residual.vo"])
        except Broken as b:
            ctx.notes.append("finding no longer reproduces in the generated model (Findings/C11_ladmm_dual_residual.v): " + b.what)
    header, extra, nomodel = HEADER, [], set()
    try:
        coq_make(["theories/C11/Check.vo"])
    except Broken as b:
        try:
            header, dd, nomodel = build_fallback()
            extra = ["-Q", str(dd), "SVX"]
            ctx.notes.append("theorem files broken; searching with definition-only copies of the specifications"
                             + (f" (no executable model for {sorted(nomodel)}: their generated unit does not compile; "
                                "only exceptions raised by their accessors are reported)" if nomodel else ""))
        except Broken as b2:
            ctx.obligation(False, "executable model C11/Check.v builds against the regenerated definitions", b.detail + b2.detail)
            return
    per = ctx.n(22, 260)
    seedinfo = {"seed": ctx.seed, "tier": ctx.tier}
    for kind in CLASSES:
        cases = []
        st = ctx.rng.getstate()
        for i in range(per):
            sub = ctx.rng.randrange(1 << 30)
            import random
            term, rec = gen_case(random.Random(sub), kind)
            rec["case_seed"] = sub
            cases.append((term, rec))
            ctx.count(f"{kind}-{rec['space']}", {k: rec[k] for k in rec if k not in ("pre", "post", "acc")})
        bad = {} if kind in nomodel else eval_cases("C11_" + kind, cases, header, extra)
        for idx in range(len(cases)):
            if idx in bad or cases[idx][1].get("raised"):
                classify(ctx, kind, cases[idx][1], bad.get(idx, []), seedinfo)
    ctx.traces = ctx.evaluations


def replay(ctx: Ctx, rec):
    import random
    inp = rec["input"]
    kind = inp["class"]
    term, r2 = gen_case(random.Random(inp["case_seed"]), kind)
    coq_make(["theories/C11/Check.vo"])
    bad = eval_cases("C11_replay", [(term, r2)])
    comps = set(bad.get(0, []))
    unit = rec["unit"]
    if unit.endswith("norm_primal_residual"):
        return 14 not in comps
    if r2.get("raised"):
        return not any(unit.endswith(k) for k in r2["raised"])
    if unit.endswith("norm_dual_residual"):
        return 16 not in comps
    return not (comps - {14, 15, 16, 17})
