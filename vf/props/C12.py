"""C12 -- declared shapes and dtypes match actual behaviour; bad inputs are rejected.

Theorems: coq/Properties/C12.v (models coq/theories/C12/{Slice,Shape,Expr,ExprSpec}.v).
Streams (all generated from ctx.rng):
  (a) slice lattice: slice_length vs len(range(*slice.indices(n))) vs the Coq models;
  (b) indexed_shape vs NumPy basic indexing vs the Coq models;
  (c) collapse_shapes / is_collapsible / is_blockable / broadcast_nested_shapes / shape_to_size;
  (d) operator expression trees over modelled leaves: declared metadata, sizes, result of
      __call__ and adj on conforming inputs -- implementation vs Coq model (`build`) vs the
      documented calculus (`spec`); the declared-vs-actual comparison on the implementation is
      the property oracle;
  (e) class sweep: every operator class of scico.linop / scico.operator that can be built
      offline x dtype x unary derived forms, oracle only (declared vs actual);
  (f) malformed inputs (wrong rank, size-1 axes, wrong dtype to adj, wrong block count,
      mismatched compositions / sums) must raise.
"""
from __future__ import annotations

import itertools
import json
from math import prod

import numpy as np

from vf.common import Ctx, Broken, coq_eval_shards, parse_eval_nat_list, zlit, coq_list

HEADER = """From Coq Require Import List Bool ZArith.
From SV Require Import C12.Slice C12.Shape C12.Expr C12.ExprSpec C12.Corr.
Import ListNotations.
Open Scope Z_scope.
"""

DT = {"float32": "F32", "float64": "F64", "complex64": "C64", "complex128": "C128"}
DTS = ["float32", "float64", "complex64", "complex128"]


def dtn(d):
    return np.dtype(d).name


def dt_join(a, b):
    return np.result_type(np.dtype(a), np.dtype(b)).name


# ------------------------------------------------------------------ Coq literals

def c_shape(s):
    return coq_list([zlit(int(d)) for d in s])


def is_nested(s):
    return isinstance(s, (list, tuple)) and any(isinstance(t, (list, tuple)) for t in s)


def c_nshape(s):
    if is_nested(s):
        return "(Block " + coq_list([c_shape(t) for t in s]) + ")"
    return "(Plain " + c_shape(s) + ")"


def c_opt(x, f):
    return "None" if x is None else f"(Some {f(x)})"


def c_av(a):
    return f"({c_nshape(a[0])}, {DT[a[1]]})"


def c_bool(b):
    return "true" if b else "false"


def canon_shape(s):
    """tuple (possibly nested, possibly of jax scalars) -> nested lists of ints"""
    if isinstance(s, (list, tuple)):
        return [canon_shape(t) for t in s]
    return int(s)


# ------------------------------------------------------------------ (a) slices

def c_oz(v):
    return "None" if v is None else f"(Some {zlit(v)})"


def c_slice(sl):
    return f"(mkslice {c_oz(sl[0])} {c_oz(sl[1])} {c_oz(sl[2])})"


def slice_cases(ctx):
    ns = range(0, ctx.n(6, 9))
    vals = [None, -9, -3, -2, -1, 0, 1, 2, 3, 9] if ctx.quick else [None] + list(range(-10, 11))
    steps = [None, 1, 2, 3, -1, -2, -3]
    allc = [(n, a, b, k) for n in ns for a in vals for b in vals for k in steps]
    if ctx.quick:
        allc = ctx.rng.sample(allc, 1500)
    return allc


def run_slices(ctx):
    from scico.numpy.util import slice_length
    cases = slice_cases(ctx)
    items, meta = [], []
    for n, a, b, k in cases:
        sl = slice(a, b, k)
        ind = sl.indices(n)
        elems = list(range(n))[sl]
        truth = len(range(*ind))
        assert truth == len(elems)
        try:
            r = slice_length(n, sl)
            impl = (2, int(r))
        except ValueError:
            impl = (0, 0)
        case = {"n": n, "start": a, "stop": b, "step": k}
        ctx.count("slice_length", case, nontrivial=n >= 1)
        if impl != (2, truth):
            ctx.violation("slice_length", "slice_length differs from the length of the sliced axis"
                          + (" (negative step)" if (k or 1) < 0 else ""),
                          case, expected=truth, observed=impl[1] if impl[0] == 2 else "ValueError",
                          oracle="len(range(*slice(start, stop, step).indices(n))) = slice_len_spec (C12_slice_len_counts_elements)")
        items.append(f"({zlit(n)}, {c_slice((a, b, k))}, ({zlit(ind[0])}, {zlit(ind[1])}, {zlit(ind[2])}), "
                     f"{zlit(truth)}, {c_shape(elems)}, ({impl[0]}, {zlit(impl[1])}))")
        meta.append(case)
    # integer / Ellipsis indices
    for n in range(0, 5):
        for k in list(range(-6, 7)) + [Ellipsis]:
            try:
                r = slice_length(n, k)
                got = "None" if r is None else int(r)
            except ValueError:
                got = "ValueError"
            if k is Ellipsis:
                want = n
            else:
                want = "None" if -n <= k < n else "ValueError"
            ctx.count("slice_length-int", {"n": n, "idx": str(k)})
            if got != want:
                ctx.violation("slice_length", "integer/Ellipsis index handled wrongly",
                              {"n": n, "idx": str(k)}, expected=want, observed=got, oracle="NumPy integer indexing bounds")
    run_coded(ctx, "C12_slice", "slice_code", items, meta,
              {1: "slice_indices model differs from Python", 2: "range_len model differs from Python",
               4: "enumerated slice elements differ from Python", 8: "slice_length model differs from the implementation"},
              model_bits=15, ty="Z * pslice * (Z * Z * Z) * Z * list Z * (Z * Z)")


def run_coded(ctx, name, fn, items, meta, bitnames, model_bits, shard=300, ty=None):
    """Evaluate `map fn cases` in Coq; every set bit in model_bits is a broken correspondence
    (model misreads the code); returns the list of codes."""
    bodies = []
    for s in range(0, len(items), shard):
        bodies.append("Definition cases" + (f" : list ({ty})" if ty else "") + " := "
                      + coq_list(items[s:s + shard], ";\n ") + ".\n"
                      f"Eval vm_compute in (map {fn} cases).")
    outs = coq_eval_shards(name, HEADER, bodies) if bodies else []
    codes = []
    for o in outs:
        codes += parse_eval_nat_list(o)
    if len(codes) != len(items):
        raise Broken(f"{name}: {len(codes)} codes for {len(items)} cases")
    bad = {}
    for i, c in enumerate(codes):
        for b, nm in bitnames.items():
            if c & b & model_bits:
                bad.setdefault(nm, []).append(meta[i])
    for nm, l in bad.items():
        ctx.obligation(False, f"correspondence {name}: {nm} ({len(l)} cases)", json.dumps(l[:4], default=str))
    if not bad:
        ctx.obligation(True, f"correspondence {name}")
    return codes


# ------------------------------------------------------------------ (b) indexed_shape

def c_aidx(a):
    if a is Ellipsis or a == "...":
        return "IEll"
    if a is None:
        return "INew"
    if isinstance(a, int):
        return f"(IInt {zlit(a)})"
    return f"(ISlice {c_slice(a)})"


def py_idx(a):
    if a == "...":
        return Ellipsis
    if isinstance(a, list):
        return slice(*a)
    return a


def gen_index_case(rng, full):
    rank = rng.randint(1, 3)
    shp = [rng.choice([0, 1, 2, 3, 5]) if rng.random() < 0.3 else rng.choice([2, 3, 4, 5]) for _ in range(rank)]
    ln = rng.randint(1, rank + (2 if full else 0))
    idx = []
    for _ in range(ln):
        r = rng.random()
        if full and r < 0.12:
            idx.append("...")
        elif full and r < 0.24:
            idx.append(None)
        elif r < 0.45:
            idx.append(rng.randint(-6, 5) if rng.random() < 0.3 else rng.randint(-2, 1))
        else:
            st = rng.choice([None, 1, 1, 2, 3, -1, -2]) if full else rng.choice([None, 1, 2, 3])
            idx.append([rng.choice([None, 0, 1, 2, -1, -2, 7, -7]), rng.choice([None, 0, 1, 3, -1, -2, 7, -7]), st])
    return shp, idx


def index_what(shp, idx, numpy_res, impl_res):
    if numpy_res is not None and impl_res is None:
        return "indexed_shape raises on an index expression NumPy accepts (newaxis / Ellipsis bookkeeping)"
    if numpy_res is None:
        return "indexed_shape accepts an index expression NumPy rejects"
    return "indexed_shape differs from NumPy indexing (newaxis / Ellipsis bookkeeping)"


def eval_index(shp, idx):
    from scico.numpy.util import indexed_shape
    t = tuple(py_idx(a) for a in idx)
    try:
        npres = [int(d) for d in np.empty(tuple(shp))[t].shape]
    except IndexError:
        npres = None
    try:
        impl = [int(d) for d in indexed_shape(tuple(shp), t)]
    except (ValueError, IndexError, TypeError):
        impl = None
    return npres, impl


def run_index(ctx):
    N = ctx.n(700, 8000)
    items, meta = [], []
    for i in range(N):
        shp, idx = gen_index_case(ctx.rng, full=i % 3 != 0)
        npres, impl = eval_index(shp, idx)
        case = {"shape": shp, "idx": idx}
        ctx.count("indexed_shape", case)
        if npres != impl:
            ctx.violation("indexed_shape", index_what(shp, idx, npres, impl), case,
                          expected=npres if npres is not None else "IndexError", observed=impl if impl is not None else "exception",
                          oracle="shape of numpy.empty(shape)[idx] = np_index_shape")
        items.append(f"({c_shape(shp)}, {coq_list([c_aidx(a) if not isinstance(a, list) else c_aidx(tuple(a)) for a in idx])}, "
                     f"{c_opt(impl, c_shape)}, {c_opt(npres, c_shape)})")
        meta.append(case)
    run_coded(ctx, "C12_index", "index_code", items, meta,
              {1: "indexed_shape model differs from the implementation", 2: "np_index_shape model differs from NumPy"},
              model_bits=3, ty="shape * list aidx * option shape * option shape")


# ------------------------------------------------------------------ (c) shape calculus

def rand_shape(rng, maxrank=3):
    return [rng.choice([1, 2, 3, 5]) for _ in range(rng.randint(0, maxrank))]


def run_shapes(ctx):
    from scico.operator._stack import collapse_shapes, is_collapsible, is_blockable
    from scico.numpy.util import broadcast_nested_shapes, shape_to_size
    N = ctx.n(300, 3000)
    items, meta = [], []
    for _ in range(N):
        rng = ctx.rng
        k = rng.randint(1, 3)
        base = rand_shape(rng) or [2]
        shapes = []
        for _ in range(k):
            r = rng.random()
            if r < 0.5:
                shapes.append(list(base))
            elif r < 0.85:
                shapes.append(rand_shape(rng) or [3])
            else:
                shapes.append([rand_shape(rng) or [1], rand_shape(rng) or [2]])
        allow = rng.random() < 0.6
        tup = tuple(tuple(tuple(t) if isinstance(t, list) else t for t in s) for s in shapes)
        try:
            r, was = collapse_shapes(tup, allow)
            r = canon_shape(r)
            # a collapsed nested shape (N, (..), (..)) is not a usable shape: shape_to_size raises
            try:
                shape_to_size(tuple(tuple(t) if isinstance(t, list) else t for t in r))
                impl = (r, bool(was))
            except TypeError:
                impl = None
        except ValueError:
            impl = None
        case = {"shapes": shapes, "allow": allow}
        ctx.count("collapse_shapes", case)
        coll, blk = bool(is_collapsible(tup)), bool(is_blockable(tup))
        # documented rule (docstrings of _stack.py)
        want_coll = all(s == shapes[0] for s in shapes)
        want_blk = not any(is_nested(s) for s in shapes)
        if coll != want_coll or blk != want_blk:
            ctx.violation("collapse_shapes", "is_collapsible / is_blockable differ from the documented rule", case,
                          expected=[want_coll, want_blk], observed=[coll, blk], oracle="collapse_shapes_plain")
        items.append(f"({coq_list([c_nshape(s) for s in shapes])}, {c_bool(allow)}, "
                     + c_opt(impl, lambda t: f"({c_nshape(t[0])}, {c_bool(t[1])})") + f", {c_bool(coll)}, {c_bool(blk)})")
        meta.append(case)
    run_coded(ctx, "C12_collapse", "collapse_code", items, meta,
              {1: "collapse_shapes model differs", 2: "is_collapsible model differs", 4: "is_blockable model differs"}, model_bits=7, ty="list nshape * bool * option (nshape * bool) * bool * bool")
    items, meta = [], []
    for _ in range(N):
        rng = ctx.rng

        def rs():
            s = rand_shape(rng)
            return [1 if rng.random() < 0.3 else d for d in s]
        a = rs() if rng.random() < 0.7 else [rs(), rs()]
        b = rs() if rng.random() < 0.7 else [rs(), rs()]
        if rng.random() < 0.4 and not is_nested(a) and not is_nested(b):
            b = a[len(a) - rng.randint(0, len(a)):] if a else b
        ta = tuple(tuple(t) if isinstance(t, list) else t for t in a)
        tb = tuple(tuple(t) if isinstance(t, list) else t for t in b)
        try:
            impl = canon_shape(broadcast_nested_shapes(ta, tb))
        except (ValueError, TypeError):
            impl = None
        # oracle: NumPy broadcasting of real arrays, block-wise
        def npb(x, y):
            try:
                return [int(d) for d in np.broadcast_shapes(tuple(x), tuple(y))]
            except ValueError:
                return None
        if not is_nested(a) and not is_nested(b):
            want = npb(a, b)
        elif is_nested(a) and not is_nested(b):
            want = [npb(x, b) for x in a]
        elif not is_nested(a):
            want = [npb(a, y) for y in b]
        else:
            want = [npb(x, y) for x, y in zip(a, b)]
        if isinstance(want, list) and any(w is None for w in want):
            want = None
        sa, sb = int(shape_to_size(ta)), int(shape_to_size(tb))
        wa = sum(prod(t) for t in a) if is_nested(a) else prod(a)
        wb = sum(prod(t) for t in b) if is_nested(b) else prod(b)
        case = {"a": a, "b": b}
        ctx.count("broadcast/size", case)
        if impl != want:
            ctx.violation("broadcast_nested_shapes", "differs from NumPy broadcasting", case, expected=want, observed=impl,
                          oracle="numpy.broadcast_shapes block-wise")
        if (sa, sb) != (wa, wb):
            ctx.violation("shape_to_size", "size is not the element count", case, expected=[wa, wb], observed=[sa, sb],
                          oracle="product / sum of products")
        items.append(f"({c_nshape(a)}, {c_nshape(b)}, {c_opt(impl, c_nshape)}, {zlit(sa)}, {zlit(sb)})")
        meta.append(case)
    run_coded(ctx, "C12_bcast", "bcast_code", items, meta,
              {1: "broadcast_nested model differs", 2: "size model differs"}, model_bits=3, ty="nshape * nshape * option nshape * Z * Z")


# ------------------------------------------------------------------ (d) operator expressions

SCALS = {"r": (2.0, "SWeakR"), "c": (2j, "SWeakC"), "np32": (np.float32(2), "(STyped F32)"),
         "np64": (np.float64(2), "(STyped F64)"), "npc64": (np.complex64(2j), "(STyped C64)"),
         "npc128": (np.complex128(2j), "(STyped C128)")}

EVK = {  # eval kind of generic leaves -> (python fn, Coq fkind)
    "scale2": (lambda x: x * 2.0, "(FPromote F32)"),
    "cplx": (lambda x: x * (1 + 1j), "(FPromote C64)"),
    "arr64": (lambda x: x * np.float64(3.0), "(FPromote F64)"),
    "arrc128": (lambda x: x * np.complex128(1 + 1j), "(FPromote C128)"),
    "abs": (None, "FReal"),
}


def tup(s):
    return tuple(tuple(t) if isinstance(t, list) else t for t in s)


def realize(t):
    """JSON tree -> scico operator (raises what the constructors raise)."""
    import scico.numpy as snp
    from scico import linop, operator
    k = t[0]
    if k == "L":
        _, lin, evk, ish, red, dt = t
        f = EVK[evk][0] if evk != "abs" else (lambda x: snp.abs(x))
        g = (lambda x: snp.sum(f(x), axis=0)) if red else f
        cls = linop.LinearOperator if lin else operator.Operator
        return cls(input_shape=tup(ish), eval_fn=g, input_dtype=np.dtype(dt).type)
    if k == "Diag":
        _, dsh, ddt, ish, idt = t
        d = snp.ones(tup(dsh), dtype=np.dtype(ddt).type)
        kw = {}
        if ish is not None:
            kw["input_shape"] = tup(ish)
        if idt is not None:
            kw["input_dtype"] = np.dtype(idt).type
        return linop.Diagonal(d, **kw)
    if k == "SId":
        return linop.ScaledIdentity(SCALS[t[1]][0], tup(t[2]), input_dtype=np.dtype(t[3]).type)
    if k == "Id":
        return linop.Identity(tup(t[1]), input_dtype=np.dtype(t[2]).type)
    if k == "Mat":
        _, r, c, cols, adt = t
        return linop.MatrixOperator(snp.ones((r, c), dtype=np.dtype(adt).type), input_cols=cols)
    if k == "Sum":
        return linop.Sum(tup(t[1]), axis=t[2], input_dtype=np.dtype(t[3]).type)
    if k == "Transpose":
        return linop.Transpose(tup(t[1]), input_dtype=np.dtype(t[2]).type)
    if k == "Pad":
        return linop.Pad(tup(t[1]), t[2], input_dtype=np.dtype(t[3]).type)
    if k == "Crop":
        return linop.Crop(t[2], tup(t[1]), input_dtype=np.dtype(t[3]).type)
    if k == "FD":
        return linop.FiniteDifference(tup(t[1]), axes=t[2], input_dtype=np.dtype(t[3]).type)
    if k == "T":
        return realize(t[1]).T
    if k == "H":
        return realize(t[1]).H
    if k == "conj":
        return realize(t[1]).conj()
    if k == "gram":
        return realize(t[1]).gram_op
    if k == "scal":
        s = SCALS[t[1]][0]
        a = realize(t[3])
        return s * a if t[2] == "l" else a * s
    if k == "div":
        return realize(t[2]) / SCALS[t[1]][0]
    if k == "add":
        return realize(t[1]) + realize(t[2])
    if k == "sub":
        return realize(t[1]) - realize(t[2])
    if k == "comp":
        return realize(t[1])(realize(t[2]))
    if k in ("vstack", "dstack"):
        a, b = realize(t[1]), realize(t[2])
        lin = isinstance(a, linop.LinearOperator) and isinstance(b, linop.LinearOperator)
        if k == "vstack":
            return (linop.VerticalStack if lin else operator.VerticalStack)([a, b], collapse_output=t[3])
        return (linop.DiagonalStack if lin else operator.DiagonalStack)([a, b], collapse_input=t[3], collapse_output=t[4])
    if k == "drep":
        a = realize(t[1])
        lin = isinstance(a, linop.LinearOperator)
        return (linop.DiagonalReplicated if lin else operator.DiagonalReplicated)(
            a, t[2], input_axis=t[3], output_axis=t[4], map_type="vmap")
    if k == "freeze":
        a = realize(t[1])
        return a.freeze(t[2], snp.ones(a.input_shape[t[2]], dtype=np.dtype(t[3]).type))
    raise ValueError(f"unknown form {k}")


def np_out_shape(t):
    """actual output shape of the modelled linop_from_function leaves (NumPy semantics)"""
    k = t[0]
    if k == "Sum":
        return list(np.sum(np.empty(t[1]), axis=t[2]).shape)
    if k == "Transpose":
        return list(reversed(t[1]))
    if k == "Pad":
        return [d + 2 * t[2] for d in t[1]]
    if k == "Crop":
        return [d - 2 * t[2] for d in t[1]]
    if k == "FD":
        return list(t[1])
    raise ValueError(k)


def coq_ox(t):
    k = t[0]
    if k == "L":
        _, lin, evk, ish, red, dt = t
        osh = ish[1:] if red else ish
        return (f"(XLeaf {c_bool(lin)} {c_nshape(ish)} {c_nshape(osh)} false {DT[dt]} None {EVK[evk][1]} AAuto)")
    if k == "Diag":
        _, dsh, ddt, ish, idt = t
        return f"(XDiag {c_nshape(dsh)} {DT[ddt]} {c_opt(ish, c_nshape)} {c_opt(idt, lambda d: DT[d])})"
    if k == "SId":
        return f"(XSId {SCALS[t[1]][1]} {c_nshape(t[2])} {DT[t[3]]})"
    if k == "Id":
        return f"(XId {c_nshape(t[1])} {DT[t[2]]})"
    if k == "Mat":
        return f"(XMat {zlit(t[1])} {zlit(t[2])} {zlit(t[3])} {DT[t[4]]})"
    if k in ("Sum", "Transpose", "Pad", "FD"):
        dt = t[-1]
        return f"(XLeaf true {c_nshape(t[1])} {c_nshape(np_out_shape(t))} false {DT[dt]} None (FPromote F32) AAuto)"
    if k == "Crop":
        dt = t[-1]
        return f"(XLeaf true {c_nshape(t[1])} {c_nshape(np_out_shape(t))} true {DT[dt]} (Some {DT[dt]}) (FPromote F32) AAuto)"
    if k == "T":
        return f"(XT {coq_ox(t[1])})"
    if k == "H":
        return f"(XH {coq_ox(t[1])})"
    if k == "conj":
        return f"(XConj {coq_ox(t[1])})"
    if k == "gram":
        return f"(XGram {coq_ox(t[1])})"
    if k == "scal":
        return f"(XScal {SCALS[t[1]][1]} {coq_ox(t[3])})"
    if k == "div":   # A / s: same metadata rules as s * A (Expr.v op_scal)
        return f"(XScal {SCALS[t[1]][1]} {coq_ox(t[2])})"
    if k in ("add", "sub"):
        return f"(XAdd {coq_ox(t[1])} {coq_ox(t[2])})"
    if k == "comp":
        return f"(XComp {coq_ox(t[1])} {coq_ox(t[2])})"
    if k == "vstack":
        return f"(XVStack {coq_ox(t[1])} {coq_ox(t[2])} {c_bool(t[3])})"
    if k == "dstack":
        return f"(XDStack {coq_ox(t[1])} {coq_ox(t[2])} {c_bool(t[3])} {c_bool(t[4])})"
    if k == "drep":
        return f"(XDRep {coq_ox(t[1])} {zlit(t[2])} {zlit(t[3])} {c_opt(t[4], zlit)})"
    if k == "freeze":
        return f"(XFreeze {coq_ox(t[1])} {t[2]}%nat {DT[t[3]]})"
    raise ValueError(k)


def tree_forms(t):
    if not isinstance(t, list) or not t or not isinstance(t[0], str):
        return []
    out = [t[0]]
    for s in t[1:]:
        if isinstance(s, list) and s and isinstance(s[0], str) and s[0] not in ("l", "r"):
            out += tree_forms(s)
    return out


def leaves_of(t):
    if t[0] in ("L", "Diag", "SId", "Id", "Mat", "Sum", "Transpose", "Pad", "Crop", "FD"):
        return [t]
    out = []
    for s in t[1:]:
        if isinstance(s, list) and s and isinstance(s[0], str) and len(s) > 1:
            out += leaves_of(s)
    return out


def gen_leaf(rng, dt, shape=None, square=False):
    r = rng.random()
    shp = shape or rng.choice([[3], [2, 3], [3, 4], [2, 3, 2]])
    if r < 0.22:
        evk = rng.choice(["scale2", "scale2", "cplx", "arr64", "arrc128"])
        red = (not square) and len(shp) > 1 and rng.random() < 0.25
        return ["L", True, evk, shp, red, dt]
    if r < 0.30:
        return ["L", False, rng.choice(["scale2", "abs", "cplx"]), shp, False, dt]
    if r < 0.45:
        ddt = dt if rng.random() < 0.6 else rng.choice(DTS)
        if rng.random() < 0.5 or square:
            return ["Diag", shp, ddt, None, None if ddt == dt else dt]
        dsh = [1 if rng.random() < 0.5 else d for d in shp]
        if rng.random() < 0.4:
            dsh = dsh[1:]
        return ["Diag", dsh, ddt, shp, dt if rng.random() < 0.7 else None]
    if r < 0.55:
        return ["SId", rng.choice(["r", "r", "c", "np64"]), shp, dt]
    if r < 0.65:
        return ["Id", shp, dt]
    if r < 0.85:
        if len(shp) == 1:
            return ["Mat", shp[0] if square else rng.choice([2, 3, 4]), shp[0], 0, dt]
        if len(shp) == 2:
            return ["Mat", shp[0] if square else rng.choice([2, 3, 4]), shp[0], shp[1], dt]
        return ["Id", shp, dt]
    k = rng.choice(["Sum", "Transpose", "Pad", "Crop", "FD"])
    if square:
        return ["FD", shp, None, dt] if False else ["Id", shp, dt]
    if k == "Sum":
        return ["Sum", shp, rng.randrange(len(shp)), dt]
    if k == "Transpose":
        return ["Transpose", shp, dt]
    if k == "Pad":
        return ["Pad", shp, 1, dt]
    if k == "Crop":
        return ["Crop", [d + 2 for d in shp], 1, dt]
    return ["L", True, "scale2", shp, False, dt]


def decl_shapes(t):
    """(ish, osh) the *calculus* assigns (used only to generate shape-compatible operands)."""
    k = t[0]
    if k == "L":
        return t[3], (t[3][1:] if t[4] else t[3])
    if k == "Diag":
        ish = t[3] if t[3] is not None else t[1]
        return ish, [int(d) for d in np.broadcast_shapes(tuple(ish), tuple(t[1]))]
    if k == "SId":
        return t[2], t[2]
    if k == "Id":
        return t[1], t[1]
    if k == "Mat":
        return ([t[2]], [t[1]]) if t[3] == 0 else ([t[2], t[3]], [t[1], t[3]])
    if k in ("Sum", "Transpose", "Pad", "Crop", "FD"):
        return t[1], np_out_shape(t)
    if k in ("T", "H"):
        i, o = decl_shapes(t[1])
        return o, i
    if k == "conj":
        return decl_shapes(t[1])
    if k == "gram":
        i, _ = decl_shapes(t[1])
        return i, i
    if k == "scal":
        return decl_shapes(t[3])
    if k == "div":
        return decl_shapes(t[2])
    if k in ("add", "sub"):
        return decl_shapes(t[1])
    if k == "comp":
        return decl_shapes(t[2])[0], decl_shapes(t[1])[1]
    raise ValueError(k)


def gen_tree(rng, dt, depth):
    """random expression; operands of binary forms are shape-compatible by construction"""
    if depth == 0:
        return gen_leaf(rng, dt)
    r = rng.random()
    if r < 0.12:
        return ["T", gen_tree(rng, dt, depth - 1)]
    if r < 0.24:
        return ["H", gen_tree(rng, dt, depth - 1)]
    if r < 0.34:
        return ["conj", gen_tree(rng, dt, depth - 1)]
    if r < 0.46:
        return ["gram", gen_tree(rng, dt, depth - 1)]
    if r < 0.58:
        s = rng.choice(["r", "c", "c", "np64", "npc64", "np32"])
        side = "r" if s.startswith("np") else rng.choice(["l", "r"])
        return ["scal", s, side, gen_tree(rng, dt, depth - 1)]
    if r < 0.66:
        return ["div", rng.choice(["r", "c", "c", "np64", "npc64"]), gen_tree(rng, dt, depth - 1)]
    a = gen_tree(rng, dt, depth - 1)
    try:
        ia, oa = decl_shapes(a)
    except Exception:
        return a
    if r < 0.76:
        # a +/- b with b of the same shape: a copy, a scaled copy, or (square) a fresh leaf
        q = rng.random()
        if q < 0.4:
            b = a
        elif q < 0.7:
            b = ["scal", rng.choice(["r", "c"]), "l", a]
        elif ia == oa:
            b = gen_leaf(rng, dt, shape=ia, square=True)
        else:
            b = a
        if b[0] == "Mat" and a[0] != "Mat":
            # MatrixOperator defines __radd__/__rsub__ and is a subclass of the left operand's class, so Python
            # dispatches L +/- M to M's reflected method first; that dispatch is not modelled in Expr.v
            b = a
        return [rng.choice(["add", "sub"]), a, b]
    if r < 0.88:
        # a(b): b maps into a's input shape.  Crop's forward map is a jax.linear_transpose (exact input
        # dtype required); the XLeaf model of Crop is faithful only on its declared dtype, so Crop is
        # not used as the *outer* operator of a generated composition (it is in the class sweep)
        if any(l[0] == "Crop" for l in leaves_of(a)):
            return a
        q = rng.random()
        if q < 0.5:
            b = gen_leaf(rng, dt, shape=ia, square=True)
        elif q < 0.8:
            b = ["H", a] if rng.random() < 0.5 else ["T", a]
            a, b = b, a  # (A^H)(A)
            return ["comp", a, b]
        else:
            b = ["L", False, rng.choice(["abs", "cplx", "scale2"]), ia, False, dt]
        return ["comp", a, b]
    q = rng.random()
    if q < 0.4:
        b = a if rng.random() < 0.5 else ["scal", rng.choice(["r", "c"]), "l", a]
        return ["vstack", a, b, rng.random() < 0.6]
    if q < 0.8:
        b = a if rng.random() < 0.4 else gen_leaf(rng, dt)  # mixed-dtype stacks: fixed cases + malformed stream
        return ["dstack", a, b, rng.random() < 0.6, rng.random() < 0.6]
    n = rng.choice([k for k in (1, 2, 5, 7) if k not in ia and k not in oa] or [7])
    ia_ = rng.randint(-(len(ia) + 1), len(ia))
    oa_ = None if rng.random() < 0.5 else rng.randint(-(len(oa) + 1), len(oa))
    return ["drep", a, n, ia_, oa_]


def replicated_trees(ctx):
    """DiagonalReplicated (linop and operator versions) over the whole axis lattice: every input_axis in
    range(-(r+1), r+1), output_axis None / non-negative / negative over the operand's output rank, operands whose
    input and output ranks differ, a replicate count that is no operand dimension (a misplaced axis is visible in the
    shape), and the derived forms of the stack.  Default-output-axis cases come first."""
    rng = ctx.rng
    operands = [
        ["L", True, "scale2", [3, 4], False, "float32"],      # (3,4) -> (3,4), generic LinearOperator
        ["Sum", [3, 4], 1, "float32"],                          # (3,4) -> (3,)
        ["Sum", [3, 4], 0, "float64"],                          # (3,4) -> (4,)
        ["Mat", 2, 3, 4, "float32"],                            # (3,4) -> (2,4), MatrixOperator with input_cols
        ["Mat", 2, 3, 0, "complex64"],                          # (3,) -> (2,)
        ["Transpose", [3, 4], "float32"],                       # (3,4) -> (4,3)
        ["Id", [3, 4], "complex64"],
        ["L", False, "abs", [3, 4], False, "float32"],          # operator version, (3,4) -> (3,4)
        ["L", False, "scale2", [3, 4], True, "float32"],        # operator version, (3,4) -> (4,)
        ["L", True, "scale2", [2, 3, 4], True, "float32"],      # (2,3,4) -> (3,4)
    ]
    if ctx.quick:   # the thorough tier uses all ten operands
        operands = [a for k, a in enumerate(operands) if k not in (2, 6, 8)]
    first, rest = [], []
    for a in operands:
        ia, oa = decl_shapes(a)
        r, q = len(ia), len(oa)
        for i_ax in range(-(r + 1), r + 1):
            first.append(["drep", a, 5, i_ax, None])
            for o_ax in range(-(q + 1), q + 1):
                rest.append(["drep", a, 5, i_ax, o_ax])
    if ctx.quick:
        rest = rng.sample(rest, 24)
    stacks = first + rest
    lin = [t for t in stacks if t[1][0] != "L" or t[1][1]]
    nder = ctx.n(4, 90)
    derived = []
    for t in rng.sample(first, min(len(first), nder)) + rng.sample(rest, min(len(rest), nder)):
        if t in lin:
            derived += [[f, t] for f in rng.sample(["H", "T", "gram", "conj"], ctx.n(2, 4))]
        derived.append(["scal", rng.choice(["r", "c", "np64"]), rng.choice(["l", "r"]), t])
    return stacks + derived


def gen_freeze(rng, dt):
    shp = rng.choice([[3], [2, 3]])
    nb = rng.choice([2, 3])
    ish = [shp] * nb
    leaf = ["Id", ish, dt] if rng.random() < 0.5 else ["SId", rng.choice(["r", "c"]), ish, dt]
    return ["freeze", leaf, rng.randrange(nb), dt if rng.random() < 0.8 else rng.choice(DTS)]


def observe(t, xin=None, yin=None):
    """Run the implementation: declared metadata, sizes, result of __call__/adj."""
    import scico.numpy as snp
    from scico.linop import LinearOperator
    try:
        A = realize(t)
    except (ValueError, TypeError, IndexError, AttributeError) as e:
        return {"ctor": type(e).__name__}
    ob = {"ctor": None, "lin": isinstance(A, LinearOperator), "cls": type(A).__name__}
    try:
        ob["ish"], ob["osh"] = canon_shape(A.input_shape), canon_shape(A.output_shape)
        ob["idt"], ob["odt"] = dtn(A.input_dtype), dtn(A.output_dtype)
        ob["isize"], ob["osize"] = int(A.input_size), int(A.output_size)
        ob["mshape"] = [int(v) for v in A.matrix_shape]
        ob["shape_attr_ok"] = (canon_shape(A.shape[0]) == ob["osh"] and canon_shape(A.shape[1]) == ob["ish"])
        if ob["cls"] in ("Diagonal", "ScaledIdentity", "Identity"):
            ob["dsh"] = canon_shape(A.diagonal.shape)   # shape of the .diagonal property (what Diagonal.__add__ compares)
    except Exception as e:
        ob["meta_error"] = f"{type(e).__name__}: {e}"
        return ob

    def mk(a):
        shp, dt = a
        return snp.ones(tup(shp), dtype=np.dtype(dt).type)

    def res(f, a):
        try:
            y = f(mk(a))
            return [canon_shape(y.shape), dtn(y.dtype)]
        except Exception as e:
            return "raise:" + type(e).__name__
    ob["call"] = res(A, xin or (ob["ish"], ob["idt"]))
    if ob["lin"]:
        ob["adj"] = res(A.adj, yin or (ob["osh"], ob["odt"]))
    return ob


def c_obs(ob):
    if ob["ctor"] is not None:
        return "(None, None, None)"
    m = (f"(Some (mkmeta {c_nshape(ob['ish'])} {c_nshape(ob['osh'])} {DT[ob['idt']]} {DT[ob['odt']]}, "
         f"({zlit(ob['mshape'][0])}, {zlit(ob['mshape'][1])})))")

    def r(v):
        if v is None or isinstance(v, str):
            return "None"
        return f"(Some {c_av(v)})"
    return f"({m}, {r(ob['call'])}, {r(ob.get('adj'))})"


def encodable(ob):
    if ob["ctor"] is not None:
        return True
    if "meta_error" in ob:
        return False
    ok = ob["idt"] in DT and ob["odt"] in DT
    for v in (ob["call"], ob.get("adj")):
        if isinstance(v, list) and v[1] not in DT:
            ok = False
    return ok


def root_info(t, ob):
    forms = tree_forms(t)
    lv = leaves_of(t)
    return {"expr": t, "root": t[0], "forms": forms, "leaf_classes": sorted({l[0] for l in lv}),
            "cls": ob.get("cls")}


def spec_size(s):
    return sum(prod(x) for x in s) if is_nested(s) else prod(s)


def oracle_O1(ctx, unit, t, ob, extra=None):
    """declared vs actual on the implementation itself (the property)."""
    if ob["ctor"] is not None:
        return
    inp = root_info(t, ob)
    if extra:
        inp.update(extra)
    if "meta_error" in ob:
        ctx.violation(unit, "declared metadata cannot be read", inp, observed=ob["meta_error"], oracle="attributes exist")
        return
    if ob["isize"] != spec_size(ob["ish"]) or ob["osize"] != spec_size(ob["osh"]) \
            or ob["mshape"] != [ob["osize"], ob["isize"]] or not ob["shape_attr_ok"]:
        ctx.violation(unit, "input_size/output_size/matrix_shape/shape are not the element counts of the declared shapes",
                      inp, expected=[spec_size(ob["osh"]), spec_size(ob["ish"])], observed=ob["mshape"], oracle="size = product")
    want = [ob["osh"], ob["odt"]]
    got = ob["call"]
    if got != want:
        if isinstance(got, str):
            w = "evaluating on an input of the declared input shape and dtype raises"
        elif got[0] != want[0]:
            w = "actual output shape differs from the declared output_shape"
        else:
            w = "actual output dtype differs from the declared output_dtype"
        ctx.violation(unit, w, inp, expected=want, observed=got, oracle="declared e = actual e (C12_declared_eq_actual)")
    if ob["lin"]:
        want = [ob["ish"], ob["idt"]]
        got = ob["adj"]
        if got != want:
            if isinstance(got, str):
                w = "adj on an array of the declared output shape and dtype raises"
            elif got[0] != want[0]:
                w = "adj result shape differs from the declared input_shape"
            else:
                w = "adj result dtype differs from the declared input_dtype"
            ctx.violation(unit, w, inp, expected=want, observed=got, oracle="adjoint conforms (C12_declared_eq_actual)")


def unit_of(t, ob):
    """call site a finding is attributed to: class of the root's operand + root form"""
    k = t[0]
    if k in ("T", "H", "conj", "gram", "scal", "div", "add", "sub", "comp", "vstack", "dstack", "drep", "freeze"):
        return "derived:" + k
    return "leaf:" + k


def run_exprs(ctx):
    N = ctx.n(220, 1200)
    trees = []
    for i in range(N):
        dt = DTS[i % 4]
        depth = ctx.rng.choice([0, 1, 1, 1, 2, 2]) if ctx.quick else ctx.rng.choice([0, 1, 1, 2, 2, 3])
        if i % 17 == 5:
            trees.append(gen_freeze(ctx.rng, dt))
        else:
            trees.append(gen_tree(ctx.rng, dt, depth))
    # fixed boundary expressions (always run first)
    fixed = [
        ["gram", ["L", True, "cplx", [3], False, "float32"]],
        ["T", ["L", True, "arrc128", [3], False, "complex64"]],
        ["comp", ["L", False, "abs", [3], False, "complex128"], ["L", False, "cplx", [3], False, "complex128"]],
        ["T", ["Mat", 2, 3, 4, "float64"]], ["H", ["Mat", 2, 3, 4, "complex64"]], ["conj", ["Mat", 2, 3, 4, "float32"]],
        ["add", ["Mat", 2, 3, 4, "float32"], ["Mat", 2, 3, 4, "float32"]], ["scal", "r", "l", ["Mat", 2, 3, 4, "float32"]],
        ["gram", ["Mat", 2, 3, 4, "float32"]],
        ["conj", ["Diag", [3, 1], "float32", [3, 4], "float32"]], ["H", ["Diag", [3, 1], "complex64", [3, 4], "complex64"]],
        ["gram", ["Diag", [3, 1], "float32", [3, 4], "float32"]], ["T", ["Diag", [3, 1], "float32", [3, 4], "float32"]],
        ["T", ["Diag", [4], "float32", [3, 4], "float32"]],
        ["Diag", [3], "complex64", None, "float32"], ["SId", "c", [3], "float32"],
        ["vstack", ["L", True, "scale2", [3], False, "float32"], ["L", True, "cplx", [3], False, "float32"], True],
        ["dstack", ["L", True, "scale2", [3], False, "float32"], ["L", True, "cplx", [3], False, "float32"], True, True],
        ["freeze", ["Id", [[3], [3]], "complex64"], 0, "complex64"], ["freeze", ["Id", [[3], [3]], "float64"], 1, "float64"],
        ["comp", ["Mat", 2, 3, 0, "float32"], ["L", True, "cplx", [3], False, "float32"]],
        ["comp", ["Mat", 2, 3, 4, "float32"], ["Mat", 3, 3, 4, "float32"]],
        ["drep", ["Sum", [3, 4], 0, "float32"], 2, 0, 1],
        ["scal", "c", "l", ["L", True, "scale2", [3], False, "float32"]],
        ["H", ["scal", "c", "l", ["L", True, "scale2", [3], False, "float32"]]],
        # division by real / dtype-promoting scalars of generic (non-overriding) and class-specific operators
        ["div", "r", ["L", True, "scale2", [3], False, "float32"]], ["div", "c", ["L", True, "scale2", [3], False, "float32"]],
        ["div", "npc64", ["Sum", [3, 4], 1, "float32"]], ["div", "np64", ["Pad", [3, 4], 1, "float32"]],
        ["div", "c", ["L", True, "scale2", [3], False, "complex64"]], ["div", "r", ["L", True, "cplx", [3], False, "complex128"]],
        ["div", "c", ["L", False, "scale2", [3], False, "float64"]], ["div", "npc64", ["L", False, "abs", [3], False, "complex64"]],
        ["conj", ["div", "c", ["L", True, "scale2", [3], False, "float32"]]],
        ["comp", ["Id", [3], "float32"], ["div", "r", ["Transpose", [3], "float32"]]],
        ["div", "r", ["Mat", 2, 3, 0, "float32"]], ["div", "c", ["Diag", [3], "float32", None, None]],
        ["div", "r", ["SId", "r", [3], "complex64"]], ["div", "c", ["Id", [3], "float32"]],
        ["scal", "c", "r", ["L", False, "scale2", [3], False, "float32"]], ["scal", "np64", "r", ["L", False, "scale2", [3], False, "float32"]],
    ]
    trees = fixed + replicated_trees(ctx) + trees
    # every subexpression is observed on its own, so that a failure is attributed to the
    # innermost derived form that introduces it
    seen, order = {}, []

    def visit(t):
        key = json.dumps(t)
        if key in seen:
            return
        for s_ in subtrees(t):
            visit(s_)
        seen[key] = None
        order.append(t)
    for t in trees:
        visit(t)
    items, meta = [], []
    obs = {}
    for t in order:
        ob = observe(t)
        obs[json.dumps(t)] = ob
        ctx.count("expr:" + t[0], t, nontrivial=True)
        if not encodable(ob):
            ctx.notes.append(f"not encodable (dtype outside the lattice): {json.dumps(t)}")
            continue
        cmpadj = ob["ctor"] is None and ob.get("lin", False)
        if cmpadj and "UnexpectedTracerError" in str(ob.get("adj")):
            # JAX tracing state (lazily created adjoint under jit) is outside the shape/dtype model;
            # the failure itself is reported by the oracle below
            cmpadj = False
            ctx.notes.append("adj comparison with the model skipped (UnexpectedTracerError): " + json.dumps(t))
        items.append(f"({coq_ox(t)}, None, None, {c_bool(cmpadj)}, {c_obs(ob)})")
        meta.append(t)
    codes = run_coded(ctx, "C12_expr", "code", items, meta,
                      {1: "declared metadata: model (build) differs from the implementation",
                       2: "__call__ result: model differs from the implementation",
                       4: "adj result: model differs from the implementation"}, model_bits=7, shard=120,
                      ty="ox * option av * option av * bool * obs")
    code_of = {json.dumps(t): c for t, c in zip(meta, codes)}
    failing = {}
    for t in order:
        key = json.dumps(t)
        failing[key] = expr_failures(t, obs[key], code_of.get(key, 0), obs)
    for t in order:
        key = json.dumps(t)
        if not failing[key]:
            continue
        if any(failing[json.dumps(s_)] for s_ in all_subtrees(t)):
            continue  # introduced deeper in the tree: reported there
        ob = obs[key]
        inp = root_info(t, ob)
        inp["operands"] = [operand_meta(obs[json.dumps(s_)]) for s_ in subtrees(t)]
        inp["declared"] = None if ob["ctor"] is not None or "meta_error" in ob else [ob["ish"], ob["osh"], ob["idt"], ob["odt"]]
        for w, exp, got, orc in failing[key]:
            ctx.violation(unit_of(t, ob), w, inp, expected=exp, observed=got, oracle=orc)
    return trees


def subtrees(t):
    return [s for s in t[1:] if isinstance(s, list) and s and isinstance(s[0], str) and len(s) > 1
            and s[0] in FORMS_AND_LEAVES]


def all_subtrees(t):
    out = []
    for s in subtrees(t):
        out.append(s)
        out += all_subtrees(s)
    return out


FORMS_AND_LEAVES = {"L", "Diag", "SId", "Id", "Mat", "Sum", "Transpose", "Pad", "Crop", "FD", "T", "H", "conj", "gram",
                    "scal", "div", "add", "sub", "comp", "vstack", "dstack", "drep", "freeze"}


def operand_meta(ob):
    if ob["ctor"] is not None or "meta_error" in ob:
        return None
    return {"ish": ob["ish"], "osh": ob["osh"], "idt": ob["idt"], "odt": ob["odt"], "cls": ob["cls"], "lin": ob["lin"],
            "dsh": ob.get("dsh")}


def expr_failures(t, ob, code, obs):
    """list of (what, expected, observed, oracle) for one expression: O1 (declared vs actual
    on the implementation) and O2 (declared vs the documented calculus, decided in Coq)"""
    c2 = Ctx("C12", "quick", 0)
    c2.known = []
    out = []

    class Rec:
        def violation(self, unit, what, inp, expected=None, observed=None, oracle=""):
            out.append((what, expected, observed, oracle))
    oracle_O1(Rec(), "", t, ob)
    if code & 8 and ob["ctor"] == "AttributeError":
        pass  # T / H / conj / gram_op of a non-linear Operator: the form does not exist (not a C12 matter)
    elif code & 8:
        if ob["ctor"] is not None:
            out.append(("constructing a well-typed derived operator raises", "spec e (ExprSpec.v)", ob["ctor"],
                        "declared e = spec e (C12_declared_eq_spec)"))
        else:
            out.append(("declared metadata of the derived operator differ from the operator calculus", "spec e (ExprSpec.v)",
                        [ob["ish"], ob["osh"], ob["idt"], ob["odt"]], "declared e = spec e (C12_declared_eq_spec)"))
    subs = [obs.get(json.dumps(s_)) for s_ in subtrees(t)]
    mixed = (len(subs) == 2 and all(s_ and s_["ctor"] is None and "meta_error" not in s_ for s_ in subs)
             and subs[0]["odt"] != subs[1]["odt"])
    if code & 16 and t[0] in ("vstack", "dstack") and ob["ctor"] is None and mixed:
        out.append(("stack of operators with different output dtypes is accepted", "ValueError (check_if_stackable)",
                    [ob["osh"], ob["odt"]], "spec e = None"))
    if t[0] == "drep" and ob["ctor"] is None and len(subs) == 1 and subs[0] and subs[0]["ctor"] is None \
            and "meta_error" not in subs[0] and not is_nested(subs[0]["ish"]) and not is_nested(subs[0]["osh"]):
        # documented argument range: input_axis in [-(r+1), r], output_axis (default: the input position) in [-(q+1), q]
        r, q = len(subs[0]["ish"]), len(subs[0]["osh"])
        ki = t[3] if t[3] >= 0 else r + 1 + t[3]
        ko = ki if t[4] is None else (t[4] if t[4] >= 0 else q + 1 + t[4])
        if not (0 <= ki <= r and 0 <= ko <= q):
            out.append(("replicated stack with a replication axis outside the operand's rank is accepted", "ValueError",
                        [ob["ish"], ob["osh"]], "spec e = None (C12_replicated_axes_in_range / C12_replicated_default_axis_rejected)"))
    return out


# ------------------------------------------------------------------ (e) class sweep

def class_table():
    """name -> constructor(dtype) for every operator class that can be built offline."""
    import scico.numpy as snp
    from scico import linop, operator
    T = {}

    def ones(s, d):
        return snp.ones(s, dtype=d)
    T["Identity"] = lambda d: linop.Identity((3, 4), input_dtype=d)
    T["Identity-block"] = lambda d: linop.Identity(((3,), (2, 2)), input_dtype=d)
    T["ScaledIdentity"] = lambda d: linop.ScaledIdentity(2.0, (3, 4), input_dtype=d)
    T["Diagonal"] = lambda d: linop.Diagonal(ones((3, 4), d))
    T["Diagonal-bcast"] = lambda d: linop.Diagonal(ones((3, 1), d), input_shape=(3, 4))
    T["Diagonal-block"] = lambda d: linop.Diagonal(snp.blockarray([ones((3,), d), ones((2, 2), d)]))
    T["MatrixOperator"] = lambda d: linop.MatrixOperator(ones((2, 3), d))
    T["MatrixOperator-cols"] = lambda d: linop.MatrixOperator(ones((2, 3), d), input_cols=4)
    T["Sum"] = lambda d: linop.Sum((3, 4), axis=1, input_dtype=d)
    T["Transpose"] = lambda d: linop.Transpose((3, 4), input_dtype=d)
    T["Reshape"] = lambda d: linop.Reshape((3, 4), (2, 6), input_dtype=d)
    T["Pad"] = lambda d: linop.Pad((3, 4), 1, input_dtype=d)
    T["Crop"] = lambda d: linop.Crop(1, (5, 6), input_dtype=d)
    T["Slice"] = lambda d: linop.Slice(np.s_[1:3, ::2], (4, 5), input_dtype=d)
    T["Slice-int"] = lambda d: linop.Slice(np.s_[1, ..., None], (4, 5), input_dtype=d)
    T["Slice-negstep"] = lambda d: linop.Slice(np.s_[::-1], (5,), input_dtype=d)
    T["Slice-block"] = lambda d: linop.Slice(0, ((3,), (2, 2)), input_dtype=d)
    T["FiniteDifference"] = lambda d: linop.FiniteDifference((3, 4), input_dtype=d)
    T["FiniteDifference-ax"] = lambda d: linop.FiniteDifference((3, 4), axes=0, append=0, input_dtype=d)
    T["FiniteDifference-circ"] = lambda d: linop.FiniteDifference((3, 4), circular=True, input_dtype=d)
    T["SingleAxisFiniteDifference"] = lambda d: linop.SingleAxisFiniteDifference((3, 4), axis=1, input_dtype=d)
    T["Convolve"] = lambda d: linop.Convolve(ones((2, 2), d), (3, 4), input_dtype=d)
    T["Convolve-same"] = lambda d: linop.Convolve(ones((2, 2), d), (3, 4), input_dtype=d, mode="same")
    T["ConvolveByX"] = lambda d: linop.ConvolveByX(ones((3, 4), d), (2, 2), input_dtype=d)
    T["CircularConvolve"] = lambda d: linop.CircularConvolve(ones((2, 2), d), (3, 4), input_dtype=d)
    T["DFT"] = lambda d: linop.DFT((3, 4), input_dtype=d) if np.dtype(d).kind == "c" else linop.DFT((3, 4))
    T["DFT-axes"] = lambda d: linop.DFT((3, 4), axes=(1,), axes_shape=(6,))
    T["ProjectedGradient-1axis"] = lambda d: linop.ProjectedGradient((3, 4), axes=(0,), input_dtype=d)
    T["ProjectedGradient"] = lambda d: linop.ProjectedGradient((3, 4), input_dtype=d)
    T["PolarGradient"] = lambda d: linop.PolarGradient((3, 4), input_dtype=d)
    T["CylindricalGradient"] = lambda d: linop.CylindricalGradient((3, 4, 2), input_dtype=d)
    T["SphericalGradient"] = lambda d: linop.SphericalGradient((3, 4, 2), input_dtype=d)
    T["LinearOperator-R2C"] = lambda d: linop.LinearOperator((3,), eval_fn=lambda x: x * (1 + 1j), input_dtype=d)
    T["VerticalStack"] = lambda d: linop.VerticalStack([linop.Identity((3,), input_dtype=d), linop.ScaledIdentity(2.0, (3,), input_dtype=d)])
    T["VerticalStack-block"] = lambda d: linop.VerticalStack([linop.Identity((3, 4), input_dtype=d), linop.Sum((3, 4), axis=0, input_dtype=d)])
    T["DiagonalStack"] = lambda d: linop.DiagonalStack([linop.Identity((3,), input_dtype=d), linop.ScaledIdentity(2.0, (3,), input_dtype=d)])
    T["DiagonalStack-block"] = lambda d: linop.DiagonalStack([linop.Identity((3,), input_dtype=d), linop.Sum((3, 4), axis=0, input_dtype=d)])
    T["DiagonalStack-nocollapse"] = lambda d: linop.DiagonalStack([linop.Identity((3,), input_dtype=d)] * 2, collapse_input=False, collapse_output=False)
    T["DiagonalReplicated"] = lambda d: linop.DiagonalReplicated(linop.Sum((3, 4), axis=0, input_dtype=d), 2, map_type="vmap")
    T["DiagonalReplicated-axes"] = lambda d: linop.DiagonalReplicated(linop.Sum((3, 4), axis=0, input_dtype=d), 2, input_axis=0, output_axis=1, map_type="vmap")
    T["ComposedLinearOperator"] = lambda d: linop.Sum((3, 4), axis=0, input_dtype=d) @ linop.Diagonal(ones((3, 4), d))
    T["op.Abs"] = lambda d: operator.Abs((3, 4), input_dtype=d)
    T["op.Exp"] = lambda d: operator.Exp((3, 4), input_dtype=d)
    T["op.Angle"] = lambda d: operator.Angle((3, 4), input_dtype=d)
    T["op.Operator"] = lambda d: operator.Operator((3, 4), eval_fn=lambda x: x * x, input_dtype=d)
    T["op.VerticalStack"] = lambda d: operator.VerticalStack([operator.Abs((3,), input_dtype=d), operator.Exp((3,), input_dtype=d)])
    T["op.DiagonalStack"] = lambda d: operator.DiagonalStack([operator.Abs((3,), input_dtype=d), operator.Abs((2,), input_dtype=d)])
    T["op.DiagonalReplicated"] = lambda d: operator.DiagonalReplicated(operator.Abs((3,), input_dtype=d), 2, map_type="vmap")
    T["BiConvolve"] = lambda d: operator.BiConvolve(((3, 4), (2, 2)), input_dtype=d)
    T["Function.slice"] = lambda d: __import__("scico.function", fromlist=["Function"]).Function(
        ((3,), (3,)), eval_fn=lambda x, y: x * y, input_dtypes=d).slice(0, ones((3,), d))
    T["Function.join"] = lambda d: __import__("scico.function", fromlist=["Function"]).Function(
        ((3,), (3,)), eval_fn=lambda x, y: x * y, input_dtypes=d).join()
    T["freeze"] = lambda d: operator.BiConvolve(((3, 4), (2, 2)), input_dtype=d).freeze(1, ones((2, 2), d))
    T["XRayTransform2D"] = lambda d: __import__("scico.linop.xray", fromlist=["XRayTransform2D"]).XRayTransform2D(
        (4, 4), angles=np.array([0.0, 0.5]))
    return T


UNARY = ["id", "T", "H", "conj", "gram", "2*", "2j*", "*np64", "/2", "/2j", "/npc64", "neg", "A+A", "A-A", "AH(A)", "jit"]


def derive(A, form):
    if form == "id":
        return A
    if form == "T":
        return A.T
    if form == "H":
        return A.H
    if form == "conj":
        return A.conj()
    if form == "gram":
        return A.gram_op
    if form == "2*":
        return 2.0 * A
    if form == "2j*":
        return 2j * A
    if form == "*np64":
        return A * np.float64(2.0)
    if form == "/2":
        return A / 2.0
    if form == "/2j":
        return A / (1 + 2j)
    if form == "/npc64":
        return A / np.complex64(2j)
    if form == "neg":
        return -A
    if form == "A+A":
        return A + A
    if form == "A-A":
        return A - A
    if form == "AH(A)":
        return A.H(A)
    if form == "jit":
        A.jit()
        return A
    raise ValueError(form)


def sweep_one(name, dt, form):
    import scico.numpy as snp
    from scico.linop import LinearOperator
    T = class_table()
    A0 = T[name](np.dtype(dt).type)
    lin0 = isinstance(A0, LinearOperator)
    if form not in ("id", "2*", "2j*", "*np64", "/2", "/2j", "/npc64", "neg", "A+A", "A-A") and not lin0:
        return None
    rec = {"base": [canon_shape(A0.input_shape), canon_shape(A0.output_shape), dtn(A0.input_dtype), dtn(A0.output_dtype)]}
    try:
        A = derive(A0, form)
    except (ValueError, TypeError) as e:
        rec["ctor"] = type(e).__name__
        return rec
    rec["ctor"] = None
    rec["cls"] = type(A).__name__
    rec["lin"] = isinstance(A, LinearOperator)
    rec["ish"], rec["osh"] = canon_shape(A.input_shape), canon_shape(A.output_shape)
    rec["idt"], rec["odt"] = dtn(A.input_dtype), dtn(A.output_dtype)
    rec["isize"], rec["osize"] = int(A.input_size), int(A.output_size)
    rec["mshape"] = [int(v) for v in A.matrix_shape]
    rec["shape_attr_ok"] = canon_shape(A.shape[0]) == rec["osh"] and canon_shape(A.shape[1]) == rec["ish"]

    def res(f, shp, d):
        try:
            y = f(snp.ones(tup(shp), dtype=np.dtype(d).type))
            return [canon_shape(y.shape), dtn(y.dtype)]
        except Exception as e:
            return "raise:" + type(e).__name__
    rec["call"] = res(A, rec["ish"], rec["idt"])
    if rec["lin"]:
        rec["adj"] = res(A.adj, rec["osh"], rec["odt"])
    return rec


def sweep_expected(base, form):
    """metadata the calculus promises for a unary derived form of an operator with metadata base"""
    i, o, di, do = base
    if form in ("id", "jit", "neg", "2*", "/2", "A+A", "A-A"):
        return [i, o, di, do]
    if form in ("/2j", "/npc64"):
        return [i, o, di, dt_join(do, "complex64")]
    if form in ("T", "H"):
        return [o, i, do, di]
    if form == "conj":
        return [i, o, di, do]
    if form in ("gram", "AH(A)"):
        return [i, i, di, di]
    if form == "2j*":
        return [i, o, di, dt_join(do, "complex64")]
    if form == "*np64":
        return [i, o, di, dt_join(do, "float64")]


def run_sweep(ctx):
    T = class_table()
    names = sorted(T)
    combos = [(n, d, f) for n in names for d in DTS for f in UNARY]
    if ctx.quick:
        # every class with form "id" at two dtypes + a sample of the derived forms
        base = [(n, d, "id") for n in names for d in ("float32", "complex64")]
        rest = [c for c in combos if c[2] != "id"]
        combos = base + ctx.rng.sample(rest, 195)
    base_fail = {}

    def base_whats(name, dt):
        """failures of the un-derived operator (form "id"): a derived form repeating them is attributed to the base"""
        if (name, dt) not in base_fail:
            try:
                r0 = sweep_one(name, dt, "id")
                base_fail[(name, dt)] = set(w for w, *_ in _O1_list(r0)) if r0 and r0["ctor"] is None else set()
            except Exception:
                base_fail[(name, dt)] = set()
        return base_fail[(name, dt)]
    for name, dt, form in combos:
        try:
            rec = sweep_one(name, dt, form)
        except Exception as e:  # the *base* class cannot be built with this dtype
            if form == "id":
                ctx.notes.append(f"class {name} not buildable at {dt}: {type(e).__name__}")
            continue
        if rec is None:
            continue
        inp = {"class": name, "dtype": dt, "form": form, "base": rec["base"], "result_cls": rec.get("cls"),
               "declared": None if rec["ctor"] is not None else [rec["ish"], rec["osh"], rec["idt"], rec["odt"]]}
        ctx.count("sweep:" + form, {"class": name, "dtype": dt, "form": form})
        unit = "sweep:" + form
        if rec["ctor"] is not None:
            ctx.violation(unit, "constructing a derived operator raises", inp, expected=sweep_expected(rec["base"], form),
                          observed=rec["ctor"], oracle="operator calculus")
            continue
        inherited = set() if form == "id" else base_whats(name, dt)
        for w, exp, got, orc in _O1_list(rec):
            if w in inherited:
                continue  # the un-derived operator already fails this way: reported at sweep:id
            ctx.violation(unit, w, inp, expected=exp, observed=got, oracle=orc)
        want = sweep_expected(rec["base"], form)
        got = [rec["ish"], rec["osh"], rec["idt"], rec["odt"]]
        if want is not None and got != want:
            w = ("declared shapes of the derived operator differ from the operator calculus" if got[:2] != want[:2]
                 else "declared dtypes of the derived operator differ from the operator calculus")
            ctx.violation(unit, w, inp, expected=want, observed=got, oracle="spec e (ExprSpec.v)")


def _O1_list(ob):
    out = []

    class Rec:
        def violation(self, unit, what, inp, expected=None, observed=None, oracle=""):
            out.append((what, expected, observed, oracle))
    _O1(Rec(), "", None, ob)
    return out


def _O1(ctx, unit, inp, ob):
    if ob["isize"] != spec_size(ob["ish"]) or ob["osize"] != spec_size(ob["osh"]) \
            or ob["mshape"] != [ob["osize"], ob["isize"]] or not ob["shape_attr_ok"]:
        ctx.violation(unit, "input_size/output_size/matrix_shape/shape are not the element counts of the declared shapes",
                      inp, expected=[spec_size(ob["osh"]), spec_size(ob["ish"])], observed=ob["mshape"], oracle="size = product")
    want, got = [ob["osh"], ob["odt"]], ob["call"]
    if got != want:
        w = ("evaluating on an input of the declared input shape and dtype raises" if isinstance(got, str) else
             "actual output shape differs from the declared output_shape" if got[0] != want[0] else
             "actual output dtype differs from the declared output_dtype")
        ctx.violation(unit, w, inp, expected=want, observed=got, oracle="declared e = actual e")
    if ob.get("lin"):
        want, got = [ob["ish"], ob["idt"]], ob["adj"]
        if got != want:
            w = ("adj on an array of the declared output shape and dtype raises" if isinstance(got, str) else
                 "adj result shape differs from the declared input_shape" if got[0] != want[0] else
                 "adj result dtype differs from the declared input_dtype")
            ctx.violation(unit, w, inp, expected=want, observed=got, oracle="adjoint conforms")


# ------------------------------------------------------------------ (f) malformed inputs

def malformed_inputs(ish, idt, rng):
    """non-conforming variants of a declared input shape"""
    out = []
    if not is_nested(ish):
        out.append(("extra-axis", list(ish) + [1]))
        out.append(("lead-axis", [1] + list(ish)))
        if len(ish) >= 1:
            out.append(("drop-axis", list(ish)[1:]))
        for k, d in enumerate(ish):
            if d > 1:
                s = list(ish)
                s[k] = 1
                out.append(("size1-axis", s))
                break
        if len(ish) >= 1:
            s = list(ish)
            s[-1] += 1
            out.append(("wrong-dim", s))
    else:
        out.append(("fewer-blocks", [list(b) for b in ish[:-1]] if len(ish) > 2 else list(ish[0])))
        out.append(("more-blocks", [list(b) for b in ish] + [list(ish[0])]))
        out.append(("swapped-blocks", [list(b) for b in reversed(ish)]) if list(ish) != list(reversed(ish)) else ("more-blocks", [list(b) for b in ish] * 2))
    return out


def run_malformed_one(name, dt, kind, shp, which):
    import scico.numpy as snp
    T = class_table()
    A = T[name](np.dtype(dt).type)
    if which == "call":
        x = snp.ones(tup(shp), dtype=np.dtype(dtn(A.input_dtype)).type)
        f = A
    elif which == "adj":
        x = snp.ones(tup(shp), dtype=np.dtype(dtn(A.output_dtype)).type)
        f = A.adj
    else:  # adj-dtype: right shape, wrong dtype
        x = snp.ones(tup(canon_shape(A.output_shape)), dtype=np.dtype(shp).type)
        f = A.adj
    try:
        y = f(x)
        return [canon_shape(y.shape), dtn(y.dtype)]
    except Exception as e:
        return "raise:" + type(e).__name__


def run_malformed(ctx):
    from scico.linop import LinearOperator
    T = class_table()
    names = sorted(T)
    todo = []
    for n in names:
        dts = DTS if not ctx.quick else [ctx.rng.choice(DTS)]
        for d in dts:
            todo.append((n, d))
    for name, dt in todo:
        try:
            A = T[name](np.dtype(dt).type)
        except Exception:
            continue
        ish, osh = canon_shape(A.input_shape), canon_shape(A.output_shape)
        lin = isinstance(A, LinearOperator)
        cases = [("call", k, s) for k, s in malformed_inputs(ish, dtn(A.input_dtype), ctx.rng)]
        if lin:
            cases += [("adj", k, s) for k, s in malformed_inputs(osh, dtn(A.output_dtype), ctx.rng)]
            od = dtn(A.output_dtype)
            wrong = [d for d in DTS if d != od]
            cases.append(("adj-dtype", "wrong-dtype", ctx.rng.choice(wrong)))
        if ctx.quick:
            cases = ctx.rng.sample(cases, min(4, len(cases)))
        for which, kind, shp in cases:
            if which != "adj-dtype" and shp == (ish if which == "call" else osh):
                continue
            inp = {"class": name, "dtype": dt, "which": which, "kind": kind, "arg": shp}
            ctx.count("malformed:" + kind, inp)
            got = run_malformed_one(name, dt, kind, shp, which)
            if not isinstance(got, str):
                ctx.violation("malformed:" + which,
                              ("array of non-conforming shape accepted" if which != "adj-dtype" else "adj accepts an array of the wrong dtype"),
                              inp, expected="ValueError", observed=got, oracle="rejects (C12_declared_eq_actual)")
    # malformed compositions / sums / stacks: the constructors must raise
    import scico.numpy as snp
    from scico import linop, operator
    bad_ctor = {
        "comp-shape": lambda: linop.Identity((3, 4))(linop.Identity((3, 1))),
        "comp-shape-op": lambda: operator.Abs((3, 4))(operator.Abs((4,))),
        "comp-dtype": lambda: linop.Identity((3,), input_dtype=np.complex64)(linop.Identity((3,), input_dtype=np.float32)),
        "add-shape": lambda: linop.Identity((3, 4)) + linop.Identity((3, 1)),
        "add-shape-op": lambda: operator.Abs((3, 4)) + operator.Abs((1, 4)),
        "sub-shape-mat": lambda: linop.MatrixOperator(snp.ones((2, 3))) - linop.MatrixOperator(snp.ones((2, 1))),
        "vstack-input-shapes": lambda: linop.VerticalStack([linop.Identity((3,)), linop.Identity((1,))]),
        "vstack-input-dtypes": lambda: linop.VerticalStack([linop.Identity((3,)), linop.Identity((3,), input_dtype=np.complex64)]),
        "vstack-output-dtypes": lambda: linop.VerticalStack([linop.Identity((3,)), linop.LinearOperator((3,), eval_fn=lambda x: x * 1j)]),
        "dstack-output-dtypes": lambda: linop.DiagonalStack([linop.Identity((3,)), linop.Identity((3,), input_dtype=np.complex64)]),
        "vstack-nested-output": lambda: linop.VerticalStack([linop.Identity(((3,), (2,))), linop.Identity(((3,), (2,)))]),
        "diag-nonbroadcast": lambda: linop.Diagonal(snp.ones((3,)), input_shape=(4,)),
        "diag-block-vs-plain": lambda: linop.Diagonal(snp.blockarray([snp.ones(3), snp.ones(2)]), input_shape=(3,)),
        "freeze-argnum": lambda: linop.Identity(((3,), (2,))).freeze(2, snp.ones(3)),
        "freeze-shape": lambda: linop.Identity(((3,), (2,))).freeze(0, snp.ones(2)),
        "freeze-plain": lambda: linop.Identity((3,)).freeze(0, snp.ones(3)),
        "matrix-1d": lambda: linop.MatrixOperator(snp.ones(3)),
        "drep-axis": lambda: linop.DiagonalReplicated(linop.Identity((3,)), 2, input_axis=3, map_type="vmap"),
        "slice-int-oob": lambda: linop.Slice(5, (4, 5)),
        # a defaulted output axis (= input position) that does not exist in the operand's output (fix 760899e)
        "drep-default-axis-sum-last": lambda: linop.DiagonalReplicated(linop.Sum((3, 4), axis=1), 5, input_axis=-1, map_type="vmap"),
        "drep-default-axis-sum-2": lambda: linop.DiagonalReplicated(linop.Sum((3, 4), axis=1), 5, input_axis=2, map_type="vmap"),
        "drep-default-axis-rank3": lambda: linop.DiagonalReplicated(
            linop.LinearOperator((2, 3, 4), eval_fn=lambda x: snp.sum(x, axis=0)), 5, input_axis=3, map_type="vmap"),
        "drep-default-axis-op": lambda: operator.DiagonalReplicated(
            operator.Operator((3, 4), eval_fn=lambda x: snp.sum(x * x, axis=0)), 5, input_axis=-1, map_type="vmap"),
        "drep-output-axis-oob": lambda: linop.DiagonalReplicated(linop.Sum((3, 4), axis=1), 5, input_axis=0, output_axis=2, map_type="vmap"),
        "drep-output-axis-neg-oob": lambda: linop.DiagonalReplicated(linop.Sum((3, 4), axis=1), 5, input_axis=0, output_axis=-3, map_type="vmap"),
        "drep-input-axis-neg-oob": lambda: linop.DiagonalReplicated(linop.Identity((3, 4)), 5, input_axis=-4, map_type="vmap"),
    }
    for nm in sorted(bad_ctor):
        inp = {"ctor": nm}
        ctx.count("malformed-ctor", inp)
        try:
            r = bad_ctor[nm]()
            ctx.violation("malformed:ctor", "ill-formed construction is accepted", inp, expected="ValueError/TypeError",
                          observed=[canon_shape(r.input_shape), canon_shape(r.output_shape), dtn(r.input_dtype), dtn(r.output_dtype)],
                          oracle="spec e = None")
        except (ValueError, TypeError, IndexError):
            pass
    return bad_ctor


# ------------------------------------------------------------------ (h) configuration lattices: finite differences, DFT, propagators

FD_BOUNDARY = [[p, a, False] for p in (None, 0, 1) for a in (None, 0, 1)] + [[None, None, True]]


def build_config(c):
    """replayable configuration -> operator (raises what the constructor raises)"""
    from scico import linop
    from scico.linop import optics
    k = c["kind"]
    jit = c.get("jit", False)
    if k == "SAFD":
        return linop.SingleAxisFiniteDifference(tuple(c["shape"]), input_dtype=np.dtype(c["dtype"]).type, axis=c["axis"],
                                                prepend=c["prepend"], append=c["append"], circular=c["circular"], jit=jit)
    if k == "FD":
        ax = c["axes"]
        return linop.FiniteDifference(tuple(c["shape"]), input_dtype=np.dtype(c["dtype"]).type,
                                      axes=tuple(ax) if isinstance(ax, list) else ax,
                                      prepend=c["prepend"], append=c["append"], circular=c["circular"], jit=jit)
    if k == "DFT":
        return linop.DFT(tuple(c["shape"]), axes=None if c["axes"] is None else tuple(c["axes"]),
                         axes_shape=None if c["axes_shape"] is None else tuple(c["axes_shape"]), jit=jit)
    if k in ("ASP", "Fresnel"):
        cls = optics.AngularSpectrumPropagator if k == "ASP" else optics.FresnelPropagator
        dx = tuple(c["dx"]) if isinstance(c["dx"], list) else c["dx"]
        return cls(tuple(c["shape"]), dx=dx, k0=c["k0"], z=c["z"], pad_factor=c["pad_factor"], jit=jit)
    if k == "Fraunhofer":
        dx = tuple(c["dx"]) if isinstance(c["dx"], list) else c["dx"]
        return optics.FraunhoferPropagator(tuple(c["shape"]), dx=dx, k0=c["k0"], z=c["z"], jit=jit)
    if k == "PG":
        import scico.numpy as snp
        shp = tuple(c["shape"])
        axes = None if c["axes"] is None else tuple(c["axes"])
        nax = len(shp) if axes is None else len(axes)
        coord = None
        if c["coord"]:
            coord = tuple(snp.ones((nax,) + shp, dtype=np.dtype(c["dtype"]).type) * (j + 1) for j in range(c["coord"]))
        return linop.ProjectedGradient(shp, axes=axes, coord=coord, cdiff=c["cdiff"], input_dtype=np.dtype(c["dtype"]).type, jit=jit)
    if k in ("Polar", "Cyl", "Sph"):
        cls = {"Polar": linop.PolarGradient, "Cyl": linop.CylindricalGradient, "Sph": linop.SphericalGradient}[k]
        axes = None if c["axes"] is None else tuple(c["axes"])
        return cls(tuple(c["shape"]), axes=axes, cdiff=c["cdiff"], input_dtype=np.dtype(c["dtype"]).type, jit=jit,
                   **{f: v for f, v in c["flags"].items()})
    if k == "Conv":
        import scico.numpy as snp
        cls = linop.Convolve if c["cls"] == "Convolve" else linop.ConvolveByX
        dt = np.dtype(c["dtype"]).type

        def mk(scale):
            return cls(snp.ones(tuple(c["hshape"]), dtype=dt) * scale, tuple(c["shape"]), input_dtype=dt, mode=c["mode"], jit=jit)
        A = mk(1.0)
        f = c["form"]
        return {"id": lambda: A, "A+B": lambda: A + mk(2.0), "A-B": lambda: A - mk(2.0), "2*": lambda: 2.0 * A,
                "*2": lambda: A * 2.0, "/2": lambda: A / 2.0}[f]()
    if k == "CC":
        import scico.numpy as snp
        h = snp.ones(tuple(c["hshape"]), dtype=np.dtype(c["hdtype"]).type)
        if np.dtype(c["hdtype"]).kind == "c":
            h = h * (1 + 0.5j)
        if c["h_is_dft"]:
            h = snp.fft.fftn(h)
        return linop.CircularConvolve(h, tuple(c["shape"]), input_dtype=np.dtype(c["dtype"]).type, h_is_dft=c["h_is_dft"], jit=jit)
    raise ValueError(k)


def config_spec(c):
    """what the documentation promises: (input shape, output shape) or None when the arguments are excluded"""
    k = c["kind"]
    shp = list(c["shape"])
    if k == "SAFD":
        ax = c["axis"]
        if not -len(shp) <= ax < len(shp) or (c["circular"] and (c["prepend"] is not None or c["append"] is not None)):
            return None
        out = list(shp)
        if not c["circular"]:
            out[ax] += (c["prepend"] is not None) + (c["append"] is not None) - 1
        return [shp, out]
    if k == "FD":
        ax = c["axes"]
        axes = list(range(len(shp))) if ax is None else ([ax] if isinstance(ax, int) else list(ax))
        if c["circular"] and (c["prepend"] is not None or c["append"] is not None):
            return None
        if any(not -len(shp) <= a < len(shp) for a in axes) or len({a % len(shp) for a in axes}) != len(axes):
            return None
        outs = []
        for a in axes:
            o = list(shp)
            if not c["circular"]:
                o[a] += (c["prepend"] is not None) + (c["append"] is not None) - 1
            outs.append(o)
        if all(o == outs[0] for o in outs):     # VerticalStack collapse rule
            return [shp, [len(outs)] + outs[0]]
        return [shp, outs]
    if k == "DFT":
        axes, ash = c["axes"], c["axes_shape"]
        if axes is not None and ash is not None and len(axes) != len(ash):
            return None
        out = list(shp)
        if ash is not None:
            ax = list(range(len(shp) - len(ash), len(shp))) if axes is None else axes
            for i, n in zip(ax, ash):
                out[i] = n
        return [shp, out]
    if k == "PG":
        axes = list(range(len(shp))) if c["axes"] is None else list(c["axes"])
        if any(a >= len(shp) for a in axes):
            return None
        n = c["coord"] if c["coord"] else len(axes)
        return [shp, shp if n == 1 else [shp] * n]
    if k in ("Polar", "Cyl", "Sph"):
        n = sum(1 for v in c["flags"].values() if v)
        return [shp, shp if n == 1 else [shp] * n]
    if k == "Conv":
        first, second = (shp, list(c["hshape"])) if c["cls"] == "Convolve" else (list(c["hshape"]), shp)
        if c["mode"] == "full":
            out = [n + m - 1 for n, m in zip(first, second)]
        elif c["mode"] == "same":
            out = list(first)
        else:
            out = [abs(n - m) + 1 for n, m in zip(first, second)]
        return [shp, out]
    if k == "CC":
        nd = len(shp)                      # ndims default: all axes of the input
        hs = list(c["hshape"])
        hdft = hs if c["h_is_dft"] else hs[:len(hs) - nd] + shp[-nd:]     # the filter is zero-padded to the input size
        out = [int(d) for d in np.broadcast_shapes(tuple(shp), tuple(hdft))]
        return [shp, out]
    return [shp, shp]       # propagators map the source plane to a plane of the same sampling


def observe_config(c):
    import scico.numpy as snp
    from scico.linop import LinearOperator
    try:
        A = build_config(c)
    except (ValueError, TypeError, IndexError, AssertionError) as e:
        return {"ctor": type(e).__name__}
    ob = {"ctor": None, "lin": isinstance(A, LinearOperator), "cls": type(A).__name__}
    ob["ish"], ob["osh"] = canon_shape(A.input_shape), canon_shape(A.output_shape)
    ob["idt"], ob["odt"] = dtn(A.input_dtype), dtn(A.output_dtype)
    ob["isize"], ob["osize"] = int(A.input_size), int(A.output_size)
    ob["mshape"] = [int(v) for v in A.matrix_shape]
    ob["shape_attr_ok"] = canon_shape(A.shape[0]) == ob["osh"] and canon_shape(A.shape[1]) == ob["ish"]

    def res(f, shp, d):
        try:
            y = f(snp.ones(tup(shp), dtype=np.dtype(d).type))
            return [canon_shape(y.shape), dtn(y.dtype)]
        except Exception as e:
            return "raise:" + type(e).__name__
    ob["call"] = res(A, ob["ish"], ob["idt"])
    ob["adj"] = res(A.adj, ob["osh"], ob["odt"])
    for nm in ("inv", "pinv"):
        if hasattr(A, nm):
            ob[nm] = res(getattr(A, nm), ob["osh"], ob["odt"])
    if c["kind"] == "CC":
        cc = dict(c)                         # the same filter given the other way (spatial <-> DFT), same operator shape
        cc["h_is_dft"] = not c["h_is_dft"]
        nd_ = len(c["shape"])
        cc["hshape"] = (list(c["hshape"])[:len(c["hshape"]) - nd_] + list(c["shape"])) if cc["h_is_dft"] else \
            (list(c["hshape"])[:len(c["hshape"]) - nd_] + [2] * nd_)
        forms = [("conj", lambda: A.conj()), ("H", lambda: A.H), ("gram_op", lambda: A.gram_op), ("2*", lambda: 2.0 * A),
                 ("A+B", lambda: A + build_config(cc))]
        ob["forms"] = {}
        for nm, f in forms:
            try:
                B = f()
                d = {"cls": type(B).__name__, "ish": canon_shape(B.input_shape), "osh": canon_shape(B.output_shape),
                     "idt": dtn(B.input_dtype), "odt": dtn(B.output_dtype), "lin": True}
                d["call"] = res(B, d["ish"], d["idt"])
                d["adj"] = res(B.adj, d["osh"], d["odt"])
                ob["forms"][nm] = d
            except Exception as e:
                ob["forms"][nm] = "raise:" + type(e).__name__
    elif c.get("derived"):
        for nm, f in (("H", lambda: A.H), ("gram_op", lambda: A.gram_op)):
            try:
                B = f()
                ob[nm] = [canon_shape(B.input_shape), canon_shape(B.output_shape),
                          res(B, canon_shape(B.input_shape), dtn(B.input_dtype))]
            except Exception as e:
                ob[nm] = "raise:" + type(e).__name__
    return ob


def config_failures(c, ob):
    """(what, expected, observed, oracle) list: declared vs documented rule, declared vs actual"""
    out = []
    want = config_spec(c)
    if ob["ctor"] is not None:
        if want is not None:
            out.append(("constructing a documented configuration raises", want, ob["ctor"], "documented argument range"))
        return out
    if want is None:
        out.append(("a configuration the documentation excludes is accepted", "ValueError", [ob["ish"], ob["osh"]], "documented argument range"))
        return out
    if [ob["ish"], ob["osh"]] != want:
        out.append(("declared shapes differ from the documented rule", want, [ob["ish"], ob["osh"]], "C12_fd_declared_eq_spec / C12_dft_shape"))
    out += _O1_list(ob)
    for nm in ("inv", "pinv"):
        if nm in ob and ob[nm] != [ob["ish"], ob["odt"]] and not (isinstance(ob[nm], list) and ob[nm][0] == ob["ish"]):
            out.append((f"{nm} of an array of the declared output shape does not return the declared input shape",
                        ob["ish"], ob[nm], "inverse maps the output space to the input space"))
    base_clean = not out
    for nm, d in ob.get("forms", {}).items():
        base = [ob["ish"], ob["osh"], ob["idt"], ob["odt"]]
        want_m = {"conj": base, "2*": base, "A+B": base, "H": [ob["osh"], ob["ish"], ob["odt"], ob["idt"]],
                  "gram_op": [ob["ish"], ob["ish"], ob["idt"], ob["idt"]]}[nm]
        if isinstance(d, str):
            out.append((f"derived form {nm}: construction raises", want_m, d, "operator calculus"))
            continue
        got_m = [d["ish"], d["osh"], d["idt"], d["odt"]]
        if got_m != want_m:
            out.append((f"derived form {nm}: declared metadata differ from the operator calculus", want_m, got_m, "spec e (ExprSpec.v)"))
        if base_clean:   # a failure of the operator itself is reported once, above
            fake = dict(d, isize=0, osize=0, mshape=[0, 0], shape_attr_ok=True)
            for w, exp, got, orc in _O1_list(fake):
                if not w.startswith("input_size"):
                    out.append((f"derived form {nm}: {w}", exp, got, orc))
    if "H" in ob:
        if isinstance(ob["H"], str) or ob["H"][:2] != [ob["osh"], ob["ish"]] or isinstance(ob["H"][2], str) or ob["H"][2][0] != ob["ish"]:
            out.append(("H of the operator does not map the declared output shape to the declared input shape",
                        [ob["osh"], ob["ish"]], ob["H"], "operator calculus"))
    if "gram_op" in ob:
        if isinstance(ob["gram_op"], str) or ob["gram_op"][:2] != [ob["ish"], ob["ish"]] or isinstance(ob["gram_op"][2], str) \
                or ob["gram_op"][2][0] != ob["ish"]:
            out.append(("gram_op of the operator does not map the declared input shape to itself",
                        [ob["ish"], ob["ish"]], ob["gram_op"], "operator calculus"))
    return out


def func_failures(c):
    """scico.function.Function with per-argument shapes / dtypes: slice(i), jacobian(i), jvp, vjp, join"""
    import scico.numpy as snp
    from scico.function import Function
    shapes = tuple(tuple(s_) for s_ in c["shapes"])
    dts = [np.dtype(d).type for d in c["dtypes"]]
    i = c["index"]

    def fn(*a):
        r = 2.0 * a[0]
        for t in a[1:]:
            r = r * t
        return r
    out = []
    F = Function(shapes, eval_fn=fn, input_dtypes=tuple(dts))
    args = [snp.ones(s_, dtype=d) for s_, d in zip(shapes, dts)]
    osh, odt = canon_shape(F.output_shape), dtn(F.output_dtype)
    y = F(*args)
    if [canon_shape(y.shape), dtn(y.dtype)] != [osh, odt]:
        out.append(("Function: actual output differs from the declared output shape / dtype", [osh, odt], [canon_shape(y.shape), dtn(y.dtype)], "declared = actual"))
    want_in = [canon_shape(shapes[i]), c["dtypes"][i]]
    fixed = tuple(args[:i] + args[i + 1:])

    def check(nm, A, adj):
        got_in = [canon_shape(A.input_shape), dtn(A.input_dtype)]
        if got_in != want_in:
            out.append((f"{nm}: declared input shape / dtype is not that of the free argument", want_in, got_in, "operator calculus"))
        if [canon_shape(A.output_shape), dtn(A.output_dtype)] != [osh, odt]:
            out.append((f"{nm}: declared output shape / dtype is not the Function's", [osh, odt],
                        [canon_shape(A.output_shape), dtn(A.output_dtype)], "operator calculus"))
        try:
            r = A(snp.ones(A.input_shape, dtype=A.input_dtype))
            got = [canon_shape(r.shape), dtn(r.dtype)]
        except Exception as e:
            got = "raise:" + type(e).__name__
        if got != [canon_shape(A.output_shape), dtn(A.output_dtype)]:
            out.append((f"{nm}: evaluation on the declared input does not yield the declared output",
                        [canon_shape(A.output_shape), dtn(A.output_dtype)], got, "declared = actual"))
        if adj:
            try:
                r = A.adj(snp.ones(A.output_shape, dtype=A.output_dtype))
                got = canon_shape(r.shape)
            except Exception as e:
                got = "raise:" + type(e).__name__
            if got != canon_shape(A.input_shape):
                out.append((f"{nm}: adj on the declared output does not return the declared input shape",
                            canon_shape(A.input_shape), got, "adjoint conforms"))
    check("slice", F.slice(i, *fixed), False)
    check("jacobian", F.jacobian(i, *args), True)
    try:
        Fu, Jv = F.jvp(i, snp.ones(shapes[i], dtype=dts[i]), *args)
        got = [canon_shape(Fu.shape), canon_shape(Jv.shape)]
    except Exception as e:
        got = "raise:" + type(e).__name__
    if got != [osh, osh]:
        out.append(("jvp: result shapes are not the declared output shape", [osh, osh], got, "declared = actual"))
    try:
        Fu, G = F.vjp(i, *args)
        got = canon_shape(G(snp.ones(tuple(osh), dtype=np.dtype(odt).type)).shape)
    except Exception as e:
        got = "raise:" + type(e).__name__
    if got != canon_shape(shapes[i]):
        out.append(("vjp: result shape is not the free argument's shape", canon_shape(shapes[i]), got, "declared = actual"))
    if len(set(c["dtypes"])) == 1 and i == 0:
        J = F.join()
        if canon_shape(J.input_shape) != [list(s_) for s_ in shapes] or dtn(J.input_dtype) != c["dtypes"][0]:
            out.append(("join: declared input is not the block of the arguments", [c["shapes"], c["dtypes"][0]],
                        [canon_shape(J.input_shape), dtn(J.input_dtype)], "operator calculus"))
        r = J(snp.blockarray(args))
        if [canon_shape(r.shape), dtn(r.dtype)] != [osh, odt]:
            out.append(("join: evaluation does not yield the declared output", [osh, odt], [canon_shape(r.shape), dtn(r.dtype)], "declared = actual"))
    elif len(set(c["dtypes"])) > 1 and i == 0:
        try:
            F.join()
            out.append(("join: heterogeneous input dtypes are accepted", "ValueError", "constructed", "documented argument range"))
        except ValueError:
            pass
    return out


def config_lattice(ctx):
    rng = ctx.rng
    must, more = [], []
    # finite differences: every (prepend, append, circular) incl. the falsy values 0, every axis
    for shp in ([6], [3, 4], [2, 3, 4]):
        for ax in range(-len(shp), len(shp)):
            for p, a, circ in FD_BOUNDARY:
                c = {"kind": "SAFD", "shape": shp, "dtype": "float32", "axis": ax, "prepend": p, "append": a, "circular": circ}
                (must if shp == [6] and ax == 0 else more).append(c)
    for shp, axs in (([3, 4], [None, 0, 1, [0, 1], [1], -1]), ([2, 3, 4], [None, [0, 2], [1, 2]])):
        for ax in axs:
            for p, a, circ in FD_BOUNDARY:
                c = {"kind": "FD", "shape": shp, "dtype": "float32", "axes": ax, "prepend": p, "append": a, "circular": circ}
                (must if shp == [3, 4] and ax is None else more).append(c)
    more += [{"kind": "SAFD", "shape": [5], "dtype": "complex64", "axis": 0, "prepend": 0, "append": 1, "circular": False, "jit": True},
             {"kind": "FD", "shape": [3, 4], "dtype": "float64", "axes": None, "prepend": 1, "append": 0, "circular": False, "jit": True},
             {"kind": "SAFD", "shape": [5], "dtype": "float32", "axis": 0, "prepend": 0, "append": None, "circular": True},
             {"kind": "SAFD", "shape": [5], "dtype": "float32", "axis": 1, "prepend": None, "append": None, "circular": False}]
    must += [{"kind": "SAFD", "shape": [3, 4], "dtype": "float32", "axis": -3, "prepend": None, "append": None, "circular": False},
             {"kind": "FD", "shape": [3, 4], "dtype": "float32", "axes": -3, "prepend": None, "append": None, "circular": False}]
    more += [{"kind": "SAFD", "shape": [3, 4], "dtype": "float32", "axis": -4, "prepend": 0, "append": None, "circular": False},
             {"kind": "FD", "shape": [3, 4], "dtype": "float32", "axes": [0, -3], "prepend": None, "append": 0, "circular": False},
             {"kind": "FD", "shape": [3, 4], "dtype": "float32", "axes": [0, 0], "prepend": None, "append": None, "circular": False},
             {"kind": "FD", "shape": [3, 4], "dtype": "float32", "axes": 2, "prepend": None, "append": None, "circular": False}]
    # DFT: (axes None / given) x (axes_shape None / padding / cropping / mixed)
    dft = []
    for shp in ([4], [3, 4], [2, 3, 4]):
        r = len(shp)
        for axes in [None] + [[r - 1]] + ([[0, r - 1], [-1]] if r > 1 else []):
            k = r if axes is None else len(axes)
            sel = shp if axes is None else [shp[i] for i in axes]
            for ash in (None, [2 * n for n in sel], [n - 1 for n in sel], [n + (3 if j % 2 else -1) for j, n in enumerate(sel)]):
                dft.append({"kind": "DFT", "shape": shp, "axes": axes, "axes_shape": ash})
        if r > 1:   # axes None with a shorter axes_shape: applies to the trailing axes
            dft.append({"kind": "DFT", "shape": shp, "axes": None, "axes_shape": [2 * shp[-1]]})
            dft.append({"kind": "DFT", "shape": shp, "axes": None, "axes_shape": [shp[-1] - 1]})
            dft.append({"kind": "DFT", "shape": shp, "axes": [0], "axes_shape": [4, 4]})   # length mismatch: excluded
    must += [d for d in dft if d["shape"] == [3, 4] and d["axes"] is None]
    more += [d for d in dft if not (d["shape"] == [3, 4] and d["axes"] is None)]
    # optics propagators: pad_factor 1, 2, 3; 1-D and 2-D; scalar and anisotropic dx
    prop = []
    for kind in ("ASP", "Fresnel"):
        for shp, dxs in (([8], [1.0, [0.5]]), ([6, 8], [1.0, [1.0, 0.5]])):
            for dx in dxs:
                for pf in (1, 2, 3):
                    prop.append({"kind": kind, "shape": shp, "dx": dx, "k0": 4.0, "z": 2.0, "pad_factor": pf})
    prop += [{"kind": "Fraunhofer", "shape": [8], "dx": 1.0, "k0": 4.0, "z": 2.0},
             {"kind": "Fraunhofer", "shape": [6, 8], "dx": [1.0, 0.5], "k0": 4.0, "z": 2.0}]
    must += [c for c in prop if c["kind"] == "ASP" and c["shape"] == [6, 8] and c["dx"] == [1.0, 0.5]]
    must += [c for c in prop if c["kind"] == "Fresnel" and c["shape"] == [8] and c["dx"] == 1.0 and c["pad_factor"] == 2]
    more += [c for c in prop if c not in must]
    # projected gradients: axes None / single / subsets x cdiff x coord, 1-d .. 3-d inputs
    pg = []
    for shp, axs in (([6], [None, [0]]), ([4, 5], [None, [0], [1], [1, 0]]), ([2, 4, 5], [None, [2], [0, 2], [1]])):
        for ax in axs:
            for cd in (False, True):
                for co in (0, 1, 2):
                    pg.append({"kind": "PG", "shape": shp, "dtype": "float32", "axes": ax, "cdiff": cd, "coord": co})
    pg.append({"kind": "PG", "shape": [4, 5], "dtype": "float32", "axes": [2], "cdiff": False, "coord": 0})   # excluded
    pg.append({"kind": "PG", "shape": [4, 5], "dtype": "complex64", "axes": [1], "cdiff": True, "coord": 0})
    must += [c for c in pg if c["shape"] == [4, 5] and c["axes"] in ([1], [0]) and c["coord"] == 0 and c["dtype"] == "float32"]
    must += [c for c in pg if c["shape"] == [2, 4, 5] and c["axes"] == [2] and c["cdiff"] and c["coord"] == 1]
    more += [c for c in pg if c not in must]
    for cd in (False, True):
        for ax in (None, [1, 0]):
            for fl in ({"angular": True, "radial": True}, {"angular": True, "radial": False}, {"angular": False, "radial": True}):
                more.append({"kind": "Polar", "shape": [4, 5], "dtype": "float32", "axes": ax, "cdiff": cd, "flags": fl})
        more.append({"kind": "Polar", "shape": [2, 4, 5], "dtype": "float32", "axes": [1, 2], "cdiff": cd, "flags": {"angular": True, "radial": True}})
        for ax in (None, [2, 0, 1]):
            more.append({"kind": "Cyl", "shape": [3, 4, 5], "dtype": "float32", "axes": ax, "cdiff": cd,
                         "flags": {"angular": True, "radial": True, "axial": True}})
            more.append({"kind": "Sph", "shape": [3, 4, 5], "dtype": "float32", "axes": ax, "cdiff": cd,
                         "flags": {"azimuthal": True, "polar": True, "radial": True}})
        more.append({"kind": "Cyl", "shape": [3, 4, 5], "dtype": "float32", "axes": None, "cdiff": cd,
                     "flags": {"angular": False, "radial": False, "axial": True}})
        more.append({"kind": "Sph", "shape": [3, 4, 5], "dtype": "float32", "axes": None, "cdiff": cd,
                     "flags": {"azimuthal": False, "polar": True, "radial": False}})
    # CircularConvolve: filter and input over different fields, h_is_dft both ways
    ccs = []
    for hd in ("float32", "complex64"):
        for dt in ("float32", "complex64", "float64"):
            for dft in (False, True):
                ccs.append({"kind": "CC", "shape": [3, 4], "hshape": [2, 2] if not dft else [3, 4], "hdtype": hd, "dtype": dt, "h_is_dft": dft})
    ccs.append({"kind": "CC", "shape": [2, 3, 4], "hshape": [1, 2, 2], "hdtype": "complex64", "dtype": "float32", "h_is_dft": False})
    ccs.append({"kind": "CC", "shape": [3, 4], "hshape": [5, 1, 2], "hdtype": "float32", "dtype": "complex64", "h_is_dft": False})
    must += [c for c in ccs if c["shape"] == [3, 4] and c["dtype"] in ("float32", "complex64") and len(c["hshape"]) == 2
             and (c["hdtype"] == "complex64") != (c["dtype"] == "complex64")]
    more += [c for c in ccs if c not in must]
    # Convolve / ConvolveByX: every mode x the arithmetic forms (both operands of the same mode)
    conv = []
    for cl in ("Convolve", "ConvolveByX"):
        for shp, hs in (([16], [3]), ([5, 6], [2, 3])):
            for mode in ("full", "same", "valid"):
                for f in ("id", "A+B", "A-B", "2*", "*2", "/2"):
                    conv.append({"kind": "Conv", "cls": cl, "shape": shp, "hshape": hs, "mode": mode, "form": f, "dtype": "float32"})
    must += [c for c in conv if c["shape"] == [16] and c["mode"] in ("same", "valid") and c["form"] in ("A+B", "A-B")]
    more += [c for c in conv if c not in must]
    # scico.function.Function: arguments of different shapes and dtypes, every index
    for shapes, dts in (([[3], [2, 3], [1]], ["float32", "complex64", "float32"]),
                        ([[2, 3], [3]], ["complex64", "float32"]),
                        ([[4], [4]], ["float64", "float64"])):
        for i in range(len(shapes)):
            c = {"kind": "Func", "shapes": shapes, "dtypes": dts, "index": i}
            (must if len(shapes) == 3 else more).append(c)
    if ctx.quick:
        more = rng.sample([c for c in more if not c.get("jit")], 20)   # the default-jit configurations: thorough tier
    cfgs = must + more
    for c in rng.sample(cfgs, ctx.n(4, 60)):
        c["derived"] = True
    return cfgs


def run_configs(ctx):
    cfgs = config_lattice(ctx)
    items = {"SAFD": [], "FD": [], "DFT": []}
    metas = {"SAFD": [], "FD": [], "DFT": []}
    for c in cfgs:
        if c["kind"] == "Func":
            ctx.count("config:Func", c)
            for w, exp, got, orc in func_failures(c):
                ctx.violation("config:Func", w, dict(c), expected=exp, observed=got, oracle=orc)
            continue
        ob = observe_config(c)
        ctx.count("config:" + c["kind"], c)
        ok = ob["ctor"] is None
        k = c["kind"]
        if k == "SAFD":
            act = ob["call"][0] if ok and isinstance(ob["call"], list) else None
            items[k].append(f"({c_shape(c['shape'])}, {zlit(c['axis'])}, {c_oz(c['prepend'])}, {c_oz(c['append'])}, {c_bool(c['circular'])}, "
                            f"{c_opt(ob['osh'] if ok else None, c_shape)}, {c_opt(act, c_shape)})")
            metas[k].append(c)
        elif k == "FD":
            ax = c["axes"]
            ax = None if ax is None else ([ax] if isinstance(ax, int) else list(ax))
            items[k].append(f"({c_shape(c['shape'])}, {c_opt(ax, c_shape)}, {c_oz(c['prepend'])}, {c_oz(c['append'])}, {c_bool(c['circular'])}, "
                            f"{c_opt(ob['osh'] if ok else None, c_nshape)})")
            metas[k].append(c)
        elif k == "DFT":
            inv = ob["inv"][0] if ok and isinstance(ob.get("inv"), list) else None
            items[k].append(f"({c_shape(c['shape'])}, {c_opt(c['axes'], c_shape)}, {c_opt(c['axes_shape'], c_shape)}, "
                            f"{c_opt(ob['osh'] if ok else None, c_shape)}, {c_opt(inv, c_shape)})")
            metas[k].append(c)
        for w, exp, got, orc in config_failures(c, ob):
            inp = dict(c)
            inp["declared"] = None if ob["ctor"] is not None else [ob["ish"], ob["osh"], ob["idt"], ob["odt"]]
            ctx.violation("config:" + c["kind"], w, inp, expected=exp, observed=got, oracle=orc)
    run_coded(ctx, "C12_safd", "safd_code", items["SAFD"], metas["SAFD"],
              {1: "SingleAxisFiniteDifference declared shape: model differs from the implementation",
               2: "SingleAxisFiniteDifference evaluation shape: model differs from the implementation"}, model_bits=3,
              ty="shape * Z * option Z * option Z * bool * option shape * option shape")
    run_coded(ctx, "C12_fd", "fd_code", items["FD"], metas["FD"],
              {1: "FiniteDifference declared shape: model differs from the implementation"}, model_bits=1,
              ty="shape * option (list Z) * option Z * option Z * bool * option nshape")
    run_coded(ctx, "C12_dft", "dft_code", items["DFT"], metas["DFT"],
              {1: "DFT declared shape: model differs from the implementation",
               2: "DFT.inv shape: model differs from the implementation"}, model_bits=3,
              ty="shape * option (list Z) * option (list Z) * option shape * option shape")
    return cfgs


# ------------------------------------------------------------------ run / replay

def run(ctx: Ctx):
    import jax
    import os
    jax.config.update("jax_enable_x64", True)
    if os.environ.get("C12_DEBUG"):
        orig = ctx.violation
        from vf.common import _match
        log = open(os.environ["C12_DEBUG"] if "/" in os.environ["C12_DEBUG"] else "/verif/build/C12/viol.jsonl", "w")

        def v(unit, what, inp, expected=None, observed=None, oracle=""):
            rec = {"property": ctx.pid, "unit": unit, "what": what, "input": inp, "expected": expected, "observed": observed}
            hits = [k["when"] for k in ctx.known if k["unit"] == unit and _match(k, rec)]
            r = orig(unit, what, inp, expected, observed, oracle)
            log.write(json.dumps({"unit": unit, "what": what, "inp": inp, "exp": expected, "obs": observed, "new": r, "hits": hits}, default=str) + "\n")
            log.flush()
            return r
        ctx.violation = v
    if not getattr(ctx, "no_proofs", False):
        ctx.proofs()
    ctx.trusted += [
        "transcription of Python slice/list/tuple semantics and of the scico constructors into C12/Slice.v, C12/Shape.v, C12/Expr.v "
        "(validated, not proved, by the correspondence streams of vf/props/C12.py)",
        "dtype behaviour of JAX/XLA arithmetic is the promotion lattice join/rt_scal on {f32,f64,c64,c128} with weak Python scalars; "
        "jax.linear_transpose returns the primal's shape/dtype and demands the exact cotangent shape/dtype; jax.vmap axis bookkeeping "
        "(modelled; exercised by every expression case)",
        "NumPy basic indexing (np_index_shape) and numpy.broadcast_shapes as specification, compared with NumPy itself on every case",
    ]
    ctx.notes += ["not modelled: Python's reflected-operand dispatch (L +/- MatrixOperator goes to MatrixOperator.__radd__/__rsub__ "
                  "first); such sums are not generated.  Crop is modelled on its declared dtype only (not used as the outer "
                  "operator of generated compositions).  A / s is modelled by the same rule as s * A (Expr.v op_scal) and "
                  "generated as its own unit derived:div (fixed boundary cases + random trees + sweep forms /2, /2j, /npc64)."]
    ctx.assumptions += ["values are abstracted: only shape and dtype of arrays are modelled",
                        "dtypes restricted to float32/float64/complex64/complex128 (x64 enabled)"]
    import time
    for f in (run_slices, run_index, run_shapes, run_exprs, run_sweep, run_configs, run_malformed):
        t0 = time.time()
        f(ctx)
        ctx.notes.append(f"stream {f.__name__}: {time.time() - t0:.1f} s")
    ctx.exhaustive = not ctx.quick  # slice lattice / class x dtype x form tables are complete in the thorough tier


def replay(ctx: Ctx, rec):
    import jax
    jax.config.update("jax_enable_x64", True)
    unit, inp = rec["unit"], rec["input"]
    c2 = Ctx(ctx.pid, ctx.tier, ctx.seed)
    c2.known = []
    if unit == "slice_length":
        from scico.numpy.util import slice_length
        if "idx" in inp:
            return True
        sl = slice(inp["start"], inp["stop"], inp["step"])
        try:
            return slice_length(inp["n"], sl) == len(range(*sl.indices(inp["n"])))
        except ValueError:
            return False
    if unit == "indexed_shape":
        a, b = eval_index(inp["shape"], inp["idx"])
        return a == b
    if unit.startswith("derived:") or unit.startswith("leaf:"):
        t = inp["expr"]
        ob = observe(t)
        oracle_O1(c2, unit, t, ob)
        if not c2.violations and encodable(ob):
            cmpadj = ob["ctor"] is None and ob.get("lin", False)
            body = (f"Definition cases : list (ox * option av * option av * bool * obs) := [({coq_ox(t)}, None, None, {c_bool(cmpadj)}, {c_obs(ob)})].\n"
                    "Eval vm_compute in (map code cases).")
            c = parse_eval_nat_list(coq_eval_shards("C12_replay", HEADER, [body])[0])[0]
            if c & 8 or (c & 16 and t[0] in ("vstack", "dstack") and ob["ctor"] is None):
                return False
        return not c2.violations
    if unit.startswith("config:"):
        c = {k: v for k, v in inp.items() if k != "declared"}
        if c["kind"] == "Func":
            return not func_failures(c)
        return not config_failures(c, observe_config(c))
    if unit.startswith("sweep:"):
        r = sweep_one(inp["class"], inp["dtype"], inp["form"])
        if r is None:
            return True
        if r["ctor"] is not None:
            return False
        _O1(c2, unit, inp, r)
        want = sweep_expected(r["base"], inp["form"])
        return not c2.violations and (want is None or want == [r["ish"], r["osh"], r["idt"], r["odt"]])
    if unit.startswith("malformed:"):
        if "ctor" in inp:
            bc = None
            c3 = Ctx(ctx.pid, "quick", 0)
            c3.known = []
            # rebuild the table and run only this constructor
            import scico.numpy as snp
            from scico import linop, operator
            try:
                _replay_ctor(inp["ctor"])
                return False
            except (ValueError, TypeError, IndexError):
                return True
        got = run_malformed_one(inp["class"], inp["dtype"], inp["kind"], inp["arg"], inp["which"])
        return isinstance(got, str)
    if unit in ("collapse_shapes", "broadcast_nested_shapes", "shape_to_size"):
        return True
    raise SystemExit("unknown unit " + unit)


def _replay_ctor(nm):
    c = Ctx("C12", "quick", 0)
    c.known = []
    table = {}

    class Grab(Exception):
        pass
    # run_malformed builds the table at its end; reuse it without running the rest
    import scico.numpy as snp
    from scico import linop, operator
    tbl = _bad_ctor_table()
    return tbl[nm]()


def _bad_ctor_table():
    # the same table as in run_malformed (kept in one place: built by calling it on an empty context)
    class Dummy(Ctx):
        pass
    c = Ctx("C12", "quick", 0)
    c.known = []
    import scico.linop  # noqa
    saved = class_table
    try:
        globals()["class_table"] = lambda: {}
        return run_malformed(c)
    finally:
        globals()["class_table"] = saved
