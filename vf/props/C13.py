"""C13 -- block arrays and the wrapped numpy namespace act block-wise.

Theorems: coq/Properties/C13.v (models coq/theories/C13/{Wrap,Block}.v).
Correspondence (vf.props.C13):
  (A) structure sweep: recording stubs with generated signatures pushed through the *real*
      scico.numpy._wrappers functions / scico.random._wrap; the Coq model (Exec.v, free library
      function, uninterpreted tags) must predict exactly the per-block calls, their arguments,
      their order and the assembly of the result;
  (B) every operator of the BlockArray class x operand mixes, the per-block jax operator replaced
      by a recording proxy (closure cell of the installed wrapper): call pattern vs the Coq model,
      values vs per-block jax;
  (C) every wrapped name (mathematical functions, reductions, creation routines, scipy.special,
      random) x operand mixes versus per-block jax.numpy (bit for bit), the installed wrapper's
      call pattern vs the Coq model;
  (D) lifted methods / properties vs per-block values;
  (E) jit / grad / other transformations / tree_flatten-unflatten round trips, dtype homogeneity.
"""
from __future__ import annotations

import inspect
import operator

import numpy as np

from vf.common import Ctx, Broken, coq_eval_shards, parse_eval_nat_list, zlit, coq_list

HEADER = """From Coq Require Import List Bool Arith ZArith.
From SV Require Import C13.Wrap C13.Block C13.Exec.
Import ListNotations.
Open Scope Z_scope.
"""

EXC = {TypeError: 1, ValueError: 2, IndexError: 3}


def exc_code(e):
    for k, v in EXC.items():
        if type(e) is k:
            return v
    return 9


class Tag:
    """opaque plain (non-array, non-block) argument"""
    def __init__(self, i):
        self.i = i

    def __repr__(self):
        return f"Tag({self.i})"


# ---------------------------------------------------------------- Coq literals

def v_obj(i):
    return f"(VObj {zlit(i)})"


def c_arg(a):
    """a = ('B', [val strings]) | ('P', val string)"""
    if a[0] == "B":
        return "(Blk " + coq_list(a[1]) + ")"
    return f"(Pln {a[1]})"


def c_call(c, wrap=c_arg):
    pos, kw = c
    return "(" + coq_list([wrap(a) for a in pos]) + ", " + coq_list([f"({zlit(k)}, {wrap(v)})" for k, v in kw]) + ")"


def c_obs(o, wrap=c_arg):
    kind, code, calls = o
    return f"({kind}, {code}, " + coq_list([c_call(c, wrap) for c in calls]) + ")"


def c_sig(s):
    return "(" + ", ".join(coq_list([zlit(k) for k in part]) for part in s) + ")"


class Enc:
    """identity tags for the objects of one case"""

    def __init__(self):
        self.ids = {}
        self.keep = []
        self.blocks = []      # (BlockArray, [ids])
        self.n = 0

    def new(self, obj):
        self.n += 1
        self.ids[id(obj)] = self.n
        self.keep.append(obj)
        return self.n

    def arg(self, x):
        """encode a top-level argument (registers it)"""
        from scico.numpy import BlockArray
        if isinstance(x, BlockArray):
            for ba, ids in self.blocks:
                if ba is x:
                    return ("B", [v_obj(i) for i in ids])
            ids = [self.new(b) for b in x.arrays]
            self.blocks.append((x, ids))
            self.keep.append(x)
            return ("B", [v_obj(i) for i in ids])
        if isinstance(x, (list, tuple)) and any(isinstance(t, (list, tuple)) for t in x):
            # nested shape: elements registered individually
            return ("P", "(VTuple " + coq_list([v_obj(self.new(t)) for t in x]) + ")")
        return ("P", v_obj(self.new(x)))

    def seen(self, x):
        """encode an argument received by the library function"""
        from scico.numpy import BlockArray
        if id(x) in self.ids:
            return ("P", v_obj(self.ids[id(x)]))
        if isinstance(x, BlockArray):
            for ba, ids in self.blocks:
                if ba is x:
                    return ("B", [v_obj(i) for i in ids])
            return ("B", [v_obj(-1)])
        import jax
        if isinstance(x, jax.Array) and x.ndim == 1:
            for ba, ids in self.blocks:
                if len(ba.arrays) == 0:
                    continue
                cat = np.concatenate([np.asarray(b).ravel() for b in ba.arrays])
                if cat.shape == x.shape and cat.dtype == x.dtype and np.array_equal(cat, np.asarray(x), equal_nan=(cat.dtype.kind in "fc")):
                    return ("P", "(VConcat " + coq_list([f"(VRavel {v_obj(i)})" for i in ids]) + ")")
        return ("P", v_obj(-1))


def observe(enc, log, rets, run):
    """run() -> observation (kind, code, calls-of-the-result-in-order)"""
    from scico.numpy import BlockArray
    try:
        r = run()
    except Exception as e:  # noqa
        return (2, exc_code(e), []), e
    def which(x):
        for k, rr in enumerate(rets):
            if rr is x:
                return k
        return None
    if isinstance(r, BlockArray):
        calls = []
        for b in r.arrays:
            k = which(b)
            calls.append(log[k] if k is not None else ([("P", v_obj(-2))], []))
        return (1, 0, calls), r
    k = which(r)
    return (0, 0, [log[k]] if k is not None else [([("P", v_obj(-3))], [])]), r


# ---------------------------------------------------------------- (A) structure sweep

_POOL = None


def pool():
    global _POOL
    if _POOL is None:
        import jax.numpy as jnp
        shapes = [(), (2,), (2, 3), (1,), (3,)]
        _POOL = {"arr": [jnp.asarray(np.arange(int(np.prod(s)) or 1, dtype=np.float64).reshape(s) + 10 * i)
                         for i, s in enumerate(shapes * 6)],
                 "ret": [jnp.asarray(float(i)) for i in range(8)]}
    return _POOL


def fresh_arrays(rng, n):
    import jax.numpy as jnp
    p = pool()["arr"]
    # new python objects (identity matters): cheap views via jnp.asarray of numpy data are new objects
    return [p[rng.randrange(len(p))] + 0 for _ in range(n)]


def make_stub(pos, kwonly, req, enc, log, rets, keymap):
    P = inspect.Parameter

    def stub(*a, **k):
        log.append(([enc.seen(x) for x in a], [(keymap[n], enc.seen(v)) for n, v in k.items()]))
        r = pool()["ret"][len(rets) % 8] + 0
        rets.append(r)
        return r
    params = [P(n, P.POSITIONAL_OR_KEYWORD, default=(P.empty if n in req else None)) for n in pos]
    params += [P(n, P.KEYWORD_ONLY, default=None) for n in kwonly]
    stub.__signature__ = inspect.Signature(params)
    stub.__name__ = "stub"
    stub.__doc__ = "stub\n\nstub"
    return stub


def gen_struct_case(rng, kind):
    """kind 0 map_blocks, 1 full_reduction, 2 creation, 3 random"""
    from scico.numpy import BlockArray
    npos = rng.randint(1, 4)
    names = ["a", "b", "c", "d"][:npos]
    kwonly = ["w", "z"][: rng.choice([0, 0, 1, 2])]
    special = {1: "axis", 2: "shape", 3: "shape"}.get(kind)
    if kind == 3:
        names = ["key", "shape"] + names[: rng.randint(0, 2)]
        kwonly = []
    elif special:
        names.insert(rng.randint(1 if kind == 1 else 0, len(names)), special)
    nreq = rng.randint(0, 2) if kind != 3 else 1
    req = names[:nreq]
    allp = names + kwonly
    nblk = rng.randint(1, 3)
    # which params are passed and how
    mode = rng.random()
    passed_pos = rng.randint(0, len(names))
    if kind in (1, 2) and rng.random() < 0.6:
        passed_pos = rng.randint(1, len(names))
    pos_names = names[:passed_pos]
    kw_names = [n for n in allp[passed_pos:] if rng.random() < 0.5]
    for r_ in req:
        if r_ not in pos_names and r_ not in kw_names and rng.random() < 0.9:
            kw_names.append(r_)
    rng.shuffle(kw_names)
    bad = None
    if mode < 0.06 and kind != 3:
        bad = "dup" if pos_names else "unknown"
    elif mode < 0.10 and kind != 3:
        bad = "unknown"
    elif mode < 0.13 and kind != 3:
        bad = "toomany"
    spec = {"kind": kind, "pos": names, "kwonly": kwonly, "req": req, "nblk": nblk,
            "pos_names": pos_names, "kw_names": kw_names, "bad": bad, "vals": {}}
    for n in set(pos_names + kw_names):
        if kind in (2, 3):
            if n == "shape":
                r = rng.random()
                spec["vals"][n] = ["nested", rng.randint(1, 3)] if r < 0.7 else ["plainshape"]
            else:
                spec["vals"][n] = ["tag"]
        else:
            r = rng.random()
            if n == "axis":
                spec["vals"][n] = ["tag"] if r < 0.9 else ["block", nblk]
            elif r < 0.45:
                # (empty block arrays are outside the property; the reduction wrapper is only driven with >= 1 block)
                spec["vals"][n] = ["block", nblk if rng.random() < 0.9 else rng.randint(0 if kind == 0 else 1, 3)]
            elif r < 0.7:
                spec["vals"][n] = ["array"]
            else:
                spec["vals"][n] = ["tag"]
    if kind in (0, 1) and not any(v[0] == "block" for v in spec["vals"].values()) and pos_names and rng.random() < 0.85:
        spec["vals"][pos_names[0]] = ["block", nblk]
    if kind == 3:
        spec["keymode"] = rng.choice(["none", "key", "seed", "both", "poskey"])
        spec["seedval"] = 1000 + rng.randint(0, 50)
    return spec


def run_struct_case(spec, rng_seed):
    """-> (coq case string, observation, model-independent info)"""
    import random as _r
    import jax
    import scico.numpy as snp
    from scico.numpy import BlockArray, _wrappers as W
    rng = _r.Random(rng_seed)
    kind = spec["kind"]
    enc, log, rets = Enc(), [], []
    allp = spec["pos"] + spec["kwonly"] + ["zz_unknown"]
    keymap = {n: i + 1 for i, n in enumerate(allp)}
    stub = make_stub(spec["pos"], spec["kwonly"], spec["req"], enc, log, rets, keymap)

    def mkval(v):
        if v[0] == "block":
            return BlockArray(fresh_arrays(rng, v[1]))
        if v[0] == "array":
            return fresh_arrays(rng, 1)[0]
        if v[0] == "nested":
            return tuple(tuple([2 + i, j + 1][: rng.randint(1, 2)]) for i, j in enumerate(range(v[1])))
        if v[0] == "plainshape":
            return tuple([2, 3])
        return Tag(0)
    vals = {n: mkval(v) for n, v in spec["vals"].items()}
    args = [vals[n] for n in spec["pos_names"]]
    kw = {n: vals[n] for n in spec["kw_names"]}
    if spec["bad"] == "dup":
        kw[spec["pos_names"][0]] = Tag(1)
    elif spec["bad"] == "unknown":
        kw["zz_unknown"] = Tag(2)
    elif spec["bad"] == "toomany":
        args = args + [Tag(3 + q) for q in range(len(spec["pos"]) - len(args) + 1)]
    sg = ([keymap[n] for n in spec["pos"]], [keymap[n] for n in spec["kwonly"]], [keymap[n] for n in spec["req"]])
    if kind in (0, 1):
        cargs = [enc.arg(a) for a in args]
        ckw = [(keymap[k], enc.arg(v)) for k, v in kw.items()]
        f = W.map_func_over_blocks(stub)
        if kind == 1:
            f = W.add_full_reduction(f)
        o, _ = observe(enc, log, rets, lambda: f(*args, **kw))
        case = (f"({kind}, {c_sig(sg)}, {zlit(keymap.get('axis', 0))}, " + coq_list([c_arg(a) for a in cargs]) + ", "
                + coq_list([f"({zlit(k)}, {c_arg(v)})" for k, v in ckw]) + ", " + c_obs(o) + ")")
        return "blocks", case, o
    pl = lambda a: a[1]
    if kind == 2:
        cargs = [enc.arg(a) for a in args]
        ckw = [(keymap[k], enc.arg(v)) for k, v in kw.items()]
        f = W.map_func_over_tuple_of_tuples(stub)
        o, _ = observe(enc, log, rets, lambda: f(*args, **kw))
        case = (f"({c_sig(sg)}, {zlit(keymap['shape'])}, " + coq_list([pl(a) for a in cargs]) + ", "
                + coq_list([f"({zlit(k)}, {pl(v)})" for k, v in ckw]) + ", " + c_obs(o, pl) + ")")
        return "creation", case, o
    # kind 3: scico.random._wrap(stub); user arguments exclude the key parameter
    import scico.random as sr
    f = sr._wrap(stub)
    uargs = [vals[n] for n in spec["pos_names"] if n != "key"]
    ukw = {n: vals[n] for n in spec["kw_names"] if n != "key"}
    if "shape" not in spec["pos_names"] and "shape" not in spec["kw_names"]:
        pass
    keyobj = jax.random.PRNGKey(7)
    seedval = spec["seedval"]
    km = spec["keymode"]
    kopt = sopt = "None"
    call_kw = dict(ukw)
    call_args = list(uargs)
    if km in ("key", "both"):
        call_kw["key"] = keyobj
    if km in ("seed", "both"):
        call_kw["seed"] = seedval
    if km == "poskey" and len(call_args) == len(spec["pos"]) - 1:
        call_args.append(keyobj)
        km = "poskeyok"
    cargs = [enc.arg(a) for a in call_args]
    if km == "poskeyok":
        cargs[-1] = ("P", v_obj(enc.ids[id(keyobj)]))
    else:
        enc.new(keyobj)
    kid = enc.ids[id(keyobj)]
    if km in ("key", "both"):
        kopt = f"(Some {v_obj(kid)})"
    if km in ("seed", "both"):
        sopt = f"(Some {v_obj(900)})"
    ckw = [(keymap[k], enc.arg(v)) for k, v in ukw.items()]
    used_seed = seedval if km in ("seed", "both") else 0
    gen_key = jax.random.PRNGKey(used_seed)
    orig_seen = enc.seen

    def seen(x):
        if id(x) not in enc.ids and isinstance(x, jax.Array) and x.shape == gen_key.shape and np.array_equal(np.asarray(x), np.asarray(gen_key)):
            return ("P", f"(VTuple [VObj 700; {v_obj(900) if km in ('seed', 'both') else 'VObj 701'}])")
        return orig_seen(x)
    enc.seen = seen
    res = {}

    def run():
        r, k = f(*call_args, **call_kw)
        res["k"] = k
        return r
    o, _ = observe(enc, log, rets, run)
    knew = v_obj(-5)
    if "k" in res:
        used = keyobj if km in ("key", "poskeyok") else gen_key
        if np.array_equal(np.asarray(res["k"]), np.asarray(jax.random.split(used, 2)[0])):
            knew = f"(VRavel {seen(used)[1]})"
    case = (f"({c_sig(sg)}, {zlit(keymap['shape'])}, " + coq_list([pl(a) for a in cargs]) + f", {kopt}, {sopt}, "
            + coq_list([f"({zlit(k)}, {pl(v)})" for k, v in ckw]) + ", (" + c_obs(o, pl) + f", {knew}))")
    return "random", case, o


CHECKERS = {"blocks": "blocks_case_ok", "creation": "creation_case_ok", "random": "random_case_ok",
            "op": "op_case_ok", "unary": "unary_case_ok", "tree": "tree_case_ok", "ctor": "ctor_case_ok", "attr": "attr_case_ok", "void": "void_case_ok"}


def coq_check(name, groups):
    """groups: {checker kind: [case strings]} -> {kind: [failing indices]}"""
    bodies, keys = [], []
    for kind, items in groups.items():
        for s in range(0, len(items), 250):
            bodies.append(f"Definition cases : list {kind}_case := " + coq_list(items[s:s + 250], ";\n ") + ".\n"
                          f"Eval vm_compute in (bad_idx {CHECKERS[kind]} cases 0%nat).")
            keys.append((kind, s))
    if not bodies:
        return {}
    outs = coq_eval_shards(name, HEADER, bodies)
    bad = {}
    for (kind, s), o in zip(keys, outs):
        bad.setdefault(kind, []).extend(s + i for i in parse_eval_nat_list(o))
    return bad


# ---------------------------------------------------------------- comparing with per-block jax

def leaf_same(o, e):
    """o: what the block array holds, e: what jax gives for that block"""
    import jax
    if isinstance(e, (jax.Array, np.ndarray, np.generic)):
        if not isinstance(o, (jax.Array, np.ndarray, np.generic)):
            return False
        oa, ea = np.asarray(o), np.asarray(e)
        if oa.shape != ea.shape or oa.dtype != ea.dtype:
            return False
        return bool(np.array_equal(oa, ea, equal_nan=(ea.dtype.kind in "fc")))
    if isinstance(e, (bool, int, float, complex)):
        oa = np.asarray(o)
        return oa.shape == () and oa.dtype.kind == np.asarray(e).dtype.kind and (oa.item() == e or (oa.item() != oa.item() and e != e))
    return o is e or o == e


def tree_same(o, e):
    import jax
    lo, to = jax.tree_util.tree_flatten(o)
    le, te = jax.tree_util.tree_flatten(e)
    if to != te or len(lo) != len(le):
        return False
    for a, b in zip(lo, le):
        if isinstance(b, (jax.Array, np.ndarray, np.generic, bool, int, float, complex)):
            if not leaf_same(a, b):
                return False
        else:
            try:
                if not (a is b or bool(a == b) or type(a) is type(b)):
                    return False
            except Exception:  # noqa
                if type(a) is not type(b):
                    return False
    return True


def is_seq_result(e):
    return isinstance(e, (tuple, list))


def compare_blocks(res, exps, container="block"):
    """res: result of the scico call; exps: per-block jax results.  -> None | what (str)"""
    from scico.numpy import BlockArray
    if container == "block":
        if not isinstance(res, BlockArray):
            return f"result is {type(res).__name__}, not a BlockArray"
        got = res.arrays
    else:
        if not isinstance(res, tuple):
            return f"result is {type(res).__name__}, not a tuple"
        got = list(res)
    if len(got) != len(exps):
        return f"{len(got)} blocks in the result, {len(exps)} expected"
    for i, (o, e) in enumerate(zip(got, exps)):
        if container == "block" and is_seq_result(e):
            return "per-block jax result is a tuple/list: BlockArray() coerces it into one stacked array"
        if not leaf_same(o, e):
            return "block differs from the per-block jax result (value, shape or dtype)"
    if container == "block":
        dts = {str(b.dtype) for b in got}
        if len(dts) > 1:
            return "result block array has heterogeneous dtypes"
    return None


def jsonable(x):
    from scico.numpy import BlockArray
    import jax
    if isinstance(x, BlockArray):
        return {"block": [jsonable(b) for b in x.arrays]}
    if isinstance(x, (jax.Array, np.ndarray)):
        a = np.asarray(x)
        return {"dtype": str(a.dtype), "shape": list(a.shape),
                "data": [complex(t).__repr__() if a.dtype.kind == "c" else (float(t) if a.dtype.kind == "f" else int(t)) for t in a.ravel()]}
    if isinstance(x, (tuple, list)):
        return [jsonable(t) for t in x]
    if isinstance(x, (bool, int, float, str)) or x is None:
        return x
    return repr(x)


def unjson(x):
    import jax.numpy as jnp
    from scico.numpy import BlockArray
    if isinstance(x, dict) and "block" in x:
        return BlockArray([unjson(b) for b in x["block"]])
    if isinstance(x, dict) and "dtype" in x:
        data = [complex(t) for t in x["data"]] if x["dtype"].startswith("complex") else x["data"]
        return jnp.asarray(np.array(data, dtype=x["dtype"]).reshape(x["shape"]))
    if isinstance(x, list):
        return tuple(unjson(t) for t in x)
    return x


# ---------------------------------------------------------------- closure-cell patching

class Patched:
    """temporarily replace free variable `var` of closure `fn` (the installed wrapper)"""

    def __init__(self, fn, var, make):
        self.cell = fn.__closure__[fn.__code__.co_freevars.index(var)]
        self.orig = self.cell.cell_contents
        self.make = make

    def __enter__(self):
        self.cell.cell_contents = self.make(self.orig)
        return self

    def __exit__(self, *a):
        self.cell.cell_contents = self.orig


def innermost(fn, code_names=("mapped", "wrapped")):
    """descend through SCICO wrappers to the one whose `func` is the library function"""
    chain = [fn]
    while True:
        f = chain[-1]
        if getattr(f, "__closure__", None) and "func" in f.__code__.co_freevars and f.__code__.co_name in code_names:
            inner = f.__closure__[f.__code__.co_freevars.index("func")].cell_contents
            if getattr(inner, "__code__", None) is not None and inner.__code__.co_name in code_names \
                    and "func" in inner.__code__.co_freevars and inner.__code__.co_filename == f.__code__.co_filename:
                chain.append(inner)
                continue
        return chain


# ---------------------------------------------------------------- (B) operators

BIN_SYMS = [("+", operator.add, "__add__", "__radd__"), ("-", operator.sub, "__sub__", "__rsub__"),
            ("*", operator.mul, "__mul__", "__rmul__"), ("@", operator.matmul, "__matmul__", "__rmatmul__"),
            ("/", operator.truediv, "__truediv__", "__rtruediv__"), ("//", operator.floordiv, "__floordiv__", "__rfloordiv__"),
            ("%", operator.mod, "__mod__", "__rmod__"), ("**", operator.pow, "__pow__", "__rpow__"),
            ("divmod", divmod, "__divmod__", "__rdivmod__"),
            ("<", operator.lt, "__lt__", "__gt__"), ("<=", operator.le, "__le__", "__ge__"),
            (">", operator.gt, "__gt__", "__lt__"), (">=", operator.ge, "__ge__", "__le__"),
            ("==", operator.eq, "__eq__", "__eq__"), ("!=", operator.ne, "__ne__", "__ne__"),
            ("&", operator.and_, "__and__", "__rand__"), ("|", operator.or_, "__or__", "__ror__"),
            ("^", operator.xor, "__xor__", "__rxor__"), ("<<", operator.lshift, "__lshift__", "__rlshift__"),
            (">>", operator.rshift, "__rshift__", "__rrshift__")]
UN_SYMS = [("abs", operator.abs, "__abs__"), ("neg", operator.neg, "__neg__"), ("pos", operator.pos, "__pos__"),
           ("~", operator.invert, "__invert__")]
INT_ONLY = {"&", "|", "^", "<<", ">>", "~"}
MIXES = ["block-block", "block-array", "block-scalar", "block-0d", "array-block", "scalar-block",
         "numpy-block", "npscalar-block", "block-str"]


def gen_blocks(rng, family="any", n=None, dtype="float64"):
    """list of numpy arrays (dyadic entries) of one dtype"""
    n = n or rng.randint(1, 3)
    shp = {"any": [(), (3,), (2, 3), (1,), (2, 2)], "vec": [(3,), (4,), (2,)], "mat": [(2, 3), (3, 2), (2, 2)],
           "sq": [(2, 2), (3, 3)], "vec3": [(3,), (2, 3)], "nd1": [(3,), (2, 3), (4,)], "cube": [(2, 2, 2), (2, 4, 2), (4, 2, 2)],
           "len4": [(4,), (6,), (4, 2)], "t4": [(2, 2, 2, 2), (1, 4, 2, 2)], "sq2": [(2, 2)], "zd": [()]}[family]
    out = []
    for _ in range(n):
        s = rng.choice(shp)
        k = int(np.prod(s)) if s else 1
        if dtype.startswith("int"):
            a = np.array([rng.randint(-4, 6) for _ in range(k)], dtype=dtype)
        elif dtype == "bool":
            a = np.array([rng.random() < 0.5 for _ in range(k)], dtype=bool)
        elif dtype.startswith("complex"):
            a = np.array([complex(rng.randint(-16, 16) / 4, rng.randint(-16, 16) / 4) for _ in range(k)], dtype=dtype)
        else:
            a = np.array([rng.randint(-16, 16) / 4 for _ in range(k)], dtype=dtype)
        a = a.reshape(s)
        if family in ("sq", "sq2") and dtype.startswith("float"):
            a = a @ a.T + np.eye(s[0])
        out.append(a)
    return out


def like(rng, blocks, dtype=None):
    out = []
    for b in blocks:
        dt = dtype or str(b.dtype)
        if dt.startswith("int"):
            a = np.array([rng.randint(1, 5) for _ in range(b.size)], dtype=dt)
        elif dt == "bool":
            a = np.array([rng.random() < 0.5 for _ in range(b.size)], dtype=bool)
        else:
            a = np.array([rng.randint(-16, 16) / 4 for _ in range(b.size)], dtype=dt)
        out.append(a.reshape(b.shape))
    return out


def op_cases(ctx):
    """every operator symbol x operand mix"""
    rng = ctx.rng
    cases = []
    for sym, fn, fwd, rfl in BIN_SYMS:
        mixes = MIXES if not ctx.quick else ["block-block"] + rng.sample(MIXES[1:], 3)
        if sym in ("%", "divmod"):
            mixes = list(dict.fromkeys(list(mixes) + ["scalar-block", "array-block"]))
        for mix in mixes:
            for rep in range(ctx.n(1, 4)):
                dt = "int64" if sym in INT_ONLY else rng.choice(["float64", "float64", "float32", "int64"])
                fam = "sq2" if sym == "@" else rng.choice(["any", "any", "zd"])
                if sym == "@" and mix in ("block-scalar", "block-0d", "scalar-block", "npscalar-block"):
                    continue
                x = gen_blocks(rng, fam, dtype=dt)
                if sym == "@":
                    x = [np.asarray(b, dtype=dt) for b in x]
                y = like(rng, x)
                sc = rng.choice([2, 3]) if dt.startswith("int") else rng.choice([2.0, 0.5, 3])
                cases.append({"sym": sym, "mix": mix, "x": jsonable_np(x), "y": jsonable_np(y), "scalar": sc})
    for sym, fn, dn in UN_SYMS:
        for rep in range(ctx.n(2, 6)):
            dt = "int64" if sym in INT_ONLY else rng.choice(["float64", "float32", "int64"])
            x = gen_blocks(rng, "any", dtype=dt)
            cases.append({"sym": sym, "mix": "unary", "x": jsonable_np(x), "y": None, "scalar": 0})
    return cases


def jsonable_np(blocks):
    return [jsonable(b) for b in blocks]


def run_op_case(c):
    """-> (what | None, coq (kind, case) | None, info)"""
    import jax.numpy as jnp
    from scico.numpy import BlockArray
    import scico.numpy._blockarray as B
    from scico.numpy._wrapped_function_lists import binary_ops, unary_ops
    sym, mix = c["sym"], c["mix"]
    xs = [unjson(b) for b in c["x"]]
    X = BlockArray(xs)
    if mix == "unary":
        _, fn, dn = next(t for t in UN_SYMS if t[0] == sym)
        exps = [fn(b) for b in xs]
        log = []
        ids = {id(b): 10 + i for i, b in enumerate(X.arrays)}
        coq = None
        try:
            if dn in unary_ops:
                def mk(orig):
                    def proxy(a):
                        log.append([unary_ops.index(dn) + 1, ids.get(id(a), -1)])
                        return orig(a)
                    return proxy
                with Patched(getattr(BlockArray, dn), "op", mk):
                    res = fn(X)
                coq = ("unary", f"({unary_ops.index(dn) + 1}, " + coq_list([zlit(10 + i) for i in range(len(xs))]) + ", (1, 0, "
                       + coq_list([coq_list([zlit(t) for t in l]) for l in log]) + "))")
            else:
                res = fn(X)
        except Exception as e:  # noqa
            return f"raises {type(e).__name__} although the per-block jax operator succeeds", coq, None
        return compare_blocks(res, exps), coq, None
    _, fn, fwd, rfl = next(t for t in BIN_SYMS if t[0] == sym)
    ys = [unjson(b) for b in c["y"]]
    sc = c["scalar"]
    other = {"block": BlockArray(ys), "array": jnp.asarray(np.asarray(xs[0]).ravel()[:1] * 0 + sc), "scalar": sc,
             "0d": jnp.asarray(sc, dtype=xs[0].dtype), "numpy": np.asarray(np.asarray(xs[0]).ravel()[:1] * 0 + sc),
             "npscalar": np.asarray(xs[0]).dtype.type(sc), "str": "hi"}
    l, r = mix.split("-")
    left = X if l == "block" else other[l]
    right = (other["block"] if l == "block" else X) if r == "block" else other[r]
    if sym == "@" and (l != "block" or r != "block"):
        m = jnp.asarray(np.eye(2, dtype=np.asarray(xs[0]).dtype) * sc)
        if l != "block":
            left = m if l == "array" else np.asarray(m)
        else:
            right = m if r == "array" else (np.asarray(m) if r == "numpy" else right)
    # oracle
    exps, oracle_exc = [], None
    try:
        for i, b in enumerate(xs):
            lo = b if l == "block" else left
            ro = (ys[i] if l == "block" else b) if r == "block" else right
            exps.append(fn(lo, ro))
    except Exception as e:  # noqa
        oracle_exc = e
    # recording proxies on every installed binary operator
    log = []
    ids = {id(b): 10 + i for i, b in enumerate(X.arrays)}
    oid = {}
    if isinstance(other[r] if l == "block" else other[l], BlockArray):
        oid = {id(b): 20 + i for i, b in enumerate(other["block"].arrays)}
    else:
        oid = {id(right if l == "block" else left): 7}
    patches = []
    for dn in binary_ops:
        def mk(orig, dn=dn):
            def proxy(a, b):
                out = orig(a, b)
                log.append(([binary_ops.index(dn) + 1, ids.get(id(a), -1), oid.get(id(b), -1)], out is NotImplemented))
                return out
            return proxy
        patches.append(Patched(getattr(BlockArray, dn), "op", mk))
    exc = None
    try:
        for pch in patches:
            pch.__enter__()
        try:
            res = fn(left, right)
        except Exception as e:  # noqa
            exc, res = e, None
    finally:
        for pch in patches:
            pch.__exit__()
    coq = None
    if fwd in binary_ops:
        def xo(side):
            if side == "block":
                return None
            return "(XA 7)" if side in ("array", "0d") else "(XO 7)"
        lhs = "(XB " + coq_list([zlit(10 + i) for i in range(len(xs))]) + ")" if l == "block" else xo(l)
        rhs = ("(XB " + coq_list([zlit((20 if l == "block" else 10) + i) for i in range(len(xs))]) + ")") if r == "block" else xo(r)
        unimpl = "[7]" if any(ni for _, ni in log) else "[]"
        rf = f"(Some {binary_ops.index(rfl) + 1})" if rfl in binary_ops else "None"
        if exc is None and isinstance(res, BlockArray):
            o = "(1, 0, " + coq_list([coq_list([zlit(t) for t in rec]) for rec, _ in log]) + ")"
        else:
            o = f"(2, {exc_code(exc) if exc is not None else 9}, [])"
        coq = ("op", f"({binary_ops.index(fwd) + 1}, {rf}, {lhs}, {rhs}, {unimpl}, {o})")
    if r == "str":
        if isinstance(res, BlockArray):
            return "block array of NotImplemented returned for an unsupported operand", coq, None
        return None, (coq if sym not in ("==", "!=") else None), "unsupported-operand"
    if oracle_exc is not None:
        if exc is None:
            return f"returns a result although the per-block jax operator raises {type(oracle_exc).__name__}", coq, "oracle-raises"
        return None, (coq if r == "str" else None), "oracle-raises"
    if exc is not None:
        return f"raises {type(exc).__name__} although the per-block jax operator succeeds", coq, None
    if sym == "divmod":
        return ("per-block jax result is a tuple/list: BlockArray() coerces it into one stacked array"
                if isinstance(res, BlockArray) else "not a block array"), coq, None
    return compare_blocks(res, exps), coq, None


# ---------------------------------------------------------------- (C) wrapped names

class L:
    """literal argument"""
    def __init__(self, v):
        self.v = v


def _specs():
    import jax.numpy as jnp
    xp = jnp.asarray([-4.0, 0.0, 4.0])
    fp = jnp.asarray([1.0, 0.5, 2.0])
    S = {
        "unwrap": ("nd1", ["B"]), "around": ("any", ["B", L(1)]), "round": ("any", ["B", L(1)]),
        "diff": ("nd1", ["B"]), "gradient": ("vec", ["B"]), "cross": ("vec3", ["B", "B1"]),
        "ldexp": ("any", ["B", "BI"]), "lcm": ("int", ["B", "B1"]), "gcd": ("int", ["B", "B1"]),
        "clip": ("any", ["B", L(-1.0), L(1.0)]), "interp": ("vec", ["B", L(xp), L(fp)]),
        "sort": ("nd1", ["B"]), "argsort": ("nd1", ["B"]), "lexsort": ("mat", ["B"]), "sort_complex": ("vec", ["B"]),
        "partition": ("vec", ["B", L(1)]), "argwhere": ("nd1", ["B"]), "nonzero": ("nd1", ["B"]),
        "flatnonzero": ("nd1", ["B"]), "where": ("any", ["BB", "B", "B1"]), "searchsorted": ("vec", ["B", L(0.5)]),
        "extract": ("vec", ["BB", "B"]), "dot": ("vec", ["B", "B1"]), "vdot": ("vec", ["B", "B1"]),
        "inner": ("vec", ["B", "B1"]), "outer": ("vec", ["B", "B1"]), "matmul": ("vec", ["B", "B1"]),
        "kron": ("vec", ["B", "B1"]), "convolve": ("vec", ["B", "B1"]), "tensordot": ("sq", ["B", "B1"]),
        "linalg.multi_dot": ("cube", ["B"]), "einsum": ("vec", [L("i,i->"), "B", "B1"]),
        "einsum_path": ("vec", [L("i,i->"), "B", "B1"]), "linalg.matrix_power": ("sq", ["B", L(2)]),
        "trace": ("mat", ["B"]), "linalg.solve": ("sq", ["B", "B1"]), "linalg.tensorsolve": ("sq", ["B", "BV"]),
        "linalg.lstsq": ("sq", ["B", "BV"]), "linalg.tensorinv": ("t4", ["B"]),
        "reshape": ("any", ["B", L((-1,))]), "moveaxis": ("mat", ["B", L(0), L(1)]), "rollaxis": ("mat", ["B", L(1)]),
        "swapaxes": ("mat", ["B", L(0), L(1)]), "expand_dims": ("any", ["B", L(0)]),
        "stack": ("mat", ["B"]), "block": ("mat", ["B"]), "vstack": ("mat", ["B"]), "hstack": ("mat", ["B"]),
        "dstack": ("mat", ["B"]), "column_stack": ("mat", ["B"]),
        "split": ("len4", ["B", L(2)]), "array_split": ("nd1", ["B", L(2)]), "dsplit": ("cube", ["B", L(2)]),
        "hsplit": ("cube", ["B", L(2)]), "vsplit": ("cube", ["B", L(2)]),
        "tile": ("any", ["B", L(2)]), "repeat": ("any", ["B", L(2)]), "insert": ("vec", ["B", L(1), L(9.0)]),
        "append": ("any", ["B", L(1.0)]), "resize": ("any", ["B", L((2, 2))]), "trim_zeros": ("vec", ["B"]),
        "unique": ("vec", ["B"]), "fliplr": ("mat", ["B"]), "flipud": ("nd1", ["B"]), "roll": ("any", ["B", L(1)]),
        "rot90": ("mat", ["B"]), "full_like": ("any", ["B", L(2.0)]),
        "betainc": ("pos", ["B", "B1", "BU"]), "polygamma": ("pos", ["BI", "B"]), "multigammaln": ("pos", ["B", L(1)]),
        "sph_harm": ("vec", ["BI", "BI", "B", "B1"]),
        "atleast_1d": ("any", ["B"]), "atleast_2d": ("any", ["B"]), "atleast_3d": ("any", ["B"]), "zeta": ("pos", ["B", "B1"]),
    }
    for n in ("cholesky", "qr", "svd", "eig", "eigh", "eigvals", "eigvalsh", "cond", "det", "matrix_rank", "slogdet", "inv", "pinv"):
        S["linalg." + n] = ("sq", ["B"])
    return S


TOKENS = ("B", "B1", "BI", "BB", "BV", "BU", "A", "S")


def get_fn(mod, name):
    f = mod
    for p_ in name.split("."):
        f = getattr(f, p_)
    return f


def base_recipe(name, jf, specs):
    if name in specs:
        fam, a = specs[name]
        return fam, list(a), {}
    try:
        ps = list(inspect.signature(jf).parameters.values())
    except Exception:  # noqa
        return "any", ["B"], {}
    if ps and ps[0].kind == ps[0].VAR_POSITIONAL:
        return "any", ["B", "B1"], {}
    req = [p_ for p_ in ps if p_.default is p_.empty and p_.kind in (p_.POSITIONAL_ONLY, p_.POSITIONAL_OR_KEYWORD)]
    return "any", ["B", "B1"][: max(1, min(2, len(req)))], {}


def variants(name, jf, fam, args, kw, is_red):
    """list of (label, fam, args, kwargs)"""
    out = [("base", fam, args, kw)]
    if "B1" in args:
        out.append(("block-array", fam, ["A" if t == "B1" else t for t in args], kw))
        out.append(("block-scalar", fam, ["S" if t == "B1" else t for t in args], kw))
        if args[:2] == ["B", "B1"]:
            out.append(("scalar-block", fam, ["S", "B"] + args[2:], kw))
    try:
        ps = list(inspect.signature(jf).parameters.values())
    except Exception:  # noqa
        ps = []
    pk = [p_ for p_ in ps if p_.kind == p_.POSITIONAL_OR_KEYWORD]
    if ps and len(pk) >= len(args) and all(p_.kind == p_.POSITIONAL_OR_KEYWORD for p_ in ps[: len(args)]):
        out.append(("all-keyword", fam, [], {**{p_.name: a for p_, a in zip(ps, args)}, **kw}))
        if len(args) > 1:
            out.append(("last-keyword", fam, args[:-1], {ps[len(args) - 1].name: args[-1], **kw}))
    if fam == "any":
        out.append(("0-d blocks", "zd", args, kw))
    if is_red:
        out += [("axis=0", "nd1", args + [L(0)], kw), ("axis kw", "nd1", args, {**kw, "axis": L(0)}),
                ("axis=None", "any", args, {**kw, "axis": L(None)}), ("keepdims", "any", args, {**kw, "keepdims": L(True)}),
                ("a kw + axis", "nd1", [], {ps[0].name: "B", "axis": L(-1)}),
                ("axis=-1", "nd1", args + ([L(None)] if name == "linalg.norm" else []) + [L(-1)], kw),
                ("axis kw + keepdims", "nd1", args, {**kw, "axis": L(-1), "keepdims": L(True)}),
                ("keepdims=False", "any", args, {**kw, "keepdims": L(False)})]
    return out


def build_operands(rng, fam, args, kw, nblocks=None):
    """-> dict token -> list of numpy blocks (or scalar / array)"""
    dt = "float64"
    f0 = fam
    if fam == "int":
        dt, f0 = "int64", "any"
    if fam == "pos":
        f0 = "any"
    B = gen_blocks(rng, f0, n=nblocks, dtype=dt)
    if fam == "pos":
        B = [np.abs(b) + 0.5 for b in B]
    ops = {"B": B, "B1": like(rng, B) if fam not in ("sq",) else gen_like_sq(rng, B),
           "BI": like(rng, B, "int64"), "BB": like(rng, B, "bool"),
           "BV": [np.arange(1, b.shape[0] + 1, dtype=np.float64) if b.ndim else np.asarray(1.0) for b in B],
           "BU": [np.full(b.shape, 0.25) for b in B],
           "A": np.asarray(1.5), "S": 2 if fam == "int" else 0.75}
    if fam == "pos":
        ops["B1"] = [np.abs(b) + 1.5 for b in ops["B1"]]
    return ops


def gen_like_sq(rng, B):
    return [np.array([rng.randint(-8, 8) / 4 for _ in range(b.size)]).reshape(b.shape) for b in B]


def realise(ops, args, kw):
    """-> (args, kwargs) for scico, per-block (args, kwargs) list, json-able input"""
    import jax.numpy as jnp
    from scico.numpy import BlockArray
    cache = {}

    def top(t):
        if isinstance(t, L):
            return t.v
        if t not in cache:
            v = ops[t]
            cache[t] = BlockArray([jnp.asarray(b) for b in v]) if isinstance(v, list) else (jnp.asarray(v) if t == "A" else v)
        return cache[t]

    def blk(t, i):
        v = top(t)
        return v.arrays[i] if isinstance(v, BlockArray) else v
    n = len(ops["B"])
    a = [top(t) for t in args]
    k = {key: top(t) for key, t in kw.items()}
    per = [([blk(t, i) for t in args], {key: blk(t, i) for key, t in kw.items()}) for i in range(n)]
    return a, k, per


def name_targets():
    """(module label, name, scico function, jax function, wrapper kind)"""
    import jax.numpy as jnp
    import jax.scipy.special as js
    import scico.numpy as snp
    import scico.scipy.special as ss
    out = []
    seen = set()
    # the reduction names are read from their own list: a name only listed there must still be covered
    for n in list(snp.mathematical_functions) + list(snp.reduction_functions):
        if n in seen:
            continue
        seen.add(n)
        out.append(("snp", n, get_fn(snp, n), get_fn(jnp, n), 1 if n in snp.reduction_functions else 0))
    for n in ss.functions:
        out.append(("special", n, getattr(ss, n), getattr(js, n), 0))
    return out


def tag_token(t):
    return "lit" if isinstance(t, L) else t


def run_name_case(mod, name, sf, jf, kind, label, fam, args, kw, rng, want_pattern):
    """-> dict(status, what, coq, inp)"""
    from scico.numpy import BlockArray
    ops = build_operands(rng, fam, args, kw)
    a, k, per = realise(ops, args, kw)
    inp = {"module": mod, "name": name, "variant": label, "family": fam, "args": [tag_token(t) for t in args],
           "kwargs": {key: tag_token(t) for key, t in kw.items()},
           "operands": {t: jsonable([np.asarray(b) for b in v] if isinstance(v, list) else v) for t, v in ops.items()
                        if t in args or t in kw.values()},
           "literals": [repr(t.v) for t in list(args) + list(kw.values()) if isinstance(t, L)]}
    # oracle
    full = kind == 1 and "axis" not in kw and not (len(args) > 1 and isinstance(args[1], L) and name != "linalg.norm") \
        and not (name == "linalg.norm" and len(args) > 2)
    try:
        if full:
            import jax.numpy as jnp
            cat = jnp.concatenate([jnp.ravel(p_[0][0] if p_[0] else next(iter(p_[1].values()))) for p_ in per])
            if per[0][0]:
                exps = jf(cat, *per[0][0][1:], **per[0][1])
            else:
                k0 = dict(per[0][1])
                first = next(iter(k0))
                k0[first] = cat
                exps = jf(**k0)
        else:
            exps = [jf(*pa, **pk) for pa, pk in per]
    except Exception as e:  # noqa
        return {"status": "skip", "why": f"per-block jax.numpy raises {type(e).__name__} on the generated operands", "inp": inp}
    # scico, with the library function of the installed wrapper replaced by a recording proxy
    enc, log, rets = Enc(), [], []
    cargs = [enc.arg(x) for x in a]
    names_ = list(k.keys())
    try:
        params = list(inspect.signature(jf).parameters.values())
    except Exception:  # noqa
        params = []
    keymap = {p_.name: i + 1 for i, p_ in enumerate(params)}
    for n_ in names_:
        keymap.setdefault(n_, len(keymap) + 1)
    ckw = [(keymap[n_], enc.arg(v)) for n_, v in k.items()]

    def mk(orig):
        def proxy(*pa, **pk):
            for n_ in pk:
                keymap.setdefault(n_, len(keymap) + 1)
            log.append(([enc.seen(x) for x in pa], [(keymap[n_], enc.seen(v)) for n_, v in pk.items()]))
            r = orig(*pa, **pk)
            rets.append(r)
            return r
        return proxy
    chain = innermost(sf)
    ok_chain = chain[-1].__code__.co_name == "mapped" and (kind == 0 or chain[0].__code__.co_name == "wrapped")
    with Patched(chain[-1], "func", mk):
        o, res = observe(enc, log, rets, lambda: sf(*a, **k))
    coq = None
    if want_pattern and ok_chain:
        import jax
        nonarr = any(not isinstance(r, jax.Array) for r in rets)
        if not nonarr and o[0] != 2:
            pos = [keymap[p_.name] for p_ in params if p_.kind == p_.POSITIONAL_OR_KEYWORD]
            ko = [keymap[p_.name] for p_ in params if p_.kind == p_.KEYWORD_ONLY]
            rq = [keymap[p_.name] for p_ in params if p_.default is p_.empty and p_.kind == p_.POSITIONAL_OR_KEYWORD]
            if kind == 0 or all(p_.kind in (p_.POSITIONAL_OR_KEYWORD, p_.KEYWORD_ONLY) for p_ in params):
                coq = ("blocks", f"({kind}, {c_sig((pos, ko, rq))}, {zlit(keymap.get('axis', 0))}, "
                       + coq_list([c_arg(x) for x in cargs]) + ", "
                       + coq_list([f"({zlit(q)}, {c_arg(v)})" for q, v in ckw]) + ", " + c_obs(o) + ")")
    if o[0] == 2:
        return {"status": "viol", "what": f"raises {type(res).__name__} although per-block jax.numpy succeeds", "coq": coq,
                "inp": inp, "observed": repr(res)[:300]}
    if full:
        what = None
        if isinstance(res, BlockArray) or not leaf_same(res, exps):
            what = "full reduction differs from the function applied to the concatenation of all ravelled blocks"
    else:
        what = compare_blocks(res, exps)
    return {"status": "viol" if what else "ok", "what": what, "coq": coq, "inp": inp, "observed": jsonable(res) if what else None,
            "chain_ok": ok_chain}


# ---------------------------------------------------------------- creation routines and random wrappers (real names)

def creation_case(rng, name, variant):
    """-> dict(status, what, coq, inp)"""
    import jax.numpy as jnp
    import scico.numpy as snp
    from scico.numpy import BlockArray
    nb = rng.randint(1, 3)
    shapes = rng.sample([(), (3,), (2, 3), (1,), (2, 2), (4, 1)], nb)
    if all(len(s) == 0 for s in shapes) or variant == "int-elements":
        shapes = [(2, 3)] + rng.sample([3, 2, 5], nb - 1) + [(4,)]
    nested = tuple(shapes) if variant != "list" else list(shapes)
    if variant == "plain":
        nested = tuple([2, 3])
    dt = rng.choice([None, "float32", "int32", "complex64"])
    fill = rng.choice([2.0, -1.5, 7])
    sf, jf = getattr(snp, name), getattr(jnp, name)
    a, k = [nested], {}
    if name == "full":
        a.append(fill)
    if dt is not None:
        if rng.random() < 0.5 and variant != "keyword":
            a.append(dt)
        else:
            k["dtype"] = dt
    if variant == "keyword":
        k = {**dict(zip(["shape", "fill_value"], a)), **k}
        a = []
    inp = {"module": "snp", "name": name, "variant": variant, "args": jsonable(a), "kwargs": jsonable(k)}
    rest_a, rest_k = (a[1:], k) if a else ([], {q: v for q, v in k.items() if q != "shape"})
    if name == "full" and a:
        rest_a, rest_k = [], {**({"fill_value": a[1]}), **({"dtype": a[2]} if len(a) > 2 else {}), **k}
    elif a:
        rest_a, rest_k = [], {**({"dtype": a[1]} if len(a) > 1 else {}), **k}
    exps = jf(nested, *rest_a, **rest_k) if variant == "plain" else [jf(s, *rest_a, **rest_k) for s in nested]
    enc, log, rets = Enc(), [], []
    params = list(inspect.signature(jf).parameters.values())
    keymap = {p_.name: i + 1 for i, p_ in enumerate(params)}
    cargs = [enc.arg(x) for x in a]
    ckw = [(keymap[q], enc.arg(v)) for q, v in k.items()]
    # shape elements are interned Python constants: identify them by value (distinct within a case)
    valmap = {repr(el): enc.ids[id(el)] for el in (nested if variant != "plain" else [])}
    seen0 = enc.seen
    enc.seen = lambda x: ("P", v_obj(valmap[repr(x)])) if isinstance(x, (tuple, int)) and not isinstance(x, bool) and repr(x) in valmap else seen0(x)

    def mk(orig):
        import functools

        @functools.wraps(orig)
        def proxy(*pa, **pk):
            log.append(([enc.seen(x) for x in pa], [(keymap[q], enc.seen(v)) for q, v in pk.items()]))
            r = orig(*pa, **pk)
            rets.append(r)
            return r
        return proxy
    with Patched(sf, "func", mk):
        o, res = observe(enc, log, rets, lambda: sf(*a, **k))
    pl = lambda x: x[1]
    pos = [keymap[p_.name] for p_ in params if p_.kind == p_.POSITIONAL_OR_KEYWORD]
    ko = [keymap[p_.name] for p_ in params if p_.kind == p_.KEYWORD_ONLY]
    rq = [keymap[p_.name] for p_ in params if p_.default is p_.empty]
    coq = ("creation", f"({c_sig((pos, ko, rq))}, {zlit(keymap['shape'])}, " + coq_list([pl(x) for x in cargs]) + ", "
           + coq_list([f"({zlit(q)}, {pl(v)})" for q, v in ckw]) + ", " + c_obs(o, pl) + ")")
    if o[0] == 2:
        return {"status": "viol", "what": f"raises {type(res).__name__} although per-block jax.numpy succeeds", "coq": coq, "inp": inp}
    what = (None if leaf_same(res, exps) else "plain shape: result differs from jax.numpy") if variant == "plain" else compare_blocks(res, exps)
    return {"status": "viol" if what else "ok", "what": what, "coq": coq, "inp": inp}


RANDOM_DEFAULTS = {"d": 3, "p": 0.5, "a": 2.0, "b": 2.0, "n": 5, "logits": "zeros3", "alpha": "ones3", "df": 3.0,
                   "dfnum": 3.0, "dfden": 4.0, "lam": 2.0, "mean": "zeros2", "cov": "eye2", "minval": 0, "maxval": 10,
                   "scale": 1.0, "loc": 0.5, "left": 0.0, "mode": 0.5, "right": 1.0, "lower": -1.0, "upper": 1.0, "concentration": 2.0}


def random_case(rng, name, variant):
    import jax
    import jax.numpy as jnp
    import scico.random as sr
    jf = getattr(jax.random, name)
    sf = getattr(sr, name)
    params = list(inspect.signature(jf).parameters.values())
    consts = {"zeros3": jnp.zeros(3), "ones3": jnp.ones(3), "zeros2": jnp.zeros(2), "eye2": jnp.eye(2)}
    kw = {}
    for p_ in params[1:]:
        if p_.name == "shape" or p_.default is not p_.empty:
            continue
        if p_.name not in RANDOM_DEFAULTS:
            return {"status": "skip", "why": f"no generated operand for required parameter {p_.name!r}",
                    "inp": {"name": name}}
        v = RANDOM_DEFAULTS[p_.name]
        if name == "choice" and p_.name == "a":
            v = 5
        if name == "orthogonal" and p_.name == "n":
            v = 2
        if name == "wald" and p_.name == "mean":
            v = 1.0
        kw[p_.name] = consts.get(v, v) if isinstance(v, str) else v
    nb = rng.randint(1, 3)
    nested = tuple(tuple(rng.choice([(3,), (2, 3), (1,), (2, 2), ()])) for _ in range(nb))
    if all(len(s) == 0 for s in nested):
        nested = nested + (tuple([2]),)
    seed = rng.randint(1, 99)
    key = jax.random.PRNGKey(seed + 100)
    inp = {"module": "random", "name": name, "variant": variant, "shape": jsonable(nested), "seed": seed}
    use = key if variant != "seed" else jax.random.PRNGKey(seed)
    try:
        exps = [jf(use, **kw, shape=s) for s in nested]
    except Exception as e:  # noqa
        return {"status": "skip", "why": f"jax.random.{name} raises {type(e).__name__} on the generated operands", "inp": inp}
    try:
        if variant == "seed":
            res, k2 = sf(shape=nested, seed=seed, **kw)
        elif variant == "positional-shape" and params[1].name == "shape":
            res, k2 = sf(nested, key=key, **kw)
        else:
            res, k2 = sf(shape=nested, key=key, **kw)
    except Exception as e:  # noqa
        return {"status": "viol", "what": f"raises {type(e).__name__} although per-block jax.random succeeds", "inp": inp}
    what = compare_blocks(res, exps)
    if what is None and not np.array_equal(np.asarray(k2), np.asarray(jax.random.split(use, 2)[0])):
        what = "returned key is not split(key)[0]"
    return {"status": "viol" if what else "ok", "what": what, "inp": inp}


# ---------------------------------------------------------------- (D) lifted methods and properties

METHOD_ARGS = {"astype": ("float32",), "clip": (-1.0, 1.0), "reshape": ((-1,),), "repeat": (2,), "searchsorted": (0.5,),
               "swapaxes": (0, -1), "take": (0,), "round": (1,), "compress": ([True],), "choose": None, "dot": (2.0,),
               "delete": (0,), "argpartition": (0,), "view": ("int64",), "to_device": None, "item": None,
               "transpose": (), "diagonal": ()}
METHOD_FAMILY = {"swapaxes": "nd1", "diagonal": "mat", "trace": "mat", "delete": "nd1", "argpartition": "nd1",
                 "compress": "nd1", "searchsorted": "vec", "item": "zd", "take": "nd1"}


def attr_case(rng, kind, name):
    import jax
    import jax.numpy as jnp
    from scico.numpy import BlockArray
    fam = METHOD_FAMILY.get(name, "any")
    xs = [jnp.asarray(b) for b in gen_blocks(rng, fam, dtype=rng.choice(["float64", "float32"]))]
    X = BlockArray(xs)
    args = METHOD_ARGS.get(name, ()) if kind == "method" else ()
    if args is None:
        args = ()
    inp = {"kind": kind, "name": name, "blocks": jsonable(xs), "args": jsonable(list(args))}

    def get(o):
        v = getattr(o, name)
        return v(*args) if kind == "method" else v
    try:
        exps = [get(b) for b in xs]
    except Exception as e:  # noqa
        try:
            get(X)
        except Exception as e2:  # noqa
            ok = type(e2) is type(e)
            return {"status": "both-raise" if ok else "viol", "inp": inp,
                    "what": None if ok else f"raises {type(e2).__name__} where the per-block attribute raises {type(e).__name__}"}
        return {"status": "viol", "what": f"returns a value although the per-block attribute raises {type(e).__name__}", "inp": inp}
    try:
        res = get(X)
    except Exception as e:  # noqa
        return {"status": "viol", "what": f"raises {type(e).__name__} although the per-block attribute succeeds", "inp": inp}
    if name == "dtype":
        return {"status": "ok" if res == exps[0] else "viol", "what": None if res == exps[0] else "dtype differs", "inp": inp}
    if isinstance(exps[0], jax.Array):
        what = compare_blocks(res, exps)
    else:
        what = None
        if not isinstance(res, tuple) or len(res) != len(exps):
            what = "non-array valued attribute: result is not the tuple of the per-block values"
        else:
            for o, e in zip(res, exps):
                same = tree_same(o, e)
                if not same:
                    what = "non-array valued attribute: tuple entry differs from the per-block value"
    return {"status": "viol" if what else "ok", "what": what, "inp": inp}


# ---------------------------------------------------------------- (E) transformations, pytree, dtype

TRANSFORMS = ["jit", "grad", "value_and_grad", "jvp", "vjp", "linearize", "jacfwd", "jacrev", "hessian", "vmap",
              "eval_shape", "make_jaxpr", "checkpoint", "scan", "cond", "while_loop", "tree_flatten_unflatten",
              "tree_map", "tree_leaves", "device_put", "setitem_dtype", "getitem_slice"]


def transform_case(rng, tname):
    import jax
    import jax.numpy as jnp
    import scico.numpy as snp
    from scico.numpy import BlockArray
    fam = "mat" if tname == "vmap" else "any"
    xs = [jnp.asarray(b) for b in gen_blocks(rng, fam, n=(rng.randint(2, 3) if tname == "setitem_dtype" else None), dtype="float64")]
    if tname == "vmap":
        xs = [jnp.asarray(np.asarray(b)[:2, :2]) for b in xs]
    X = BlockArray(xs)
    inp = {"transform": tname, "blocks": jsonable(xs)}
    f = lambda v: v * v + 2.0 * v                       # noqa
    fa = lambda b: b * b + 2.0 * b                      # noqa
    s = lambda v: snp.sum(v * v * v)                    # noqa
    sa = lambda bl: sum(jnp.sum(b * b * b) for b in bl)  # noqa
    what = None
    try:
        if tname == "jit":
            what = compare_blocks(jax.jit(f)(X), [jax.jit(fa)(b) for b in xs])
        elif tname == "grad":
            what = compare_blocks(jax.grad(s)(X), list(jax.grad(sa)(xs)))
        elif tname == "value_and_grad":
            v, g = jax.value_and_grad(s)(X)
            v2, g2 = jax.value_and_grad(sa)(xs)
            what = compare_blocks(g, list(g2)) or (None if leaf_same(v, v2) else "value differs")
        elif tname == "jvp":
            p, t = jax.jvp(f, (X,), (X,))
            e = [jax.jvp(fa, (b,), (b,)) for b in xs]
            what = compare_blocks(p, [q[0] for q in e]) or compare_blocks(t, [q[1] for q in e])
        elif tname == "vjp":
            (ct,) = jax.vjp(f, X)[1](X)
            what = compare_blocks(ct, [jax.vjp(fa, b)[1](b)[0] for b in xs])
        elif tname == "linearize":
            what = compare_blocks(jax.linearize(f, X)[1](X), [jax.linearize(fa, b)[1](b) for b in xs])
        elif tname in ("jacfwd", "jacrev"):
            J = getattr(jax, tname)(f)(X)
            E = getattr(jax, tname)(lambda bl: [fa(b) for b in bl])(xs)
            for i in range(len(xs)):
                for j in range(len(xs)):
                    if not leaf_same(J[i][j], E[i][j]):
                        what = "jacobian block differs"
        elif tname == "hessian":
            H = jax.hessian(s)(X)
            E = jax.hessian(sa)(xs)
            for i in range(len(xs)):
                for j in range(len(xs)):
                    if not leaf_same(H[i][j], E[i][j]):
                        what = "hessian block differs"
        elif tname == "vmap":
            what = compare_blocks(jax.vmap(f)(X), [jax.vmap(fa)(b) for b in xs])
        elif tname == "eval_shape":
            r = jax.eval_shape(f, X)
            e = [jax.eval_shape(fa, b) for b in xs]
            got = jax.tree_util.tree_leaves(r)
            if [(q.shape, q.dtype) for q in got] != [(q.shape, q.dtype) for q in e]:
                what = "shapes differ"
        elif tname == "make_jaxpr":
            jax.make_jaxpr(f)(X)
        elif tname == "checkpoint":
            what = compare_blocks(jax.checkpoint(f)(X), [fa(b) for b in xs])
        elif tname == "scan":
            c, _ = jax.lax.scan(lambda c, _: (c * 2.0, None), X, None, length=3)
            what = compare_blocks(c, [b * 8.0 for b in xs])
        elif tname == "cond":
            what = compare_blocks(jax.lax.cond(True, f, lambda v: v, X), [fa(b) for b in xs])
        elif tname == "while_loop":
            r = jax.lax.while_loop(lambda cv: cv[0] < 2, lambda cv: (cv[0] + 1, cv[1] * 2.0), (0, X))[1]
            what = compare_blocks(r, [b * 4.0 for b in xs])
        elif tname == "tree_flatten_unflatten":
            leaves, td = jax.tree_util.tree_flatten(X)
            if len(leaves) != len(xs) or any(a is not b for a, b in zip(leaves, xs)):
                what = "tree_flatten does not return the blocks in order"
            else:
                Y = jax.tree_util.tree_unflatten(td, leaves)
                l2, td2 = jax.tree_util.tree_flatten(Y)
                if not isinstance(Y, BlockArray) or td2 != td or any(a is not b for a, b in zip(l2, leaves)):
                    what = "unflatten(flatten(x)) is not x"
            ids = [10 + i for i in range(len(xs))]
            inp["coq"] = ("tree", "(" + coq_list([zlit(i) for i in ids]) + ", "
                          + coq_list([zlit(ids[[id(q) for q in xs].index(id(l))]) if id(l) in [id(q) for q in xs] else "(-1)" for l in leaves]) + ")")
        elif tname == "tree_map":
            what = compare_blocks(jax.tree_util.tree_map(fa, X), [fa(b) for b in xs])
        elif tname == "tree_leaves":
            lv = jax.tree_util.tree_leaves({"a": X, "b": 1.0})
            if len(lv) != len(xs) + 1:
                what = "leaves differ"
        elif tname == "device_put":
            what = compare_blocks(jax.device_put(X), xs)
        elif tname == "setitem_dtype":
            X[0] = jnp.asarray(np.asarray(xs[0]), dtype="int32")
            if len({str(b.dtype) for b in X.arrays}) > 1 or X.dtype != X.arrays[-1].dtype:
                what = "block array carries more than one dtype after x[0] = <array of another dtype> (no error raised)"
            if len(xs) == 1:
                what = None
        elif tname == "getitem_slice":
            Y = X[0:len(xs)]
            what = compare_blocks(Y, xs)
    except Exception as e:  # noqa
        what = f"raises {type(e).__name__} ({str(e)[:80]!r}) although the same transformation of the tuple of blocks succeeds"
    return {"status": "viol" if what else "ok", "what": what, "inp": inp}


# ---------------------------------------------------------------- (F) constructor guard: mixed dtypes in every order

CTOR_KINDS = ["float32", "float64", "complex64", "complex128", "int32", "int64", "float16", "bool", "pylist-float", "pylist-int"]


def ctor_block(kind, i):
    """one block of the given kind (shapes vary with the position)"""
    import jax.numpy as jnp
    shp = [(2,), (), (2, 2), (3,)][i % 4]
    if kind == "pylist-float":
        return [1.0, 2.5]
    if kind == "pylist-int":
        return [1, 2]
    a = np.arange(1, (int(np.prod(shp)) if shp else 1) + 1).reshape(shp)
    return jnp.asarray(a.astype(kind))


def ctor_cases(ctx):
    import itertools
    rng = ctx.rng
    cases = []
    for k in CTOR_KINDS:                                   # homogeneous lists are accepted
        cases.append([k] * rng.randint(1, 3))
    for a, b in itertools.permutations(CTOR_KINDS, 2):     # every ordered pair
        cases.append([a, b])
    triples = list(itertools.combinations(CTOR_KINDS, 3))
    extra = [(a, a, b) for a, b in itertools.permutations(CTOR_KINDS[:8], 2)]
    chosen = (rng.sample(triples, 10) + rng.sample(extra, 6)) if ctx.quick else triples + extra
    for t in chosen:                                        # widest first / in the middle / last
        for perm in sorted(set(itertools.permutations(t))):
            cases.append(list(perm))
    return cases


def run_ctor_case(kinds, how):
    """-> (what | None, coq case, inp)"""
    import jax.numpy as jnp
    import scico.numpy as snp
    from scico.numpy import BlockArray
    blocks = [ctor_block(k, i) for i, k in enumerate(kinds)]
    eff = [str(jnp.asarray(b).dtype) for b in blocks]       # dtype each block has as a jax array
    tags = sorted(set(eff))
    dts = [tags.index(e) + 1 for e in eff]
    inp = {"kinds": kinds, "dtypes": eff, "how": how}
    want_ok = len(set(eff)) == 1
    exc = None
    try:
        X = BlockArray(blocks) if how == "BlockArray" else snp.blockarray(tuple(blocks) if how == "blockarray-tuple" else blocks)
    except Exception as e:  # noqa
        exc = e
    accepted = exc is None
    coq = ("ctor", f"({coq_list([zlit(d) for d in dts])}, {'true' if accepted else 'false'})")
    what = None
    if want_ok:
        if exc is not None:
            what = f"homogeneous blocks rejected ({type(exc).__name__})"
        elif [str(b.dtype) for b in X.arrays] != eff or str(X.dtype) != eff[0]:
            what = "blocks stored with a dtype other than their own"
    else:
        if exc is None:
            got = [str(b.dtype) for b in X.arrays]
            inp["observed"] = {"x.dtype": str(X.dtype), "block dtypes": got}
            what = ("blocks of different dtypes accepted without ValueError (x.dtype disagrees with some block)"
                    if len(set(got)) > 1 else "blocks of different dtypes silently cast to one dtype")
        elif not isinstance(exc, ValueError):
            what = f"blocks of different dtypes rejected with {type(exc).__name__}, not ValueError"
            coq = None
    return what, coq, inp


# ---------------------------------------------------------------- (G) lifted attributes read while traced

TRACE_MODES = ["eager", "jit", "jit-complex", "grad", "vmap", "jit-operator", "jit-functional"]


def attr_names():
    from scico.numpy import _blockarray as B
    return [("prop", n) for n in B.da_props + ["dtype"]] + [("method", n) for n in B.da_methods]


def probe_attrs(X, names, rec):
    """read every lifted attribute of X and of its blocks (runs eagerly or inside a trace);
    appends one record per attribute to rec, returns (lifted array leaves, per-block array leaves)"""
    import jax
    from scico.numpy import BlockArray
    got_l, exp_l = [], []
    blocks = list(X.arrays)
    traced = any(isinstance(b, jax.core.Tracer) for b in blocks)
    for kind, name in names:
        args = (METHOD_ARGS.get(name) or ()) if kind == "method" else ()

        def get(o):
            v = getattr(o, name)
            return v(*args) if kind == "method" else v
        r = {"kind": kind, "name": name, "traced": traced, "status": "ok", "what": None, "lo": len(got_l)}
        rec.append(r)
        try:
            exps = [get(b) for b in blocks]
        except Exception as e:  # noqa
            try:
                get(X)
            except Exception as e2:  # noqa
                if type(e2) is type(e):
                    r["status"] = "both-raise"
                else:
                    r.update(status="viol", what=f"raises {type(e2).__name__} where the per-block attribute raises {type(e).__name__}")
            else:
                r.update(status="viol", what=f"returns a value although the per-block attribute raises {type(e).__name__}")
            r["hi"] = len(got_l)
            continue
        try:
            res = get(X)
        except Exception as e:  # noqa
            r.update(status="viol", what=f"raises {type(e).__name__} although the per-block attribute succeeds", hi=len(got_l))
            continue
        arrv = isinstance(exps[0], jax.Array)          # tracers are jax.Array instances as well
        r["arrv"] = arrv
        if name == "dtype":
            r.update(container=2, n=1, hi=len(got_l))
            if res != exps[0]:
                r.update(status="viol", what="dtype differs from the dtype of the blocks")
            continue
        r["container"] = 1 if isinstance(res, BlockArray) else (0 if isinstance(res, tuple) else 3)
        items = res.arrays if isinstance(res, BlockArray) else (list(res) if isinstance(res, tuple) else [])
        r["n"] = len(items)
        if arrv and not isinstance(res, BlockArray):
            r.update(status="viol", what=f"array-valued {kind} returns {type(res).__name__}, not a BlockArray"
                                         + (" while the blocks are traced" if traced else ""))
        elif not arrv and not isinstance(res, tuple):
            r.update(status="viol", what=f"non-array valued {kind} returns {type(res).__name__}, not a tuple")
        elif len(items) != len(exps):
            r.update(status="viol", what="number of entries differs from the number of blocks")
        else:
            for o, e in zip(items, exps):
                lo_, to_ = jax.tree_util.tree_flatten(o)
                le_, te_ = jax.tree_util.tree_flatten(e)
                if to_ != te_ or len(lo_) != len(le_):
                    r.update(status="viol", what="entry structure differs from the per-block value")
                    break
                for a, b in zip(lo_, le_):
                    if isinstance(b, jax.Array):
                        if not isinstance(a, jax.Array) or a.shape != b.shape or a.dtype != b.dtype:
                            r.update(status="viol", what="entry differs from the per-block value (type, shape or dtype)")
                        else:
                            got_l.append(a)
                            exp_l.append(b)
                    else:
                        try:
                            same = a is b or bool(a == b) or type(a) is type(b)
                        except Exception:  # noqa
                            same = type(a) is type(b)
                        if not same:
                            r.update(status="viol", what="non-array entry differs from the per-block value")
        r["hi"] = len(got_l)
    return got_l, exp_l


def traced_attr_case(rng, mode, names=None):
    """-> (records, blocks json)"""
    import jax
    import jax.numpy as jnp
    import scico.numpy as snp
    from scico.numpy import BlockArray
    names = names or attr_names()
    cplx = mode in ("eager", "jit-complex", "vmap")
    if mode == "jit-complex":       # (complex argmax etc. trace but do not lower: properties only)
        names = [t for t in names if t[0] == "prop"]
    nb = rng.randint(1, 3)
    xs = gen_blocks(rng, "mat", n=nb, dtype="complex128" if cplx else "float64")
    xs = [jnp.asarray(b) for b in xs]
    rec = []
    got = exp = None
    err = None
    try:
        if mode == "eager":
            got, exp = probe_attrs(BlockArray(xs), names, rec)
        elif mode in ("jit", "jit-complex"):
            got, exp = jax.jit(lambda X: probe_attrs(X, names, rec))(BlockArray(xs))
        elif mode == "grad":
            def tot(X):
                g, e = probe_attrs(X, names, rec)
                return sum(jnp.sum(l) for l in g if l.dtype.kind == "f") + snp.sum(X)
            jax.grad(tot)(BlockArray(xs))
        elif mode == "vmap":
            got, exp = jax.vmap(lambda bl: probe_attrs(BlockArray(list(bl)), names, rec))([jnp.stack([b, 2 * b]) for b in xs])
        elif mode == "jit-operator":
            from scico.operator import Operator
            X = BlockArray(xs)

            def ev(x):
                probe_attrs(x, names, rec)
                return x
            A = Operator(input_shape=X.shape, output_shape=X.shape, eval_fn=ev, input_dtype=X.dtype, output_dtype=X.dtype, jit=True)
            A(X)
        elif mode == "jit-functional":
            from scico.functional import Functional

            class Fn(Functional):
                has_eval = True

                def __call__(self, x):
                    probe_attrs(x, names, rec)
                    return snp.sum(x * x)
            jax.jit(Fn().__call__)(BlockArray(xs))
    except Exception as e:  # noqa
        err = e
    if err is not None:
        rec.append({"kind": "mode", "name": mode, "traced": mode != "eager", "status": "viol", "lo": 0, "hi": 0,
                    "what": f"reading the lifted attributes under {mode} raises {type(err).__name__} ({str(err)[:80]!r})"})
        got = None
    if rec and mode != "eager" and not any(r["traced"] for r in rec):
        rec.append({"kind": "mode", "name": mode, "traced": False, "status": "viol", "lo": 0, "hi": 0,
                    "what": "harness: the probe was not traced"})
    if got is not None:
        for r in rec:
            if r["status"] == "ok":
                for a, b in zip(got[r["lo"]:r["hi"]], exp[r["lo"]:r["hi"]]):
                    if not leaf_same(a, b):
                        r.update(status="viol", what="value differs from the per-block value computed in the same trace")
    return rec, jsonable(xs)


# ---------------------------------------------------------------- (H) void wrappers: the numpy.testing assertions

VOID_DIFFS = ["equal", "value", "tiny", "shape", "dtype", "nan"]
VOID_MIXES = ["block-block", "block-scalar", "block-array", "scalar-block"]
VOID_PASS = ["positional", "keyword", "second-keyword"]


def void_cases(ctx):
    import scico.numpy as snp
    rng = ctx.rng
    allc = [(n, d, m, p_) for n in snp.testing_functions for d in VOID_DIFFS for m in VOID_MIXES for p_ in VOID_PASS]
    if ctx.quick:
        allc = [c for c in allc if c[1] in ("value", "shape")] [::2] + rng.sample(allc, 60)
    out = []
    for n, d, m, p_ in allc:
        for rep in range(ctx.n(1, 2)):
            nb = rng.randint(2, 3)
            out.append({"name": n, "diff": d, "mix": m, "passing": p_, "nblocks": nb,
                        "where": rng.choice([0] + list(range(1, nb)) * 3), "case_seed": rng.getrandbits(40)})
    return out


def run_void_case(c):
    """-> (what | None, coq | None)"""
    import jax.numpy as jnp
    import scico.numpy as snp
    from scico.numpy import BlockArray
    rng = _random.Random(c["case_seed"])
    name, diff, mix, j = c["name"], c["diff"], c["mix"], c["where"]
    sf, nf = get_fn(snp, name), get_fn(np, name)
    shapes = [rng.choice([(3,), (2, 2), (), (4,)]) for _ in range(c["nblocks"])]
    scalar = 1.5
    if mix == "block-block":
        xs = [np.array([rng.randint(-8, 8) / 4 for _ in range(int(np.prod(s)) if s else 1)]).reshape(s) for s in shapes]
    else:
        xs = [np.full(s, scalar) for s in shapes]
    ys = [x.copy() for x in xs]
    b = ys[j]
    if diff == "value":
        b = b.copy(); b.reshape(-1)[-1] += 1.0
    elif diff == "tiny":
        b = b.copy(); b.reshape(-1)[-1] += 2.0 ** -40
    elif diff == "nan":
        b = b.copy(); b.reshape(-1)[-1] = np.nan
    elif diff == "shape":
        b = np.concatenate([b.reshape(-1), [scalar, scalar]])
    ys[j] = b
    if diff == "dtype":
        ys = [y.astype(np.float32) for y in ys]
    Y = BlockArray([jnp.asarray(y) for y in ys])
    other = {"block-block": BlockArray([jnp.asarray(x) for x in xs]), "block-scalar": scalar,
             "block-array": jnp.asarray([scalar]), "scalar-block": scalar}[mix]
    first, second = (other, Y) if mix == "scalar-block" else (Y, other)
    if mix == "block-block":
        first, second = other, Y
    pnames = list(inspect.signature(nf).parameters)[:2]
    kw = {"rtol": 1e-6} if (name.endswith("allclose") and rng.random() < 0.5) else {}
    if c["passing"] == "positional":
        a = [first, second]
    elif c["passing"] == "keyword":
        a, kw = [], {pnames[0]: first, pnames[1]: second, **kw}
    else:
        a, kw = [first], {pnames[1]: second, **kw}
    nb = c["nblocks"]
    pickb = lambda v, i: v.arrays[i] if isinstance(v, BlockArray) else v  # noqa
    failing = []
    for i in range(nb):
        try:
            nf(*[pickb(v, i) for v in a], **{k_: pickb(v, i) for k_, v in kw.items()})
        except AssertionError:
            failing.append(i)
    enc, log = Enc(), []
    cargs = [enc.arg(v) for v in a]
    keymap = {k_: i + 1 for i, k_ in enumerate(inspect.signature(nf).parameters)}
    ckw = [(keymap[k_], enc.arg(v)) for k_, v in kw.items()]
    bad = [ids[i] for ba, ids in enc.blocks for i in failing]
    raised = {}

    def mk(orig):
        def proxy(*pa, **pk):
            rec = ([enc.seen(x) for x in pa], [(keymap[k_], enc.seen(v)) for k_, v in pk.items()])
            log.append(rec)
            try:
                return orig(*pa, **pk)
            except BaseException:
                raised["call"] = rec
                raise
        return proxy
    exc = None
    can_patch = getattr(sf, "__closure__", None) and "func" in sf.__code__.co_freevars
    try:
        if can_patch:
            with Patched(sf, "func", mk):
                r = sf(*a, **kw)
        else:
            r = sf(*a, **kw)
    except AssertionError as e:
        exc = e
    except Exception as e:  # noqa
        exc = e
    coq = None
    if can_patch:
        if exc is None:
            o = "(0, 0)"
        elif isinstance(exc, AssertionError) and "call" in raised:
            tags = [int(t[1].split()[1].rstrip(")").strip("()")) if t[0] == "P" and t[1].startswith("(VObj") else -1
                    for t in raised["call"][0] + [v for _, v in raised["call"][1]]]
            o = f"(1, {zlit(next((t for t in tags if t in bad), -1))})"
        else:
            o = f"(2, {exc_code(exc)})"
        coq = ("void", "(" + coq_list([c_arg(x) for x in cargs]) + ", " + coq_list([f"({zlit(q)}, {c_arg(v)})" for q, v in ckw])
               + ", " + coq_list([zlit(t) for t in bad]) + ", " + o + ")")
    what = None
    if failing and exc is None:
        what = ("assertion passes although the per-block assertion fails for a block"
                + (" other than block 0" if 0 not in failing else ""))
    elif not failing and exc is not None:
        what = f"raises {type(exc).__name__} although the assertion holds for every block"
    elif failing and not isinstance(exc, AssertionError):
        what = f"raises {type(exc).__name__}, not AssertionError"
    elif exc is None and r is not None:
        what = "void wrapper returns a value"
    c["failing_blocks"] = failing
    return what, coq


# ---------------------------------------------------------------- run / replay

import random as _random


def _name_case_by_label(mod, name, label, seed, want_pattern=True):
    specs = _specs()
    for m, n, sf, jf, kind in name_targets():
        if m == mod and n == name:
            fam, args, kw = base_recipe(n, jf, specs)
            for lab, f2, a2, k2 in variants(n, jf, fam, args, kw, kind == 1):
                if lab == label:
                    r = run_name_case(m, n, sf, jf, kind, lab, f2, a2, k2, _random.Random(seed), want_pattern)
                    r["inp"]["case_seed"] = seed
                    return r
    raise Broken(f"unknown wrapped name / variant {mod}.{name} [{label}]")


def run(ctx: Ctx):
    import scico.numpy as snp
    import scico.random as sr
    from scico.numpy import _blockarray as B
    from scico.numpy._wrapped_function_lists import binary_ops, unary_ops
    if not getattr(ctx, "no_proofs", False):
        ctx.proofs()
    ctx.exhaustive = True
    ctx.trusted += [
        "jax.numpy / jax.scipy.special / jax.random are the per-block oracle (Section variable F in the theorems)",
        "Python call semantics as transcribed in C13/Wrap.v (inspect.Signature.bind, BoundArguments.args/.kwargs, "
        "binary-operator forward/reflected dispatch, iteration through __getitem__); foreign operand types are assumed to "
        "defer to BlockArray's reflected methods (checked for int, float, jax, numpy arrays and numpy scalars)",
        "recording proxies placed in the closure cells of the installed wrappers (identity tags for arguments)"]
    ctx.assumptions += ["per-block results compared bit for bit with the same jax call on the same block (no arithmetic model)",
                        "block arguments of one call have the same number of blocks (theorems); mismatched counts only in the "
                        "structure sweep, where the model reproduces truncation / IndexError"]
    groups, meta = {}, {}

    def add_coq(coq, m):
        if coq:
            groups.setdefault(coq[0], []).append(coq[1])
            meta.setdefault(coq[0], []).append(m)

    # (A) structure sweep through the real wrappers with recording stubs
    nA = ctx.n(600, 8000)
    for i in range(nA):
        kind = [0, 1, 2, 3, 0, 1][i % 6]
        cs = ctx.rng.getrandbits(40)
        spec = gen_struct_case(_random.Random(cs), kind)
        g, case, o = run_struct_case(spec, cs)
        spec["case_seed"] = cs
        ctx.count("wrapper-structure:" + g, spec, nontrivial=o[0] != 2)
        add_coq((g, case), ("wrapper-structure", "call pattern of the wrapper differs from the model", spec, o))

    # (B) operators
    for c in op_cases(ctx):
        what, coq, info = run_op_case(c)
        ctx.count("operator", {"sym": c["sym"], "mix": c["mix"], "x": c["x"]}, nontrivial=info is None)
        add_coq(coq, ("BlockArray.operator", "per-block operator calls differ from the model", c, None))
        if what:
            ctx.violation("BlockArray.operator", what, c, expected="per-block jax operator applied to every block",
                          observed=what, oracle="per-block jax.Array operator")

    # (C) wrapped names
    specs = _specs()
    targets = name_targets()
    # add_full_reduction hands the block array to the function it wraps whenever an axis is given: every name of
    # reduction_functions must therefore be wrapped as wrapped(mapped(jax function))
    for n in snp.reduction_functions:
        ch = innermost(get_fn(snp, n))
        ok = (len(ch) >= 2 and ch[0].__code__.co_name == "wrapped" and ch[-1].__code__.co_name == "mapped"
              and ch[-1].__code__.co_filename.endswith("_wrappers.py"))
        ctx.obligation(True, f"wrapper table: {n}")
        ctx.count("wrapper-table", {"name": n}, nontrivial=False)
        if not ok:
            ctx.violation("wrapper-table", "a name of reduction_functions is not lifted block-wise underneath add_full_reduction "
                          "(it must also be wrapped by map_func_over_blocks)", {"name": n, "chain": [c_.__code__.co_name for c_ in ch]},
                          expected="add_full_reduction(map_func_over_blocks(jax function))")
    nskip = 0
    for mod, name, sf, jf, kind in targets:
        fam, args, kw = base_recipe(name, jf, specs)
        vs = variants(name, jf, fam, args, kw, kind == 1)
        chosen = vs if not ctx.quick else [vs[0]] + ([ctx.rng.choice(vs[1:])] if len(vs) > 1 else [])
        if kind == 1:
            chosen = vs
        for rep in range(ctx.n(1, 3)):
            for lab, f2, a2, k2 in chosen:
                cs = ctx.rng.getrandbits(40)
                r = run_name_case(mod, name, sf, jf, kind, lab, f2, a2, k2, _random.Random(cs), True)
                r["inp"]["case_seed"] = cs
                if r["status"] == "skip":
                    if lab == "base" and rep == 0:
                        ctx.notes.append(f"skipped {mod}.{name}: {r['why']}")
                    nskip += 1
                    continue
                ctx.count(f"wrapped:{mod}", r["inp"])
                if not r.get("chain_ok", True):
                    ctx.violation("wrapped-function", "name is not wrapped by the documented wrapper", r["inp"])
                add_coq(r.get("coq"), ("wrapped-function", "call pattern of the installed wrapper differs from the model", r["inp"], None))
                if r["status"] == "viol":
                    ctx.violation("wrapped-function", r["what"], r["inp"], expected="per-block jax.numpy result (bit for bit)",
                                  observed=r.get("observed"), oracle="jax.numpy on each block")
    ctx.notes.append(f"{nskip} operand variants skipped because the per-block jax call rejects the generated operands")

    # creation routines / random wrappers
    for name in snp.creation_routines:
        for v in ["nested", "keyword", "list", "int-elements", "plain"]:
            for rep in range(ctx.n(1, 5)):
                cs = ctx.rng.getrandbits(40)
                r = creation_case(_random.Random(cs), name, v)
                r["inp"]["case_seed"] = cs
                ctx.count("creation", r["inp"])
                add_coq(r["coq"], ("creation-routine", "call pattern of the creation wrapper differs from the model", r["inp"], None))
                if r["what"]:
                    ctx.violation("creation-routine", r["what"], r["inp"], oracle="jax.numpy creation per nested shape")
    for name in sr.wrappable_func_names:
        for v in (["key", "seed", "positional-shape"] if not ctx.quick else [ctx.rng.choice(["key", "seed", "positional-shape"])]):
            cs = ctx.rng.getrandbits(40)
            r = random_case(_random.Random(cs), name, v)
            r["inp"]["case_seed"] = cs
            if r["status"] == "skip":
                ctx.notes.append(f"skipped random.{name}: {r['why']}")
                continue
            ctx.count("random", r["inp"])
            if r["what"]:
                ctx.violation("random-wrapper", r["what"], r["inp"], oracle="jax.random per block with the same key")

    # (D) methods / properties
    for kind, names in (("method", B.da_methods), ("prop", B.da_props + ["dtype"])):
        for name in names:
            for rep in range(ctx.n(1, 4)):
                cs = ctx.rng.getrandbits(40)
                r = attr_case(_random.Random(cs), kind, name)
                r["inp"]["case_seed"] = cs
                ctx.count("lifted-" + kind, r["inp"], nontrivial=r["status"] != "both-raise")
                if r["what"]:
                    ctx.violation("BlockArray.attribute", r["what"], r["inp"], oracle="attribute of each block")

    # (E) transformations
    for tn in TRANSFORMS:
        for rep in range(ctx.n(1, 5)):
            cs = ctx.rng.getrandbits(40)
            r = transform_case(_random.Random(cs), tn)
            r["inp"]["case_seed"] = cs
            coq = r["inp"].pop("coq", None)
            ctx.count("transform", r["inp"])
            add_coq(coq, ("jax-transform", "tree_flatten / tree_unflatten differ from the model", r["inp"], None))
            if r["what"]:
                unit = "BlockArray.__setitem__" if tn == "setitem_dtype" else "jax-transform"
                ctx.violation(unit, r["what"], r["inp"], oracle="the same transformation applied to the tuple of blocks")

    # (F) constructor guard: every order of mixed-dtype block lists must be rejected
    hows = ["BlockArray", "blockarray-tuple", "blockarray-list"]
    for i, kinds in enumerate(ctor_cases(ctx)):
        for how in (hows if not ctx.quick else [hows[i % 3]]):
            what, coq, inp = run_ctor_case(kinds, how)
            ctx.count("constructor", inp, nontrivial=len(kinds) > 1)
            add_coq(coq, ("BlockArray.__init__", "constructor accepts / rejects differently from the model guard "
                                                 "(all blocks must have the dtype of block 0)", inp, None))
            if what:
                ctx.violation("BlockArray.__init__", what, inp, expected="ValueError iff two blocks differ in dtype, in every order",
                              oracle="dtype of each block as a jax array")

    # (G) every lifted property / method read eagerly and while traced (jit, grad, vmap, jitted Operator / Functional)
    eager = {}
    for mode in TRACE_MODES:
        for rep in range(ctx.n(1, 3)):
            cs = ctx.rng.getrandbits(40)
            # quick tier: every property in every mode, the methods under jit (and eagerly in stream D)
            sel = None if (not ctx.quick or mode == "jit") else [t for t in attr_names() if t[0] == "prop"]
            rec, blocks = traced_attr_case(_random.Random(cs), mode, sel)
            for r in rec:
                inp = {"mode": mode, "kind": r["kind"], "name": r["name"], "blocks": blocks, "case_seed": cs}
                ctx.count("attribute-" + mode, {"mode": mode, "name": r["name"], "seed": cs}, nontrivial=r["status"] != "both-raise")
                if r["status"] == "viol":
                    ctx.violation("BlockArray.attribute-traced", r["what"], inp, oracle="the attribute of each block in the same trace")
                elif r["status"] == "ok" and r.get("container") in (0, 1):
                    nb = len(blocks)
                    add_coq(("attr", f"({'true' if r['traced'] else 'false'}, {'true' if r['arrv'] else 'false'}, "
                             + coq_list([zlit(10 + i) for i in range(nb)]) + f", ({r['container']}, {r['n']}))"),
                            ("BlockArray.attribute-traced", "container of the lifted attribute differs from the model "
                             "(block array iff array valued, in every execution mode)", inp, None))
                    key = (r["kind"], r["name"])
                    if mode == "eager":
                        eager[key] = r["container"]
                    elif key in eager and eager[key] != r["container"]:
                        ctx.violation("BlockArray.attribute-traced", "container (BlockArray / tuple) of the attribute differs between "
                                      "eager and traced evaluation", inp, expected=eager[key], observed=r["container"])

    # (H) void wrappers (numpy.testing assertions): outcome = conjunction over the blocks
    for c in void_cases(ctx):
        what, coq = run_void_case(c)
        ctx.count("void-wrapper", c, nontrivial=bool(c.get("failing_blocks")))
        add_coq(coq, ("void-wrapper", "outcome / raising block of the assertion wrapper differs from the model "
                                      "(first failing block raises, passes iff every block passes)", c, None))
        if what:
            ctx.violation("void-wrapper", what, c, expected="AssertionError iff the numpy assertion fails for some block",
                          oracle="numpy.testing assertion on each block")

    # name tables are exhaustive
    ctx.notes.append(f"names covered: {len(unary_ops)} unary + {len(binary_ops)} binary class operators (+{len(BIN_SYMS) + len(UN_SYMS)} "
                     f"operator symbols), {len(B.da_methods)} methods, {len(B.da_props)} properties, {len(snp.creation_routines)} creation "
                     f"routines, {len(set(snp.mathematical_functions))} mathematical functions ({len(snp.reduction_functions)} reductions), "
                     f"{len(targets) - len(set(snp.mathematical_functions))} scipy.special names, {len(sr.wrappable_func_names)} random wrappers")

    # Coq side: the model predicts the observed call patterns
    bad = coq_check("C13", groups)
    ncases = sum(len(v) for v in groups.values())
    ctx.traces = ncases
    ctx.obligation(True, f"{ncases} call patterns evaluated in Coq")
    for g, idxs in bad.items():
        for i in idxs:
            unit, what, inp, o = meta[g][i]
            ctx.violation(unit, what, inp, expected="prediction of coq/theories/C13 (Exec.v) for this call", observed=repr(o)[:400],
                          oracle=CHECKERS[g])


def replay(ctx: Ctx, rec):
    unit, inp = rec["unit"], rec["input"]
    coq = None
    if unit == "wrapper-structure":
        g, case, o = run_struct_case(inp, inp["case_seed"])
        coq, what = (g, case), None
    elif unit == "BlockArray.operator":
        what, coq, _ = run_op_case(inp)
    elif unit == "wrapped-function":
        r = _name_case_by_label(inp["module"], inp["name"], inp["variant"], inp["case_seed"])
        what, coq = (r.get("what") if r["status"] == "viol" else None), r.get("coq")
    elif unit == "creation-routine":
        r = creation_case(_random.Random(inp["case_seed"]), inp["name"], inp["variant"])
        what, coq = r["what"], r["coq"]
    elif unit == "random-wrapper":
        what = random_case(_random.Random(inp["case_seed"]), inp["name"], inp["variant"]).get("what")
    elif unit == "BlockArray.attribute":
        what = attr_case(_random.Random(inp["case_seed"]), inp["kind"], inp["name"])["what"]
    elif unit == "wrapper-table":
        import scico.numpy as snp
        ch = innermost(get_fn(snp, inp["name"]))
        return len(ch) >= 2 and ch[0].__code__.co_name == "wrapped" and ch[-1].__code__.co_name == "mapped"
    elif unit == "void-wrapper":
        what, coq = run_void_case(inp)
    elif unit == "BlockArray.__init__":
        what, coq, _ = run_ctor_case(inp["kinds"], inp["how"])
    elif unit == "BlockArray.attribute-traced":
        names = None if inp["kind"] == "mode" else [(inp["kind"], inp["name"])]
        rec, _ = traced_attr_case(_random.Random(inp["case_seed"]), inp["mode"], names)
        what = next((r["what"] for r in rec if r["status"] == "viol"), None)
    elif unit in ("jax-transform", "BlockArray.__setitem__"):
        r = transform_case(_random.Random(inp["case_seed"]), inp["transform"])
        what, coq = r["what"], r["inp"].get("coq")
    else:
        raise SystemExit("unknown unit")
    if what:
        return False
    if coq:
        return not any(coq_check("C13_replay", {coq[0]: [coq[1]]}).values())
    return True
