"""C14 -- linear-system and scalar solver primitives meet their contracts.

Theorems: coq/Properties/C14.v (models coq/theories/C14/*.v); refuted full statements for the
units that are still defective (cg with preconditioner, flax cg_solver, golden with user c):
coq/Findings/C14_*.v.  lstsq (commit 247d4df: Aop.H) and MatrixATADSolver.accuracy (25e555b: D @ x for a
2-D D) were repaired in /repo; the streams that exposed them (complex lstsq; accuracy with a full D, vector
and matrix right-hand sides, at the solution and at a perturbed x) are kept, with no known-finding entry, so
a regression is reported as VIOLATION.

Checks of this file (all inputs are dyadic rationals, so the float implementation and the exact
Qc model receive the same numbers):
 (a) scico.solver.cg vs the Coq model (CG.v at the matrix instance of CGExec.v), state by state
     (maxiter = 0..n+1), real and complex, operator / callable A, preconditioner, x0, b = 0,
     early termination; compared inside Coq (num_iter exactly, x and rel_res^2 <b,b> = num to 2^-30);
 (b) property oracle independent of the model: TRUE residual ||b - A x|| (numpy) vs the stopping
     rule and info['rel_res'] the solver reports; the same for jax.scipy.sparse.linalg.cg (direct,
     and through ADMM's LinearSubproblemSolver(cg_function=...)) and flax.inverse.cg_solver;
 (c) lstsq vs numpy.linalg.lstsq (objective value), real/complex, tall/wide/square;
 (d) MatrixATADSolver / ConvATADSolver: residual of the system assembled independently in numpy,
     accuracy() vs the true relative residual;
 (e) bisect / golden: vectorised brackets with different roots / minimisers per element; result in
     the initial bracket and within xtol; loop compared with the Coq model at Qc inside Coq.
"""
from __future__ import annotations

import math
from fractions import Fraction

import numpy as np

from vf.common import (Ctx, Broken, COQ, coq_eval_shards, coqc_file, coq_make, parse_evals, qlit, coq_list)

HEADER = """From Coq Require Import List Bool ZArith QArith Qcanon.
From SV Require Import Base.Num C14.Tup C14.CG C14.CGExec C14.Bisect C14.Golden C14.ScalarExec.
Import ListNotations.
"""

FINDINGS = ["C14_cg_precond", "C14_cg_solver_nan", "C14_golden_c"]


# ------------------------------------------------------------------ helpers

def dy(rng, den, lo, hi):
    """random dyadic k/den in [lo, hi]"""
    return rng.randint(int(lo * den), int(hi * den)) / den


def enc(a):
    """numpy array -> JSON-able nested list (complex entries as [re, im])"""
    a = np.asarray(a)
    if np.iscomplexobj(a):
        return [enc(x) for x in a] if a.ndim > 1 else [[float(z.real), float(z.imag)] for z in a]
    return a.tolist()


def dec(l, cplx):
    if l is None:
        return None
    a = np.array(l, dtype=np.float64)
    if cplx:
        return a[..., 0] + 1j * a[..., 1]
    return a


def qnum(x, cplx):
    if cplx:
        z = complex(x)
        return f"({qlit(z.real)}, {qlit(z.imag)})"
    return qlit(float(x))


def qvec(v, cplx):
    return coq_list([qnum(x, cplx) for x in v])


def qmat(Mx, cplx):
    return coq_list([qvec(r, cplx) for r in Mx])


def parse_nat_list(txt):
    body = txt.strip()
    if body in ("[]", "nil"):
        return []
    body = body.strip("[]")
    return [int(t.strip().replace("%nat", "")) for t in body.split(";") if t.strip()]


def eval_bad_fragile(name, header, shard_items, okf, fragf, ctype, shard=40):
    """run `bad_idx (ok)` and `bad_idx (not fragile)` over the cases; returns (bad, fragile) index sets"""
    bodies = []
    for s in range(0, len(shard_items), shard):
        items = shard_items[s:s + shard]
        bodies.append(f"Definition cases : list {ctype} := " + coq_list(items, ";\n ") + ".\n"
                      f"Eval vm_compute in (bad_idx14 {okf} cases 0%nat).\n"
                      f"Eval vm_compute in (bad_idx14 (fun c => negb ({fragf} c)) cases 0%nat).")
    if not bodies:
        return set(), set()
    outs = coq_eval_shards(name, header, bodies)
    bad, frag = set(), set()
    for si, o in enumerate(outs):
        ev = parse_evals(o)
        if len(ev) != 2:
            raise Broken("cannot parse Coq output of " + name, o[-1500:])
        bad |= {si * shard + i for i in parse_nat_list(ev[0])}
        frag |= {si * shard + i for i in parse_nat_list(ev[1])}
    return bad, frag


def gen_hpd(rng, n, cplx):
    """B^H B + c I with dyadic entries (exact in float64)"""
    if cplx:
        B = np.array([[dy(rng, 2, -2, 2) + 1j * dy(rng, 2, -2, 2) for _ in range(n)] for _ in range(n)])
    else:
        B = np.array([[dy(rng, 4, -2, 2) for _ in range(n)] for _ in range(n)])
    A = B.conj().T @ B + rng.choice([1.0, 2.0]) * np.eye(n)
    return A


def gen_vec(rng, n, cplx, den=4, lo=-4, hi=4):
    if cplx:
        return np.array([dy(rng, den, lo, hi) + 1j * dy(rng, den, lo, hi) for _ in range(n)])
    return np.array([dy(rng, den, lo, hi) for _ in range(n)])


# ------------------------------------------------------------------ (a)+(b) scico.solver.cg

def gen_cg_case(rng, i):
    cplx = rng.random() < 0.4
    n = rng.choice([1, 2, 2, 3, 3, 3, 4, 4, 4, 5, 6]) if not cplx else rng.choice([1, 2, 2, 3, 3, 4, 5])
    A = gen_hpd(rng, n, cplx)
    r = rng.random()
    if i % 9 == 0 or r < 0.08:
        b = np.zeros(n, dtype=A.dtype)
    else:
        b = gen_vec(rng, n, cplx)
    akind = rng.choice(["operator", "callable"])
    if akind == "operator" and rng.random() < 0.5:
        x0 = None
    else:
        x0 = gen_vec(rng, n, cplx, den=2, lo=-2, hi=2) if rng.random() < 0.6 else np.zeros(n, dtype=A.dtype)
    r = rng.random()
    if r < 0.45:
        M, pk = None, "none"
    elif r < 0.55:
        M, pk = np.eye(n, dtype=A.dtype), "identity"
    elif r < 0.75:
        M, pk = np.diag([rng.choice([1 / 64, 1 / 16, 1 / 4, 4.0]) for _ in range(n)]).astype(A.dtype), "nonidentity"
    elif r < 0.9:
        M, pk = np.diag([2.0 ** (-math.ceil(math.log2(abs(A[j, j].real)))) for j in range(n)]).astype(A.dtype), "nonidentity"
    else:
        M, pk = gen_hpd(rng, n, cplx) / 8.0, "nonidentity"
    if pk == "nonidentity" and np.array_equal(M, np.eye(n)):
        pk = "identity"
    tol = rng.choice([0.5, 0.25, 0.125, 2.0 ** -5, 2.0 ** -10, 2.0 ** -20])
    atol = rng.choice([0.0, 0.0, 0.125, 2.0 ** -10])
    x0kind = "zero-or-moderate"
    if i % 5 in (2, 4):
        # non-zero starting point whose initial residual is far above / far below ||b||: the tolerance must be
        # measured against ||b|| (documented rule max(tol*||b||, atol)), not against ||b - A x0||
        tol = rng.choice([0.5, 0.25, 0.125, 2.0 ** -5])
        atol = rng.choice([0.0, 0.0, 0.0, 2.0 ** -10])
        while True:
            xs = gen_vec(rng, n, cplx, den=2, lo=-2, hi=2)
            if np.any(xs):
                break
        if i % 5 == 2:                              # ||b - A x0|| >> ||b||
            x0kind = "residual0>>b"
            x0 = 64.0 * xs
            while True:
                b = gen_vec(rng, n, cplx, den=4, lo=-1, hi=1)
                if np.any(b):
                    break
        else:                                       # ||b - A x0|| << ||b||
            x0kind = "residual0<<b"
            x0 = xs
            while True:
                e = gen_vec(rng, n, cplx, den=64, lo=-1 / 32, hi=1 / 32)
                if np.any(e):
                    break
            b = A @ x0 + e
            if not np.any(b):
                b = b + 1.0
    return {"n": n, "complex": cplx, "x0_kind": x0kind, "A": enc(A), "b": enc(b), "x0": None if x0 is None else enc(x0),
            "M": None if M is None else enc(M), "precond": pk, "A_kind": akind, "tol": tol, "atol": atol}


def run_cg_impl(c, maxiter):
    import jax.numpy as jnp
    from scico import solver
    from scico.linop import MatrixOperator
    cplx = c["complex"]
    A = dec(c["A"], cplx)
    b = jnp.array(dec(c["b"], cplx))
    x0 = None if c["x0"] is None else jnp.array(dec(c["x0"], cplx))
    Aj = jnp.array(A)
    Aop = MatrixOperator(Aj) if c["A_kind"] == "operator" else (lambda v: Aj @ v)
    M = None
    if c["M"] is not None:
        Mj = jnp.array(dec(c["M"], cplx))
        M = lambda v: Mj @ v
    x, info = solver.cg(Aop, b, x0, tol=c["tol"], atol=c["atol"], maxiter=maxiter, M=M)
    rr = float(np.asarray(info["rel_res"]).real)
    return np.asarray(x), int(info["num_iter"]), (rr if math.isfinite(rr) else None)


def cg_oracle(c, maxiter, x, it, rr):
    """true residual vs the rule / rel_res the solver reports; returns list of (what, exp, obs)"""
    cplx = c["complex"]
    A, b = dec(c["A"], cplx), dec(c["b"], cplx)
    res = b - A @ x
    nr, nb = float(np.linalg.norm(res)), float(np.linalg.norm(b))
    thr = max(c["tol"] * nb, c["atol"])
    slack = 1e-6 * thr + 1e-11 * (1 + nb + float(np.linalg.norm(A)) * float(np.linalg.norm(x)))
    out = []
    mw = None
    if c["M"] is not None:
        Mx = dec(c["M"], cplx)
        mw = math.sqrt(abs(np.vdot(res, Mx @ res)))
    if it > maxiter:
        out.append(("cg performed more than maxiter iterations", f"<= {maxiter}", it))
    if it < maxiter and nr > thr + slack:
        if c["precond"] == "nonidentity" and mw is not None and mw <= thr + slack:
            what = ("cg with preconditioner M stops on sqrt(r^H M r) <= max(tol*||b||, atol) while the true "
                    "residual ||b - A x|| is above the documented threshold")
        else:
            what = "cg stopped before maxiter with the true residual above max(tol*||b||, atol)"
        out.append((what, f"||b-Ax|| <= {thr}", nr))
    if nb > 0:
        if rr is None:
            out.append(("cg reports rel_res = nan for b != 0", nr / nb, "nan"))
        elif abs(rr - nr / nb) > 1e-6 * (nr / nb) + 1e-9 * (1 + float(np.linalg.norm(A)) * float(np.linalg.norm(x)) / nb):
            if c["precond"] == "nonidentity" and mw is not None and abs(rr - mw / nb) <= 1e-6 * (mw / nb) + 1e-9:
                what = ("cg with preconditioner M reports rel_res = sqrt(r^H M r)/||b|| instead of the true relative "
                        "residual ||b - A x||/||b||")
            else:
                what = "cg info['rel_res'] is not the true relative residual ||b - A x||/||b||"
            out.append((what, nr / nb, rr))
    return out


def cg_late_oracle(c, obs):
    """M = None / identity: the loop must not run an iteration when the true residual of the current iterate is
    already below max(tol*||b||, atol).  obs[k] is the run with maxiter = k; if it performed k >= 1 iterations then
    the iterate after k-1 iterations (the result of the run with maxiter = k-1) had to be above the threshold."""
    if c["precond"] not in ("none", "identity"):
        return []
    cplx = c["complex"]
    A, b = dec(c["A"], cplx), dec(c["b"], cplx)
    nb = float(np.linalg.norm(b))
    thr = max(c["tol"] * nb, c["atol"])
    out = []
    for (k, x, it, rr), (k0, xp, itp, rrp) in zip(obs[1:], obs[:-1]):
        if it == k and itp == k0 == k - 1:
            nrp = float(np.linalg.norm(b - A @ xp))
            slack = 1e-6 * thr + 1e-11 * (1 + nb + float(np.linalg.norm(A)) * float(np.linalg.norm(xp)))
            if nrp < thr - slack:
                out.append(("cg performed another iteration although the true residual was already below "
                            "max(tol*||b||, atol)", f"stop at {k - 1} iterations: ||b-Ax|| = {nrp} <= {thr}", it, k))
                break
    return out


def coq_cg_case(c, obs):
    cplx = c["complex"]
    A, b = dec(c["A"], cplx), dec(c["b"], cplx)
    n = c["n"]
    x0 = np.zeros(n, dtype=A.dtype) if c["x0"] is None else dec(c["x0"], cplx)
    M = "None" if c["M"] is None else "(Some " + qmat(dec(c["M"], cplx), cplx) + ")"
    ob = []
    for (k, x, it, rr) in obs:
        ob.append(f"({k}%nat, {qvec(x, cplx)}, {it}%nat, " + ("None" if rr is None else f"(Some {qlit(rr)})") + ")")
    return (f"({n}%nat, {qmat(A, cplx)}, {M}, {qvec(b, cplx)}, {qvec(x0, cplx)}, "
            f"{qlit(c['tol'])}, {qlit(c['atol'])}, {coq_list(ob)})")


def check_cg(ctx):
    ncase = ctx.n(30, 100)
    cases = []
    for i in range(ncase):
        c = gen_cg_case(ctx.rng, i)
        obs = []
        for k in range(0, min(c["n"] + 1, 4 if c["n"] >= 5 else 5) + 1):
            x, it, rr = run_cg_impl(c, k)
            obs.append((k, x, it, rr))
            ctx.count("cg/" + ("complex" if c["complex"] else "real") + "/" + c["A_kind"] + "/M=" + c["precond"]
                      + ("/x0" if c["x0"] is not None else "/nox0")
                      + ("/" + c["x0_kind"] if c["x0_kind"] != "zero-or-moderate" else ""),
                      {**c, "maxiter": k}, nontrivial=c["n"] >= 2 and k >= 1)
            for what, exp, ob in cg_oracle(c, k, x, it, rr):
                ctx.violation("cg", what, {**c, "maxiter": k}, expected=exp, observed=ob,
                              oracle="numpy: ||b - A x|| vs reported rule / rel_res (theorems C14_cg_reports_true_residual_*)")
        for what, exp, ob, k in cg_late_oracle(c, obs):
            ctx.violation("cg", what, {**c, "maxiter": k}, expected=exp, observed=ob,
                          oracle="numpy: true residual of the previous iterate (theorem C14_cg_identity_rule_all_iterates)")
        cases.append((c, obs))
    for cplx, okf, fragf, nm, ct in ((False, "r_case_ok", "r_case_fragile", "C14_cg_real", "rcase"),
                                     (True, "c_case_ok", "c_case_fragile", "C14_cg_cplx", "ccase")):
        sub = [(c, o) for c, o in cases if c["complex"] == cplx]
        items = [coq_cg_case(c, o) for c, o in sub]
        bad, frag = eval_bad_fragile(nm, HEADER, items, okf, fragf, ct, shard=ctx.n(6, 25))
        ctx.dist["cg-model-fragile-skipped"] = ctx.dist.get("cg-model-fragile-skipped", 0) + len(frag)
        ctx.traces += len(sub) - len(frag)
        for i in sorted(bad - frag):
            c, o = sub[i]
            ctx.violation("cg-model", "scico.solver.cg differs from the proved loop model (num_iter / x / rel_res)",
                          {**c, "maxiters": [k for k, *_ in o]}, expected="CGExec.r_cg / c_cg by vm_compute",
                          observed=[[k, enc(x), it, rr] for k, x, it, rr in o], oracle="C14_cg_matrix_instance")
    ctx.obligation(True, "cg correspondence evaluated inside Coq")


# ------------------------------------------------------------------ jax CG (direct and through ADMM)

def gen_jaxcg_case(rng):
    c = gen_cg_case(rng, 1)
    c["tol"] = rng.choice([2.0 ** -10, 2.0 ** -20, 2.0 ** -30])
    c["atol"] = rng.choice([0.0, 2.0 ** -12])
    if c["x0"] is None:
        c["x0"] = enc(np.zeros(c["n"], dtype=complex if c["complex"] else float))
    if not np.any(np.array(c["b"])):
        # b = 0 with atol = 0 makes the documented threshold max(tol*||b||, atol) = 0, which no floating-point
        # iteration can be required to reach (jax's cg then runs to maxiter and underflows to 0/0): not demanded
        c["atol"] = 2.0 ** -12
    return c


def jaxcg_oracle(c):
    import jax.numpy as jnp
    from scico.optimize._admmaux import jax_cg
    cplx = c["complex"]
    A, b, x0 = dec(c["A"], cplx), dec(c["b"], cplx), dec(c["x0"], cplx)
    Aj = jnp.array(A)
    M = None
    kw = {}
    if c["M"] is not None:
        Mj = jnp.array(dec(c["M"], cplx))
        kw["M"] = lambda v: Mj @ v
    x, _ = jax_cg(lambda v: Aj @ v, jnp.array(b), jnp.array(x0), tol=c["tol"], atol=c["atol"], maxiter=200, **kw)
    x = np.asarray(x)
    nr, nb = float(np.linalg.norm(b - A @ x)), float(np.linalg.norm(b))
    thr = max(c["tol"] * nb, c["atol"])
    slack = 1e-6 * thr + 1e-11 * (1 + nb + float(np.linalg.norm(A)) * float(np.linalg.norm(x)))
    if not np.all(np.isfinite(x)) or nr > thr + slack:
        return [("jax cg (ADMM cg_function='jax') returns x with true residual above max(tol*||b||, atol)",
                 f"<= {thr}", nr)]
    return []


def admm_cg_oracle(c):
    """ADMM x-update through LinearSubproblemSolver(cg_function=...) -> true residual of its system"""
    import jax.numpy as jnp
    from scico import functional, linop, loss
    from scico.optimize import ADMM
    from scico.optimize.admm import LinearSubproblemSolver
    B = np.array(c["B"])
    y = np.array(c["y"])
    n = B.shape[1]
    out = []
    for fn in ("scico", "jax"):
        f = loss.SquaredL2Loss(y=jnp.array(y), A=linop.MatrixOperator(jnp.array(B)))
        sps = LinearSubproblemSolver(cg_kwargs={"tol": c["tol"], "maxiter": 200}, cg_function=fn)
        adm = ADMM(f=f, g_list=[functional.L1Norm()], C_list=[linop.Identity((n,), input_dtype=np.float64)], rho_list=[c["rho"]],
                   x0=jnp.array(np.array(c["x0"])), maxiter=1, subproblem_solver=sps)
        rhs = np.asarray(sps.compute_rhs())
        x = np.asarray(sps.solve(adm.x))
        G = B.T @ B + c["rho"] * np.eye(n)
        nr = float(np.linalg.norm(rhs - G @ x))
        thr = c["tol"] * float(np.linalg.norm(rhs))
        if nr > thr * (1 + 1e-6) + 1e-11 * (1 + np.linalg.norm(G) * np.linalg.norm(x)):
            out.append((f"ADMM LinearSubproblemSolver(cg_function='{fn}') x-update residual above tol*||rhs||",
                        f"<= {thr}", nr))
        if fn == "scico" and sps.info is not None and np.linalg.norm(rhs) > 0:
            rr = float(sps.info["rel_res"])
            if abs(rr - nr / np.linalg.norm(rhs)) > 1e-6 * rr + 1e-9:
                out.append(("ADMM LinearSubproblemSolver info['rel_res'] is not the true relative residual",
                            nr / float(np.linalg.norm(rhs)), rr))
    return out


def check_jaxcg(ctx):
    for i in range(ctx.n(16, 50)):
        c = gen_jaxcg_case(ctx.rng)
        ctx.count("jax-cg/" + ("complex" if c["complex"] else "real") + "/M=" + c["precond"], c, nontrivial=c["n"] >= 2)
        for what, exp, ob in jaxcg_oracle(c):
            ctx.violation("jax_cg", what, c, expected=exp, observed=ob, oracle="numpy true residual")
    for i in range(ctx.n(3, 10)):
        rng = ctx.rng
        m, n = rng.randint(1, 5), rng.randint(1, 5)
        c = {"B": [[dy(rng, 4, -2, 2) for _ in range(n)] for _ in range(m)],
             "y": [dy(rng, 4, -4, 4) for _ in range(m)], "x0": [dy(rng, 2, -2, 2) for _ in range(n)],
             "rho": rng.choice([0.5, 1.0, 2.0]), "tol": rng.choice([2.0 ** -10, 2.0 ** -20])}
        ctx.count("admm-linear-subproblem-cg", c, nontrivial=n >= 2)
        for what, exp, ob in admm_cg_oracle(c):
            ctx.violation("LinearSubproblemSolver", what, c, expected=exp, observed=ob, oracle="numpy true residual")


# ------------------------------------------------------------------ flax cg_solver (scan)

def gen_scan_case(rng, i):
    """i % 5 in (1, 3): complex Hermitian positive-definite system (complex128 / complex64, 1-D or 2-D unknown,
    with / without x0), compared iterate for iterate with the proved CG model; otherwise the real designs
    (random, b = 0, x0 = solution, scaled identity) including the exact-convergence cases of the known finding."""
    cplx = i % 5 in (1, 3)
    n = rng.randint(1, 4)
    design = "random" if cplx else ["random", "random", "random", "b=0", "x0=solution", "scaled-identity"][i % 6]
    dtype = ("complex64" if i % 2 == 0 else "complex128") if cplx else "float64"
    shape = None
    if rng.random() < 0.5 and n >= 2:
        shape = {2: [2, 1], 3: [1, 3], 4: [2, 2]}[n]
    if design == "scaled-identity":
        A = rng.choice([0.5, 1.0, 2.0, 4.0]) * np.eye(n)
    else:
        A = gen_hpd(rng, n, cplx)
    b = gen_vec(rng, n, cplx)
    if cplx and not np.any(b):
        b[0] = 1.0
    x0 = gen_vec(rng, n, cplx, den=2, lo=-2, hi=2) if rng.random() < 0.5 else None
    zero_at = None                      # scan step index at which the residual is exactly zero
    if design == "b=0":
        b, x0, zero_at = np.zeros(n), None, 0
    elif design == "x0=solution":
        x0 = gen_vec(rng, n, False, den=2, lo=-2, hi=2)
        b, zero_at = A @ x0, 0
    elif design == "scaled-identity":
        x0 = None
        zero_at = 0 if not np.any(b) else 1
    return {"n": n, "complex": cplx, "dtype": dtype, "shape": shape, "A": enc(A), "b": enc(b),
            "x0": None if x0 is None else enc(x0), "design": design, "zero_at": zero_at}


def run_scan_impl(c, maxiter):
    import jax.numpy as jnp
    from scico.flax.inverse import cg_solver
    cplx = c.get("complex", False)
    dt = np.dtype(c.get("dtype", "float64"))
    shp = tuple(c["shape"]) if c.get("shape") else (c["n"],)
    Aj = jnp.array(dec(c["A"], cplx).astype(dt))
    x0 = None if c["x0"] is None else jnp.array(dec(c["x0"], cplx).astype(dt).reshape(shp))
    b = jnp.array(dec(c["b"], cplx).astype(dt).reshape(shp))
    x = cg_solver(lambda v: (Aj @ v.ravel()).reshape(shp), b, x0, maxiter=maxiter)
    if np.dtype(x.dtype) != dt or tuple(x.shape) != shp:
        raise Broken("harness: cg_solver changed dtype/shape", f"{x.dtype} {x.shape} vs {dt} {shp}")
    return np.asarray(x).ravel()


def scan_prec(c):
    """(relative precision of the working dtype as used by the oracles, Coq comparison tolerance)"""
    return (1e-5, 2.0 ** -12) if c.get("dtype") == "complex64" else (1e-13, 2.0 ** -30)


def scan_oracle(c, maxiter, x):
    cplx = c.get("complex", False)
    A, b = dec(c["A"], cplx), dec(c["b"], cplx)
    if not np.all(np.isfinite(x)):
        return [("cg_solver (lax.scan) returns nan: 0/0 once the residual is exactly zero", "finite solution", "nan")]
    if c["design"] == "random" and maxiter >= c["n"] + 2:
        nr, nb = float(np.linalg.norm(b - A @ x)), float(np.linalg.norm(b))
        rel = 1e-3 if c.get("dtype") == "complex64" else 1e-6
        if nr > rel * nb + rel * 1e-3:
            return [("cg_solver does not solve the Hermitian positive-definite system after n+2 iterations",
                     f"<= {rel} ||b||", nr)]
    return []


def coq_scan_item(c, obs):
    cplx = c.get("complex", False)
    n = c["n"]
    A, b = dec(c["A"], cplx), dec(c["b"], cplx)
    x0 = np.zeros(n, dtype=A.dtype) if c["x0"] is None else dec(c["x0"], cplx)
    ob = [f"({k}%nat, " + ("None" if not np.all(np.isfinite(x)) else f"(Some {qvec(x, cplx)})") + ")" for k, x in obs]
    exact = "true" if c["design"] != "random" else "false"
    if cplx:
        return (f"({n}%nat, {qmat(A, True)}, {qvec(b, True)}, {qvec(x0, True)}, {exact}, {qlit(scan_prec(c)[1])}, "
                f"{coq_list(ob)})")
    return f"({n}%nat, {qmat(A, False)}, {qvec(b, False)}, {qvec(x0, False)}, {exact}, {coq_list(ob)})"


def scan_observe(c):
    """run cg_solver for maxiter = 0..n+2; returns [(k, x, inp)] with the known-finding flag derived from the data"""
    cplx = c.get("complex", False)
    conv_at = c["zero_at"]              # first scan index whose iterate already solves the system
    Am, bm = dec(c["A"], cplx), dec(c["b"], cplx)
    prec = scan_prec(c)[0]
    res = []
    for k in range(0, c["n"] + 3):
        x = run_scan_impl(c, k)
        if conv_at is None and np.all(np.isfinite(x)) and \
                np.linalg.norm(bm - Am @ x) <= prec * (1 + np.linalg.norm(bm)):
            conv_at = k
        inp = {**c, "maxiter": k, "zero_residual_before_end": conv_at is not None and k >= conv_at + 1}
        res.append((k, x, inp))
    return res


def check_scan(ctx):
    ncase = ctx.n(20, 60)
    items = {False: [], True: []}
    meta = {False: [], True: []}
    for i in range(ncase):
        c = gen_scan_case(ctx.rng, i)
        obs = []
        for k, x, inp in scan_observe(c):
            obs.append((k, x))
            ctx.count("cg_solver/" + c["design"] + "/" + c["dtype"] + ("/2-D" if c["shape"] else "")
                      + ("/x0" if c["x0"] is not None else ""), inp, nontrivial=c["n"] >= 2 and k >= 1)
            for what, exp, ob in scan_oracle(c, k, x):
                ctx.violation("cg_solver", what, inp, expected=exp, observed=ob,
                              oracle="finite result / numpy residual (C14_cg_solver_nan_after_exact_convergence)")
        items[c["complex"]].append(coq_scan_item(c, obs))
        meta[c["complex"]].append((c, obs))
    for cplx, okf, ct, nm in ((False, "r_scan_case_ok", "scase", "C14_scan"), (True, "c_scan_case_ok", "cscase", "C14_scan_c")):
        bad, _ = eval_bad_fragile(nm, HEADER, items[cplx], okf, f"(fun _ : {ct} => false)", ct, shard=ctx.n(4, 20))
        ctx.traces += len(items[cplx])
        for i in sorted(bad):
            c, o = meta[cplx][i]
            ctx.violation("cg_solver-model", "flax cg_solver differs from the proved CG model (iterate after maxiter scan steps)", c,
                          expected="CGExec.r_cg_solver / c_cg_solver by vm_compute (= CG.iter, theorem C14_cg_solver_is_cg_iterate)",
                          observed=[[k, enc(x)] for k, x in o], oracle="C14_cg_solver_is_cg_iterate / C14_cg_solver_scan_invariant")


# ------------------------------------------------------------------ lstsq

LSTSQ_X0_KINDS = {  # (A_kind, x0 kind) by r = (i // 6 + i // 24) % 4, for complex and for real A
    True: [("operator", "none"), ("callable", "float32-zeros"), ("callable", "float64-real"), ("callable", "float32-real"),
           ("callable", "float64-zeros"), ("callable", "complex-zeros")],
    False: [("operator", "none"), ("callable", "float64-zeros"), ("operator", "float64-real"), ("callable", "float64-real")],
}


def gen_lstsq_case(rng, i):
    """real / complex (i % 2) x tall / wide / square ((i // 2) % 3) x how A and the starting point are given
    ((i // 6 + i // 24) % 4): LinearOperator without x0, or a CALLABLE A with x0 -- for complex A and b also with an
    x0 of REAL dtype (float32 / float64 zeros, the usual snp.zeros(n), and non-zero real starts): the minimiser is
    over C^n whatever the dtype of the starting point."""
    cplx = i % 2 == 1
    shape = ["tall", "wide", "square"][(i // 2) % 3]
    kinds = LSTSQ_X0_KINDS[cplx]
    r = (i // 6 + i // 24) % 4
    if cplx and i // 24 >= 1 and r == 3:
        r = 3 + (i // 24) % 3                      # thorough: also float64-zeros / complex-zeros
    akind, x0kind = kinds[r % len(kinds)]
    k = rng.randint(1, 4)
    m, n = {"tall": (k + rng.randint(1, 3), k), "wide": (k, k + rng.randint(1, 3)), "square": (k, k)}[shape]
    real_entries = cplx and rng.random() < 0.15
    if cplx and not real_entries:
        A = np.array([[dy(rng, 2, -2, 2) + 1j * dy(rng, 2, -2, 2) for _ in range(n)] for _ in range(m)])
        if not np.any(A.imag):
            A[0, 0] += 1j
    else:
        A = np.array([[dy(rng, 2, -2, 2) for _ in range(n)] for _ in range(m)], dtype=complex if cplx else float)
    for j in range(min(m, n)):          # keep the rank full and the conditioning moderate
        A[j, j] += 3.0
    b = gen_vec(rng, m, cplx)
    x0 = None
    if x0kind.endswith("-real"):
        x0 = [dy(rng, 2, -2, 2) for _ in range(n)]
        if not any(x0):
            x0[0] = 1.0
    elif x0kind.endswith("-zeros"):
        x0 = [0.0] * n
    return {"m": m, "n": n, "complex": cplx, "shape": shape, "A": enc(A), "b": enc(b),
            "A_kind": akind, "x0_kind": x0kind, "x0": x0, "A_has_imag": bool(np.any(np.asarray(A).imag != 0))}


def lstsq_oracle(c):
    import jax.numpy as jnp
    from scico import solver
    from scico.linop import MatrixOperator
    cplx = c["complex"]
    A, b = dec(c["A"], cplx), dec(c["b"], cplx)
    Aj = jnp.array(A)
    x0kind = c.get("x0_kind", "none" if c["A_kind"] == "operator" else "complex-zeros")
    if x0kind == "none":
        x0 = None
    elif x0kind == "complex-zeros":
        x0 = jnp.zeros(c["n"], dtype=A.dtype)
    else:
        x0 = jnp.array(np.array(c["x0"], dtype=np.float32 if x0kind.startswith("float32") else np.float64))
    Aop = MatrixOperator(Aj) if c["A_kind"] == "operator" else (lambda v: Aj @ v)
    x = solver.lstsq(Aop, jnp.array(b), x0=x0, tol=1e-10, maxiter=500)
    xdt = np.dtype(x.dtype)
    x = np.asarray(x)
    out = []
    if cplx and c["A_has_imag"] and not np.issubdtype(xdt, np.complexfloating):
        out.append(("lstsq with complex A and b returns a real-dtype vector (minimisation restricted to R^n by the dtype "
                    "of x0)", "complex dtype", str(xdt)))
    xr = np.linalg.lstsq(A, b, rcond=None)[0]
    o, orf = float(np.linalg.norm(A @ x - b)), float(np.linalg.norm(A @ xr - b))
    nA, nb = float(np.linalg.norm(A)), float(np.linalg.norm(b))
    # normal equations with the conjugate transpose (theorem C14_lstsq_matrix_real_and_complex)
    ne = float(np.linalg.norm(A.conj().T @ (A @ x - b))) if np.all(np.isfinite(x)) else float("inf")
    if not np.all(np.isfinite(x)) or o > orf + 1e-6 * (nb + 1e-3) or ne > 1e-7 * (nA * nA * float(np.linalg.norm(x)) + nA * nb + 1e-3):
        if cplx and c["A_has_imag"] and x0kind.startswith("float"):
            what = ("lstsq with a callable complex A and a real-dtype x0 is not the minimiser of ||Ax-b|| over C^n")
        elif c["A_has_imag"]:
            what = ("lstsq on a complex A is not the minimiser of ||Ax-b|| (normal equations formed without the conjugate "
                    "transpose?)")
        else:
            what = "lstsq result is not the minimiser of ||Ax-b||"
        out.append((what, f"||Ax-b|| = {orf} (numpy.linalg.lstsq), A^H(Ax-b) = 0",
                    f"||Ax-b|| = {o}, ||A^H(Ax-b)|| = {ne}"))
    return out


def check_lstsq(ctx):
    for i in range(ctx.n(24, 72)):
        c = gen_lstsq_case(ctx.rng, i)
        ctx.count("lstsq/" + ("complex" if c["complex"] else "real") + "/" + c["shape"] + "/" + c["A_kind"]
                  + "/x0=" + c["x0_kind"], c,
                  nontrivial=c["m"] * c["n"] >= 2)
        for what, exp, ob in lstsq_oracle(c):
            ctx.violation("lstsq", what, c, expected=exp, observed=ob,
                          oracle="numpy.linalg.lstsq objective (C14_lstsq_matrix_real_and_complex)")


# ------------------------------------------------------------------ MatrixATADSolver

def gen_atad_case(rng, i):
    cplx = i % 2 == 1
    shape = ["tall", "wide", "square"][(i // 2) % 3]
    dkind = ["diag", "full"][(i // 6) % 2]
    rhs = ["vector", "matrix"][(i // 12) % 2]
    k = rng.randint(1, 4)
    rows, cols = {"tall": (k + rng.randint(1, 2), k), "wide": (k, k + rng.randint(1, 2)), "square": (k, k)}[shape]
    if cplx:
        A = np.array([[dy(rng, 2, -2, 2) + 1j * dy(rng, 2, -2, 2) for _ in range(cols)] for _ in range(rows)])
    else:
        A = np.array([[dy(rng, 2, -2, 2) for _ in range(cols)] for _ in range(rows)])
    if dkind == "diag":
        D = np.array([rng.choice([0.5, 1.0, 2.0, 3.0]) for _ in range(cols)]).astype(A.dtype)
    else:
        D = gen_hpd(rng, cols, cplx)
    W = None if rng.random() < 0.4 else np.array([rng.choice([0.5, 1.0, 2.0, 4.0]) for _ in range(rows)]).astype(A.dtype)
    b = gen_vec(rng, cols, cplx) if rhs == "vector" else \
        np.stack([gen_vec(rng, cols, cplx) for _ in range(rng.randint(1, 3))], axis=1)
    pert = gen_vec(rng, cols, cplx, den=2, lo=-1, hi=1)
    return {"complex": cplx, "shape": shape, "D_kind": dkind, "rhs": rhs, "rows": rows, "cols": cols, "A": enc(A),
            "D": enc(D), "W": None if W is None else enc(W), "b": enc(b), "pert": enc(pert),
            # constructor flags: every (shape, D, rhs) combination occurs twice per 24 cases (real / complex); one of the
            # two uses cho_factor=True with lower=True, the other alternates cho_factor=True/lower=False and LU;
            # the roles rotate with the cycle i // 24; check_finite both ways
            **atad_flags(i),
            "D_obj": rng.choice(["array", "operator"])}


def atad_flags(i):
    if (i % 2 + i // 2 + i // 24) % 2 == 0:
        cho, lower = True, True
    elif (i // 4 + i // 24) % 2 == 0:
        cho, lower = True, False
    else:
        cho, lower = False, bool(i % 3 == 0)      # lower is ignored by the LU branch
    return {"cho": cho, "lower": lower, "check_finite": i % 5 != 0}


def atad_oracle(c):
    import jax.numpy as jnp
    from scico import solver
    from scico.linop import Diagonal, MatrixOperator
    cplx = c["complex"]
    A, D, b = dec(c["A"], cplx), dec(c["D"], cplx), dec(c["b"], cplx)
    W = None if c["W"] is None else dec(c["W"], cplx)
    Dj = jnp.array(D)
    if c["D_obj"] == "operator":
        Dj = Diagonal(Dj) if D.ndim == 1 else MatrixOperator(Dj)
    slv = solver.MatrixATADSolver(jnp.array(A), Dj, W=None if W is None else jnp.array(W), cho_factor=c["cho"],
                                  lower=c.get("lower", False), check_finite=c.get("check_finite", True))
    x = np.asarray(slv.solve(jnp.array(b), check_finite=None if c.get("check_finite", True) else False))
    Wm = np.eye(A.shape[0]) if W is None else np.diag(W)
    G = A.conj().T @ Wm @ A + (np.diag(D) if D.ndim == 1 else D)
    out = []
    nres = float(np.linalg.norm(G @ x - b))
    scale = float(np.linalg.norm(G) * np.linalg.norm(x) + np.linalg.norm(b))
    path = "Woodbury" if (A.shape[0] < A.shape[1] and D.ndim == 1) else "direct"
    if not np.all(np.isfinite(x)) or nres > 1e-9 * scale + 1e-12:
        fac = f"cho_factor=True, lower={c.get('lower', False)}" if c["cho"] else "LU"
        out.append((f"MatrixATADSolver.solve ({path} path, {fac}) does not solve (A^H W A + D) x = b",
                    "residual <= 1e-9 scale", nres))

    def true_rr(xx):
        ax = G @ xx
        nrm = max(float(np.linalg.norm(ax)), float(np.linalg.norm(b)))
        return 0.0 if nrm == 0 else float(np.linalg.norm(b - ax)) / nrm
    pert = dec(c["pert"], cplx)
    xp = x + (pert if b.ndim == 1 else pert[:, None])
    for tag, xx in (("solution", x), ("perturbed", xp)):
        try:
            acc = float(slv.accuracy(jnp.array(xx), jnp.array(b)))
            ok = abs(acc - true_rr(xx)) <= 1e-8 * (1 + true_rr(xx))
            obs = acc
        except Exception as e:               # noqa: BLE001
            ok, obs = False, f"exception {type(e).__name__}"
        if not ok:
            what = ("MatrixATADSolver.accuracy with a full (2-D) D is not the true relative residual of (A^H W A + D) x = b"
                    if D.ndim == 2 else "MatrixATADSolver.accuracy is not the true relative residual")
            out.append((what, true_rr(xx), obs))
            break
    return out


def check_atad(ctx):
    for i in range(ctx.n(24, 72)):
        c = gen_atad_case(ctx.rng, i)
        ctx.count(f"MatrixATADSolver/{'complex' if c['complex'] else 'real'}/{c['shape']}/D={c['D_kind']}/{c['rhs']}/"
                  + (f"cho-{'lower' if c['lower'] else 'upper'}" if c["cho"] else "lu"),
                  c, nontrivial=c["rows"] * c["cols"] >= 2)
        for what, exp, ob in atad_oracle(c):
            ctx.violation("MatrixATADSolver", what, c, expected=exp, observed=ob,
                          oracle="numpy: system assembled independently (C14_matrixATAD_*_all_flags, C14_matrixATAD_accuracy)")


# ------------------------------------------------------------------ ConvATADSolver

def circ(h, n):
    """dense matrix of 1-D circular convolution with kernel h (origin at index 0)"""
    C = np.zeros((n, n), dtype=np.asarray(h).dtype)
    for i in range(n):
        for j, hj in enumerate(h):
            C[(i + j) % n, i] += hj
    return C


def gen_conv_case(rng, i):
    cplx = i % 3 == 2
    K, n, p = rng.randint(1, 3), rng.randint(2, 6), rng.randint(1, 2)
    p = min(p, n)
    if cplx:
        h = [[dy(rng, 2, -1, 1) + 1j * dy(rng, 2, -1, 1) for _ in range(p)] for _ in range(K)]
    else:
        h = [[dy(rng, 2, -2, 2) for _ in range(p)] for _ in range(K)]
    dshared = rng.random() < 0.5
    dK = 1 if dshared else K
    d = [[rng.choice([2.0, 3.0, 4.0]), dy(rng, 2, -1, 1)] for _ in range(dK)]
    b = np.stack([gen_vec(rng, n, cplx) for _ in range(K)])
    pert = np.stack([gen_vec(rng, n, cplx, den=2, lo=-1, hi=1) for _ in range(K)])
    return {"complex": cplx, "K": K, "n": n, "h": enc(np.array(h)), "d": d, "b": enc(b), "pert": enc(pert)}


def conv_oracle(c):
    import jax.numpy as jnp
    from scico import solver
    from scico.linop import CircularConvolve, Sum
    cplx = c["complex"]
    K, n = c["K"], c["n"]
    dt = np.complex128 if cplx else np.float64
    h = dec(c["h"], cplx).astype(dt)
    d = np.array(c["d"]).astype(dt)
    b = dec(c["b"], cplx).astype(dt)
    C = CircularConvolve(h=jnp.array(h), input_shape=(K, n), input_dtype=dt, ndims=1)
    A = Sum(input_shape=(K, n), input_dtype=dt, axis=0) @ C
    Dop = CircularConvolve(h=jnp.array(d), input_shape=(K, n), input_dtype=dt, ndims=1)
    slv = solver.ConvATADSolver(A, Dop)
    x = np.asarray(slv.solve(jnp.array(b)))
    Am = np.hstack([circ(h[k], n) for k in range(K)])
    Dm = np.zeros((K * n, K * n), dtype=dt)
    for k in range(K):
        Dm[k * n:(k + 1) * n, k * n:(k + 1) * n] = circ(d[k if d.shape[0] > 1 else 0], n)
    out = []
    xv = np.asarray(A(jnp.array(b)))
    if np.linalg.norm(xv - Am @ b.ravel()) > 1e-9 * (1 + np.linalg.norm(xv)):
        raise Broken("harness: numpy circulant model of Sum @ CircularConvolve disagrees with scico")
    G = Am.conj().T @ Am + Dm
    nres = float(np.linalg.norm(G @ x.ravel() - b.ravel()))
    scale = float(np.linalg.norm(G) * np.linalg.norm(x) + np.linalg.norm(b))
    if not np.all(np.isfinite(x)) or nres > 1e-9 * scale + 1e-12:
        out.append(("ConvATADSolver.solve does not solve (A^H A + D) x = b", "residual <= 1e-9 scale", nres))

    def true_rr(xx):
        ax = G @ xx.ravel()
        nrm = max(float(np.linalg.norm(ax)), float(np.linalg.norm(b)))
        return 0.0 if nrm == 0 else float(np.linalg.norm(b.ravel() - ax)) / nrm
    xp = x + dec(c["pert"], cplx)
    for xx in (x, xp):
        acc = float(slv.accuracy(jnp.array(xx.astype(dt)), jnp.array(b)))
        if abs(acc - true_rr(xx)) > 1e-8 * (1 + true_rr(xx)):
            out.append(("ConvATADSolver.accuracy is not the true relative residual", true_rr(xx), acc))
            break
    return out


def check_conv(ctx):
    for i in range(ctx.n(9, 27)):
        c = gen_conv_case(ctx.rng, i)
        ctx.count("ConvATADSolver/" + ("complex" if c["complex"] else "real") + f"/K={c['K']}", c)
        for what, exp, ob in conv_oracle(c):
            ctx.violation("ConvATADSolver", what, c, expected=exp, observed=ob,
                          oracle="numpy: dense circulant system (C14_convATAD_solves)")


# ------------------------------------------------------------------ bisect

BISECT_SCALAR_DESIGNS = [("a", 1), ("b", -1), ("a", -1), ("b", 1), ("mid", 1), ("mid", -1)]
BISECT_PLACEMENTS = ["a", "b", "mid", "fine", "b", "a", "quarter"]


def place_root(rng, a, b, where):
    """root exactly on an end point / hit exactly by the first (second) midpoint / never hit"""
    if where == "a":
        return a
    if where == "b":
        return b
    if where == "mid":
        return (a + b) / 2
    if where == "quarter":
        return a + (b - a) * rng.choice([1, 3]) / 4
    return a + (b - a) * rng.randint(1, 2 ** 20 - 1) / 2 ** 20


def gen_bisect_case(rng, i):
    """i % 3 == 2: designed boundary cases -- the root of an element lies EXACTLY on an end point of its bracket
    (f(a) == 0 or f(b) == 0 in floating point), for increasing and decreasing f, as a scalar call and mixed with
    interior roots inside one vectorised call; also roots hit exactly by the first midpoint."""
    designed = (i % 3 == 2)
    j = i // 3
    kind = "lin" if i % 2 == 0 else "quad"
    els = []
    if designed:
        scalar = (j % 3 == 0)
        L = 1 if scalar else rng.randint(2, 5)
        for k in range(L):
            a = dy(rng, 8, -4, 3)
            b = a + rng.choice([0.25, 0.5, 1.0, 2.0, 4.0])
            if scalar:
                where, sg = BISECT_SCALAR_DESIGNS[(j // 3) % len(BISECT_SCALAR_DESIGNS)]
            else:
                where = BISECT_PLACEMENTS[(j + k) % len(BISECT_PLACEMENTS)]
                sg = 1 if (j + k // 2) % 2 == 0 else -1
            r = place_root(rng, a, b, where)
            if kind == "lin":
                els.append({"kind": "lin", "s": sg * 2.0 ** rng.randint(-2, 2), "r": r, "a": a, "b": b, "where": where})
            else:
                r2 = b + rng.choice([0.5, 1.0, 2.0]) if rng.random() < 0.5 else a - rng.choice([0.5, 1.0, 2.0])
                els.append({"kind": "quad", "s": float(sg), "r": r, "r2": r2, "a": a, "b": b, "where": where})
        maxiter = rng.choice([2, 5, 12, 25])
    else:
        for _ in range(rng.randint(1, 5)):
            a = dy(rng, 8, -4, 3)
            b = a + rng.choice([0.25, 0.5, 1.0, 2.0, 3.0])
            if rng.random() < 0.5:                    # coarse root: hit exactly by a midpoint (or an end point)
                r = a + (b - a) * rng.randint(0, 8) / 8
            else:                                     # fine root: never hit
                r = a + (b - a) * rng.randint(1, 2 ** 20 - 1) / 2 ** 20
            where = "a" if r == a else ("b" if r == b else "interior")
            if kind == "lin":
                s_ = rng.choice([-1, 1]) * 2.0 ** rng.randint(-2, 2)
                els.append({"kind": "lin", "s": s_, "r": r, "a": a, "b": b, "where": where})
            else:
                r2 = b + rng.choice([0.5, 1.0, 2.0]) if rng.random() < 0.5 else a - rng.choice([0.5, 1.0, 2.0])
                els.append({"kind": "quad", "s": float(rng.choice([-1, 1])), "r": r, "r2": r2, "a": a, "b": b,
                            "where": where})
        maxiter = rng.choice([1, 2, 5, 12, 25, 40])
    xt = 2.0 ** -rng.randint(4, 30)
    ft = 2.0 ** -rng.randint(2, 28) if kind == "lin" else 1e9
    return {"kind": kind, "els": els, "xtol": xt, "ftol": ft, "maxiter": maxiter, "designed": designed}


def bisect_fn(c):
    import jax.numpy as jnp
    s = jnp.array([e["s"] for e in c["els"]])
    r = jnp.array([e["r"] for e in c["els"]])
    if c["kind"] == "lin":
        return lambda x: s * (x - r)
    r2 = jnp.array([e["r2"] for e in c["els"]])
    return lambda x: s * ((x - r) * (x - r2))


def run_bisect(c):
    import jax.numpy as jnp
    from scico import solver
    a = jnp.array([e["a"] for e in c["els"]])
    b = jnp.array([e["b"] for e in c["els"]])
    x, info = solver.bisect(bisect_fn(c), a, b, xtol=c["xtol"], ftol=c["ftol"], maxiter=c["maxiter"], full_output=True)
    return np.asarray(x), np.asarray(info["a"]), np.asarray(info["b"]), int(info["iter"]) + 1


def bisect_oracle(c, x, passes):
    out = []
    for j, e in enumerate(c["els"]):
        if not (e["a"] <= x[j] <= e["b"]):
            out.append(("bisect returns a point outside the initial bracket", [e["a"], e["b"]], float(x[j])))
        if e["r"] in (e["a"], e["b"]):
            # theorem C14_bisect_endpoint_root: an end point with f = 0 is never moved; the result is that exact root
            if x[j] != e["r"]:
                out.append(("bisect with a root exactly on an end point of the initial bracket does not return that root "
                            "(the bracket lost its root end point)", e["r"], float(x[j])))
            continue
        bound = (e["b"] - e["a"]) / 2.0 ** passes
        if passes < c["maxiter"]:
            bound = min(bound, c["xtol"])
        if abs(x[j] - e["r"]) > bound * (1 + 1e-9):
            out.append(("bisect result is not within the final bracket length of the root", f"|x - {e['r']}| <= {bound}", float(x[j])))
    return out


def coq_fdesc(e):
    if e["kind"] == "lin":
        return f"(FLin {qlit(e['s'])} {qlit(e['r'])})"
    if e["kind"] == "quad":
        return f"(FQuad {qlit(e['s'])} {qlit(e['r'])} {qlit(e['r2'])})"
    if e["kind"] == "sq":
        return f"(FSq {qlit(e['s'])} {qlit(e['m'])} {qlit(e['t'])})"
    return f"(FAbs {qlit(e['s'])} {qlit(e['m'])})"


def check_bisect(ctx):
    items, meta = [], []
    for i in range(ctx.n(24, 80)):
        c = gen_bisect_case(ctx.rng, i)
        x, az, bz, passes = run_bisect(c)
        ctx.count("bisect/" + c["kind"] + ("/endpoint-or-midpoint-root" if c["designed"] else ""), c,
                  nontrivial=len(c["els"]) >= 2 or c["designed"])
        for what, exp, ob in bisect_oracle(c, x, passes):
            ctx.violation("bisect", what, c, expected=exp, observed=ob, oracle="root of the exact function (C14_bisect_elementwise, C14_bisect_endpoint_root)")
        els = coq_list([f"({coq_fdesc(e)}, {qlit(e['a'])}, {qlit(e['b'])})" for e in c["els"]])
        items.append(f"({els}, {c['maxiter']}%nat, {qlit(c['xtol'])}, {qlit(c['ftol'])}, "
                     f"({coq_list([qlit(v) for v in x])}, {coq_list([qlit(v) for v in az])}, "
                     f"{coq_list([qlit(v) for v in bz])}, {passes}%nat))")
        meta.append((c, [x.tolist(), az.tolist(), bz.tolist(), passes]))
    bad, frag = eval_bad_fragile("C14_bisect", HEADER, items, "b_case_ok", "b_case_fragile", "bcase", shard=ctx.n(6, 40))
    ctx.dist["bisect-model-fragile-skipped"] = len(frag)
    ctx.traces += len(items) - len(frag)
    for i in sorted(bad - frag):
        c, o = meta[i]
        ctx.violation("bisect-model", "scico.solver.bisect differs from the proved loop model (a, b, x, iterations)", c,
                      expected="Bisect.bis_loop at Qc by vm_compute", observed=o, oracle="C14_bisect_vectorised_loop")


# ------------------------------------------------------------------ golden

GR = 2 / (math.sqrt(5) + 1)


def gen_golden_case(rng, i):
    kind = "sq" if i % 2 == 0 else "abs"
    L = rng.randint(1, 5)
    els = []
    userc = (i % 5 == 3)
    for _ in range(L):
        a = dy(rng, 8, -4, 3)
        b = a + rng.choice([0.5, 1.0, 2.0, 3.0])
        m = a + (b - a) * rng.randint(1, 255) / 256
        if m == (a + b) / 2:
            m = a + (b - a) * 129 / 256
        if (i % 6 == 5 or i % 8 == 6) and not userc:   # boundary: minimiser exactly on an end point of the bracket
            m = [a, b][(i // 6 + len(els)) % 2]
        e = {"kind": kind, "s": 2.0 ** rng.randint(-2, 2), "m": m, "a": a, "b": b, "c": None}
        if kind == "sq":
            e["t"] = dy(rng, 4, -2, 2)
        if userc:
            d = a + GR * (b - a)
            if rng.random() < 0.5:
                e["c"] = a + (b - a) * rng.randint(8, 140) / 256          # a < c < d  (d = a + 0.618 (b-a))
            else:
                e["c"] = a + (b - a) * rng.randint(176, 250) / 256        # d < c < b
            e["c_above_d"] = bool(e["c"] > d)
        els.append(e)
    if userc and any(e["c"] is None for e in els):
        userc = False
    return {"kind": kind, "els": els, "xtol": rng.choice([0.3, 0.1, 0.03, 1e-2]) * (1 + rng.randint(0, 7) / 8),
            "maxiter": rng.choice([1, 3, 6, 10]), "user_c": userc,
            "c_above_d": bool(userc and any(e.get("c_above_d") for e in els))}


def golden_fn(c):
    import jax.numpy as jnp
    s = jnp.array([e["s"] for e in c["els"]])
    m = jnp.array([e["m"] for e in c["els"]])
    if c["kind"] == "sq":
        t = jnp.array([e["t"] for e in c["els"]])
        return lambda x: s * ((x - m) * (x - m)) + t
    return lambda x: s * jnp.abs(x - m)


def run_golden(c):
    import jax.numpy as jnp
    from scico import solver
    a = jnp.array([e["a"] for e in c["els"]])
    b = jnp.array([e["b"] for e in c["els"]])
    cc = jnp.array([e["c"] for e in c["els"]]) if c["user_c"] else None
    x, info = solver.golden(golden_fn(c), a, b, c=cc, xtol=c["xtol"], maxiter=c["maxiter"], full_output=True)
    return np.asarray(x), float(info["xerr"]), int(info["iter"]) + 1


def golden_oracle(c, x, passes):
    out = []
    for j, e in enumerate(c["els"]):
        if not (e["a"] <= x[j] <= e["b"]):
            out.append(("golden returns a point outside the initial bracket", [e["a"], e["b"]], float(x[j])))
        if passes < c["maxiter"] and abs(x[j] - e["m"]) > c["xtol"] * (1 + 1e-6) + 1e-12:
            what = ("golden with a user-supplied c above a + gr (b - a) loses the minimiser of a unimodal function"
                    if e.get("c_above_d") else "golden stopped on xtol but the result is not within xtol of the minimiser")
            out.append((what, f"|x - {e['m']}| <= {c['xtol']}", float(x[j])))
    return out


def check_golden(ctx):
    items, meta = [], []
    for i in range(ctx.n(24, 80)):
        c = gen_golden_case(ctx.rng, i)
        x, xerr, passes = run_golden(c)
        ctx.count("golden/" + c["kind"] + ("/user-c" if c["user_c"] else "")
                  + ("/endpoint-minimiser" if any(e["m"] in (e["a"], e["b"]) for e in c["els"]) else ""), c,
                  nontrivial=len(c["els"]) >= 2)
        for what, exp, ob in golden_oracle(c, x, passes):
            ctx.violation("golden", what, c, expected=exp, observed=ob,
                          oracle="minimiser of the exact unimodal function (C14_golden_elementwise)")
        els = coq_list([f"({coq_fdesc(e)}, {qlit(e['a'])}, {qlit(e['b'])}, "
                        + ("None" if not c["user_c"] else f"(Some {qlit(e['c'])})") + ")" for e in c["els"]])
        items.append(f"({qlit(GR)}, {els}, {c['maxiter']}%nat, {qlit(c['xtol'])}, "
                     f"({coq_list([qlit(v) for v in x])}, {qlit(xerr)}, {passes}%nat))")
        meta.append((c, [x.tolist(), xerr, passes]))
    bad, frag = eval_bad_fragile("C14_golden", HEADER, items, "g_case_ok", "g_case_fragile", "gcase", shard=ctx.n(6, 40))
    ctx.dist["golden-model-fragile-skipped"] = len(frag)
    ctx.traces += len(items) - len(frag)
    for i in sorted(bad - frag):
        c, o = meta[i]
        ctx.violation("golden-model", "scico.solver.golden differs from the proved loop model (x, xerr, iterations)", c,
                      expected="Golden.golden at Qc by vm_compute", observed=o, oracle="C14_golden_vectorised_loop")


# ------------------------------------------------------------------ run / replay

def check_findings(ctx):
    """Findings/C14_*.v: refuted full statements.  A file that stops compiling means the finding no
    longer reproduces in the model (reported as a note, never as a violation -- DESIGN 2.5)."""
    for f in FINDINGS:
        p = COQ / "Findings" / (f + ".v")
        try:
            coqc_file(p, timeout=300)
            ctx.obligation(True, f"Findings/{f}.v (refuted full statement) compiles")
        except Broken as b:
            ctx.notes.append(f"finding no longer reproduces: Findings/{f}.v ({b.what})")


def run(ctx: Ctx):
    if not getattr(ctx, "no_proofs", False):
        ctx.proofs()
        check_findings(ctx)
    # the executable instances the case files import are not in the closure of Properties/C14.vo
    coq_make(["theories/C14/CGExec.vo", "theories/C14/ScalarExec.vo"])
    ctx.trusted += [
        "transcription of the loops of scico.solver.cg / bisect / golden and flax.inverse.cg_solver into "
        "coq/theories/C14/{CG,Bisect,Golden}.v (validated state by state by the correspondence harness, not proved)",
        "Section variables (assumed contracts): jsl.lu_factor/lu_solve, cho_factor/cho_solve invert the factorised "
        "matrix (fact_solve), jnp.fft diagonalises circular convolution, jax.scipy.sparse.linalg.cg (oracle only), "
        "snp.linalg.norm / sqrt; IEEE rounding is not modelled (0/0 modelled as 'nan' in the scan model only)",
        "numpy.linalg (norm, lstsq, dense products) as reference for the property oracles",
    ]
    ctx.assumptions += [
        "exact arithmetic in the model; implementation compared within 2^-30 relative where a division occurs, "
        "exactly otherwise; comparisons num > tol^2 whose sides agree to 2^-20 are skipped as rounding-decided",
        "A Hermitian positive definite and well conditioned (cond <= ~150) in the generated systems; tol, atol >= 0",
        "b = 0: info['rel_res'] is 0/0 = nan in the implementation; the property is only demanded of x and num_iter there",
    ]
    import time
    for fn in (check_cg, check_jaxcg, check_scan, check_lstsq, check_atad, check_conv, check_bisect, check_golden):
        t0 = time.time()
        fn(ctx)
        ctx.notes.append(f"{fn.__name__}: {time.time() - t0:.1f} s")


def replay(ctx: Ctx, rec):
    unit, c = rec["unit"], rec["input"]
    if unit == "cg":
        k = c["maxiter"]
        x, it, rr = run_cg_impl(c, k)
        ok = not cg_oracle(c, k, x, it, rr)
        if k >= 1:
            ok = ok and not cg_late_oracle(c, [(k - 1, *run_cg_impl(c, k - 1)), (k, x, it, rr)])
        return ok
    if unit == "cg-model":
        obs = [(k, *run_cg_impl(c, k)) for k in c["maxiters"]]
        okf, fragf = ("c_case_ok", "c_case_fragile") if c["complex"] else ("r_case_ok", "r_case_fragile")
        bad, frag = eval_bad_fragile("C14_replay", HEADER, [coq_cg_case(c, obs)], okf, fragf, "ccase" if c["complex"] else "rcase")
        return not (bad - frag)
    if unit == "jax_cg":
        return not jaxcg_oracle(c)
    if unit == "LinearSubproblemSolver":
        return not admm_cg_oracle(c)
    if unit == "cg_solver":
        return not scan_oracle(c, c["maxiter"], run_scan_impl(c, c["maxiter"]))
    if unit == "cg_solver-model":
        obs = [(k, x) for k, x, _ in scan_observe(c)]
        cplx = c.get("complex", False)
        okf, ct = ("c_scan_case_ok", "cscase") if cplx else ("r_scan_case_ok", "scase")
        bad, _ = eval_bad_fragile("C14_replay", HEADER, [coq_scan_item(c, obs)], okf, f"(fun _ : {ct} => false)", ct)
        return not bad
    if unit == "lstsq":
        return not lstsq_oracle(c)
    if unit == "MatrixATADSolver":
        return not atad_oracle(c)
    if unit == "ConvATADSolver":
        return not conv_oracle(c)
    if unit == "bisect":
        x, az, bz, passes = run_bisect(c)
        return not bisect_oracle(c, x, passes)
    if unit == "golden":
        x, xerr, passes = run_golden(c)
        return not golden_oracle(c, x, passes)
    if unit in ("bisect-model", "golden-model"):
        raise SystemExit("re-run ./check C14: model correspondences are replayed by the full check")
    raise SystemExit("unknown unit")
