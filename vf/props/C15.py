"""C15 -- solver driver, statistics, callbacks, resumption, NaN stop, timer.

Theorems: coq/Properties/C15.v (models coq/theories/Opt/{Timer,Driver}.v).
Correspondence: (a) random Timer call histories under a fake clock, (b) scripted optimiser
driven through the real Optimizer.solve, (c) _working_vars_finite of every optimiser class
with plain and block working variables holding nan/inf at a chosen position.
"""
from __future__ import annotations

import json

import numpy as np

from vf.common import Ctx, Broken, coq_eval_shards, parse_eval_nat_list, qlit, zlit, coq_list

HEADER = """From Coq Require Import List Bool ZArith QArith Qcanon.
From SV Require Import Opt.Timer Opt.Driver Opt.DriverExec.
Import ListNotations.
Open Scope Z_scope.
"""

LABELS = ["main", "all", "L2", "L3", "L4"]


# ---------------------------------------------------------------- timer

def gen_timer_case(rng, maxlen):
    n = rng.randint(1, maxlen)
    ops = []
    t = 0.0
    init = []
    r = rng.random()
    if r < 0.2:
        init = [rng.choice([0, 2, 3])]
    elif r < 0.3:
        init = rng.sample([0, 2, 3, 4], 2)

    def sel():
        r = rng.random()
        if r < 0.35:
            return ["none"]
        if r < 0.8:
            return ["one", rng.choice([0, 0, 1, 1, 2, 2, 3, 4])]
        return ["list", [rng.choice([0, 1, 2, 3, 4]) for _ in range(rng.randint(0, 3))]]
    for _ in range(n):
        t += rng.randint(0, 16) / 8.0
        k = rng.random()
        if k < 0.3:
            ops.append(["start", sel(), t])
        elif k < 0.55:
            ops.append(["stop", sel(), t])
        elif k < 0.65:
            ops.append(["reset", sel(), t])
        elif k < 0.95:
            lab = None if rng.random() < 0.4 else rng.choice([0, 1, 2, 3, 4])
            ops.append(["elapsed", lab, rng.random() < 0.7, t])
        else:
            ops.append(["labels", t])
    return {"init": init, "ops": ops}


def run_timer_impl(case):
    import scico.util as su
    clock = {"t": 0.0}
    orig = su.timer
    su.timer = lambda: clock["t"]
    outs = []
    try:
        init = [LABELS[i] for i in case["init"]]
        tm = su.Timer(labels=(init[0] if len(init) == 1 else init) if init else None)

        def arg(s):
            if s[0] == "none":
                return None
            if s[0] == "one":
                return LABELS[s[1]]
            return [LABELS[i] for i in s[1]]
        for o in case["ops"]:
            clock["t"] = o[-1]
            try:
                if o[0] == "start":
                    r = tm.start(arg(o[1])); outs.append([0, 0.0, []])
                elif o[0] == "stop":
                    r = tm.stop(arg(o[1])); outs.append([0, 0.0, []])
                elif o[0] == "reset":
                    r = tm.reset(arg(o[1])); outs.append([0, 0.0, []])
                elif o[0] == "elapsed":
                    v = tm.elapsed(None if o[1] is None else LABELS[o[1]], total=o[2])
                    outs.append([2, float(v), []])
                else:
                    outs.append([3, 0.0, [LABELS.index(l) for l in tm.labels()]])
            except KeyError:
                outs.append([1, 0.0, []])
    finally:
        su.timer = orig
    return outs


def coq_sel(s):
    if s[0] == "none":
        return "(SelNone)"
    if s[0] == "one":
        return f"(SelOne {s[1]}%nat)"
    return "(SelList " + coq_list([f"{i}%nat" for i in s[1]]) + ")"


def qc(x):
    return f"(Q2Qc {qlit(x)})"


def coq_timer_case(case, outs):
    ops = []
    for o in case["ops"]:
        if o[0] == "start":
            ops.append(f"(Start {coq_sel(o[1])}, {qc(o[2])})")
        elif o[0] == "stop":
            ops.append(f"(Stop {coq_sel(o[1])}, {qc(o[2])})")
        elif o[0] == "reset":
            ops.append(f"(Reset {coq_sel(o[1])}, {qc(o[2])})")
        elif o[0] == "elapsed":
            lab = "None" if o[1] is None else f"(Some {o[1]}%nat)"
            ops.append(f"(Elapsed {lab} {'true' if o[2] else 'false'}, {qc(o[3])})")
        else:
            ops.append(f"(Labels, {qc(o[1])})")
    # constructor labels = a Start-free prefix: model them as entries created by start+reset
    pre = []
    for i in case["init"]:
        pre.append(f"(Start (SelOne {i}%nat), {qc(0)})")
        pre.append(f"(Reset (SelList [{i}%nat]), {qc(0)})")
    exp = [f"({zlit(c)}, {qlit(v)}, {coq_list([f'{i}%nat' for i in l])})" for c, v, l in outs]
    pre_exp = ["(0, 0%Q, [])"] * len(pre)
    return f"({coq_list(pre + ops)}, {coq_list(pre_exp + exp)})"


# ---------------------------------------------------------------- driver

def gen_drv_case(rng):
    ncalls = rng.randint(1, 4)
    calls = []
    for _ in range(ncalls):
        calls.append([rng.random() < 0.4, rng.random() < 0.5, rng.choice([0, 0, 1, 1, 2, 3, 5, -1])])
    it0 = rng.choice([0, 0, 1, 7, 100])
    w0 = rng.randint(0, 3)
    bad = sorted(set(w0 + rng.randint(1, 12) for _ in range(rng.randint(0, 2))))
    cbinc = rng.choice([0, 1, 10])
    return {"bad": bad, "cbinc": cbinc, "it0": it0, "w0": w0, "calls": calls}


def run_drv_impl(case):
    import scico.util as su
    from scico.optimize._common import Optimizer
    nread = 4 + sum(3 * max(c[2], 0) + 3 for c in case["calls"])
    clkl, t = [], 0.0
    import random
    r = random.Random(json.dumps(case, sort_keys=True))
    for _ in range(nread):
        t += r.randint(1, 16) / 8.0
        clkl.append(t)
    it = iter(clkl)
    orig = su.timer
    su.timer = lambda: next(it)
    events = []

    class Fake(Optimizer):
        def __init__(s, **kw):
            s.w = case["w0"]
            super().__init__(**kw)

        def step(s):
            s.w += 1
            events.append([0, s.itnum])

        def _working_vars_finite(s):
            return s.w not in case["bad"]

        def _itstat_extra_fields(s):
            return {"W": "%d"}, ["w"]

        def minimizer(s):
            return s.w

    def cb(o):
        events.append([2, o.itnum])
        o.w += case["cbinc"]
    raised = []
    try:
        o = Fake(iter0=case["it0"], maxiter=1)
        ins = o.itstat_object.insert

        def insert(vals):
            events.append([1, vals[0]])
            ins(vals)
        o.itstat_object.insert = insert
        for ns, uc, mi in case["calls"]:
            o.maxiter, o.nanstop = mi, ns
            try:
                o.solve(callback=cb if uc else None)
                raised.append(False)
            except ValueError:
                raised.append(True)
        rows = [[int(r_[0]), float(r_[1]), int(r_[2])] for r_ in o.itstat_object.history()]
        obs = {"itnum": int(o.itnum), "w": int(o.w), "rows": rows, "events": events, "raised": raised}
    finally:
        su.timer = orig
    return clkl, obs


def coq_drv_case(case, clkl, obs):
    calls = coq_list([f"({str(a).lower()}, {str(b).lower()}, {zlit(c)})" for a, b, c in case["calls"]])
    inp = (f"({coq_list([zlit(b) for b in case['bad']])}, {zlit(case['cbinc'])}, "
           f"{coq_list([qc(x) for x in clkl])}, {zlit(case['it0'])}, {zlit(case['w0'])}, {calls})")
    rows = coq_list([f"({zlit(a)}, {qlit(b)}, {zlit(c)})" for a, b, c in obs["rows"]])
    evs = coq_list([f"({zlit(a)}, {zlit(b)})" for a, b in obs["events"]])
    out = (f"({zlit(obs['itnum'])}, {zlit(obs['w'])}, {rows}, {evs}, "
           f"{coq_list([str(x).lower() for x in obs['raised']])})")
    return f"({inp}, {out})"


DRV_OK_CORE = """
Definition drv_case_ok_core c (bump0 : bool) : bool :=
  let '(bad, cbinc, clkl, it0, w0, calls) := fst c in
  let d0 := mkd Qc Z Z w0 it0 [] (None, 0%Qc) 0%nat [] in
  let '(itn, w, rows, evs, rs) := drv_obs (run_solves bump0 bad cbinc clkl calls d0) in
  let '(itn', w', rows', evs', rs') := snd c in
  Z.eqb itn itn' && Z.eqb w w' && list_eqb row_eqb rows rows'
  && list_eqb zz_eqb (filter (fun e => Z.ltb (fst e) 3) evs) evs'
  && list_eqb Bool.eqb rs rs'.
"""


# ---------------------------------------------------------------- _working_vars_finite

# the current-iterate variables each step() computes (the previous-iterate copies z_old, u_old,
# x_old only ever hold values that were current -- and checked -- one iteration earlier)
WORKING_VARS = {"ADMM": ["x", "z_list[0]", "u_list[0]"], "LADMM": ["x", "z", "u"],
                "PADMM": ["x", "z", "u"], "NLPADMM": ["x", "z", "u"],
                "PDHG": ["x", "z"], "PGM": ["x"], "APGM": ["x", "v"]}


def finite_cases(ctx):
    """Every optimiser class, plain and block working variables, one non-finite entry (or
    none) at a chosen variable/position."""
    import jax
    import scico.numpy as snp
    from scico import functional, linop, loss
    from scico.optimize import ADMM, LinearizedADMM, PDHG, PGM, AcceleratedPGM, ProximalADMM, NonLinearPADMM
    from scico.optimize.admm import LinearSubproblemSolver
    res = []
    N = 3

    def mk(kind, block):
        if block:
            shp = ((N,), (2,))
            x0 = snp.blockarray([np.ones(N), np.ones(2)])
            I = linop.Identity(shp)
        else:
            shp = (N,)
            x0 = snp.ones(shp)
            I = linop.Identity(shp)
        y = x0
        f = loss.SquaredL2Loss(y=y, A=I)
        g = functional.SquaredL2Norm() if block else functional.L1Norm()
        if kind == "ADMM":
            return ADMM(f=f, g_list=[g], C_list=[I], rho_list=[1.0], x0=x0, maxiter=1,
                        subproblem_solver=LinearSubproblemSolver())
        if kind == "LADMM":
            return LinearizedADMM(f=g, g=g, C=I, mu=0.5, nu=1.0, x0=x0, maxiter=1)
        if kind == "PADMM":
            return ProximalADMM(f=g, g=g, A=I, rho=1.0, mu=2.0, nu=2.0, x0=x0, maxiter=1)
        if kind == "NLPADMM":
            from scico.function import Function
            H = Function((shp, shp), output_shape=shp, eval_fn=lambda x, z: x - z) if not block else None
            if H is None:
                return None
            return NonLinearPADMM(f=g, g=g, H=H, rho=1.0, mu=2.0, nu=2.0, x0=x0, z0=x0, u0=x0, maxiter=1)
        if kind == "PDHG":
            return PDHG(f=f, g=g, C=I, tau=0.5, sigma=0.5, x0=x0, maxiter=1)
        if kind == "PGM":
            return PGM(f=f, g=g, L0=2.0, x0=x0, maxiter=1)
        if kind == "APGM":
            return AcceleratedPGM(f=f, g=g, L0=2.0, x0=x0, maxiter=1)

    varnames = WORKING_VARS
    for kind, names in varnames.items():
        for block in (False, True):
            for vi, vn in enumerate(names + [None]):
                for val in (np.nan, np.inf, -np.inf):
                    for blk in ((0, 1) if block else (0,)):
                        if vn is None and (val is not np.nan or blk):
                            continue
                        res.append((kind, block, vn, val, blk))
    ctx.rng.shuffle(res)
    return mk, res


def getvar(o, name):
    if name.endswith("[0]"):
        return getattr(o, name[:-3])[0]
    return getattr(o, name)


def setvar(o, name, v):
    if name.endswith("[0]"):
        getattr(o, name[:-3])[0] = v
    else:
        setattr(o, name, v)


def working_var_names(o, kind):
    return WORKING_VARS[kind]


def code_entries(v):
    from scico.numpy import BlockArray
    blocks = list(v) if isinstance(v, BlockArray) else [v]
    out = []
    for b in blocks:
        a = np.asarray(b).ravel()
        out.append([0 if np.isfinite(t) else (1 if np.isnan(t) else 2) for t in a])
    return out


# ---------------------------------------------------------------- run

GEN_FINITE = {"ADMM": "C15_FinAdmm", "LADMM": "C15_FinLadmm", "PADMM": "C15_FinPadmm", "NLPADMM": "C15_FinNlpadmm",
              "PDHG": "C15_FinPdhg", "PGM": "C15_FinPgm", "APGM": "C15_FinApgm"}


def inspected_vars_obligation(ctx):
    """The working variables exercised by stream (c) (WORKING_VARS) must be exactly the attributes
    that the _working_vars_finite method of each class reads, as regenerated from the source by
    tools/py2coq.py (comment `attributes read by finite_gen: ...` of coq/gen/C15_Fin*.v; the
    theorems C15_gen_finite_* state that the generated test is vars_finite of that list)."""
    import re
    from vf.common import GEN
    diffs = []
    for kind, mod in GEN_FINITE.items():
        f = GEN / (mod + ".v")
        m = re.search(r"attributes read by finite_gen: ([^*]*)\*\)", f.read_text()) if f.exists() else None
        code = m.group(1).split() if m else None
        mine = [n[:-3] if n.endswith("[0]") else n for n in WORKING_VARS[kind]]
        if code != mine:
            diffs.append(f"{kind}: code inspects {code}, harness exercises {mine}")
    ctx.obligation(not diffs, "the variables _working_vars_finite inspects are the ones the harness exercises",
                   "; ".join(diffs))


def run(ctx: Ctx):
    if not getattr(ctx, "no_proofs", False):
        ctx.proofs()
    inspected_vars_obligation(ctx)
    ctx.trusted += ["Python object model of Optimizer subclasses / Timer dictionaries as transcribed in Opt/Timer.v, Opt/Driver.v",
                    "fake clock (scico.util.timer patched) with dyadic readings, exact in float64"]

    # (a) timer
    nT = ctx.n(400, 6000)
    tcases = []
    for i in range(nT):
        c = gen_timer_case(ctx.rng, ctx.n(14, 40))
        outs = run_timer_impl(c)
        tcases.append((c, outs))
        ctx.count("timer-history", c, nontrivial=len(c["ops"]) >= 2)
    shard = 250
    bodies = []
    for s in range(0, nT, shard):
        items = [coq_timer_case(c, o) for c, o in tcases[s:s + shard]]
        bodies.append("Definition cases := " + coq_list(items, ";\n ") + ".\n"
                      "Eval vm_compute in (bad_idx timer_case_ok cases 0%nat).")
    outs = coq_eval_shards("C15_timer", HEADER, bodies)
    for si, o in enumerate(outs):
        for idx in parse_eval_nat_list(o):
            c, impl = tcases[si * shard + idx]
            ctx.violation("Timer", "Timer output differs from the ideal stopwatch", c,
                          expected="model Opt/Timer.v (proved to refine the ideal stopwatch)",
                          observed=impl, oracle="timer_refines_stopwatch")

    # (b) driver
    nD = ctx.n(300, 4000)
    dcases = []
    for i in range(nD):
        c = gen_drv_case(ctx.rng)
        clkl, obs = run_drv_impl(c)
        dcases.append((c, clkl, obs))
        ctx.count("solve-history", c, nontrivial=any(x[2] > 0 for x in c["calls"]))
    bodies = []
    for s in range(0, nD, shard):
        items = [coq_drv_case(c, k, o) for c, k, o in dcases[s:s + shard]]
        bodies.append(DRV_OK_CORE + "Definition cases := " + coq_list(items, ";\n ") + ".\n"
                      "Eval vm_compute in (bad_idx (fun c => drv_case_ok_core c false) cases 0%nat).")
    outs = coq_eval_shards("C15_drv", HEADER, bodies)
    for si, o in enumerate(outs):
        for idx in parse_eval_nat_list(o):
            c, clkl, obs = dcases[si * shard + idx]
            what = classify_drv(c, obs)
            ctx.violation("Optimizer.solve", what, c, expected="model Opt/Driver.v solve (theorems C15_*)",
                          observed=obs, oracle="solve_spec / solve_resume / solve_nanstop")

    # (c) _working_vars_finite
    mk, fc = finite_cases(ctx)
    fc = fc[: ctx.n(120, len(fc))]
    items, meta = [], []
    for kind, block, vn, val, blk in fc:
        o = mk(kind, block)
        if o is None:
            continue
        if vn is not None:
            from scico.numpy import BlockArray
            import scico.numpy as snp
            v = getvar(o, vn)
            if isinstance(v, BlockArray):
                bl = [np.array(b, dtype=np.float64) for b in v]
                bl[blk][-1] = val
                v2 = snp.blockarray(bl)
            else:
                a = np.array(v, dtype=np.float64)
                a[1] = val
                v2 = snp.array(a)
            setvar(o, vn, v2)
        try:
            got = bool(o._working_vars_finite())
        except Exception as e:
            got = f"exception {type(e).__name__}"
        enc = [code_entries(getvar(o, n)) for n in working_var_names(o, kind)]
        case = {"class": kind, "block": block, "var": vn, "value": str(val), "blk": blk}
        ctx.count("working-vars-finite", case)
        items.append("(" + coq_list([coq_list([coq_list([zlit(t) for t in b]) for b in v]) for v in enc])
                     + ", " + ("true" if got is True else "false") + ")")
        meta.append((case, got))
    body = ("Definition cases := " + coq_list(items, ";\n ") + ".\n"
            "Eval vm_compute in (bad_idx (fun c => Bool.eqb (vars_finite (fst c)) (snd c)) cases 0%nat).")
    o = coq_eval_shards("C15_fin", HEADER, [body])[0]
    for idx in parse_eval_nat_list(o):
        case, got = meta[idx]
        ctx.violation("_working_vars_finite", "non-finite working variable not detected (or false alarm)",
                      case, expected="False iff some entry of some working variable is nan/inf",
                      observed=got, oracle="vars_finite")

    # (d) statistics options
    stat_option_cases(ctx)


def stat_option_cases(ctx):
    """(d) statistics options: a user statistics function + fields handed over in ONE dict that is re-used for several
    solvers (a parameter sweep), with default options in between.  Every solver must record one row per performed
    iteration whose fields are the values of ITS statistics function after that iteration, and constructing a solver
    must not change the caller's dict."""
    import copy
    from scico.optimize._common import Optimizer
    from scico import functional, linop, loss
    import scico.numpy as snp
    from scico.optimize import PGM, LinearizedADMM

    class Fake(Optimizer):
        def __init__(s, w0=0, **kw):
            s.w = w0
            super().__init__(**kw)

        def step(s):
            s.w += 2

        def _working_vars_finite(s):
            return True

        def _itstat_extra_fields(s):
            return {"W": "%d"}, ["w"]

        def minimizer(s):
            return s.w

    def real(kind, **kw):
        # one dtype throughout (the checks run with 64-bit mode on; operators default to float32 input)
        x0 = snp.ones((3,), dtype=np.float32)
        I = linop.Identity((3,), input_dtype=np.float32)
        f = loss.SquaredL2Loss(y=x0, A=I)
        g = functional.L1Norm()
        if kind == "PGM":
            return PGM(f=f, g=g, L0=2.0, x0=x0, **kw)
        return LinearizedADMM(f=g, g=g, C=I, mu=0.5, nu=1.0, x0=x0, **kw)

    for t in range(ctx.n(12, 120)):
        nfield = ctx.rng.choice([1, 2, 3, 5])
        coef = [ctx.rng.randint(-3, 3) or 1 for _ in range(nfield)]
        fields = {f"F{j}": "%d" for j in range(nfield)}
        func = (lambda cf: (lambda o: tuple(c * o.itnum + j for j, c in enumerate(cf))))(coef)
        opts = {"fields": fields, "itstat_func": func}
        if ctx.rng.random() < 0.5:
            opts["display"] = False
        before = copy.copy(opts)
        kinds = [ctx.rng.choice(["Fake", "Fake", "PGM", "LADMM"]) for _ in range(ctx.rng.choice([2, 3, 4]))]
        case = {"unit": "itstat_options", "coef": coef, "solvers": kinds, "shared_dict": True}
        ctx.count("statistics-options", case)
        for si, kind in enumerate(kinds):
            mi = ctx.rng.choice([1, 2, 3])
            use_opts = not (si == 1 and ctx.rng.random() < 0.3)      # sometimes a default-options solver in between
            kw = dict(maxiter=mi, **({"itstat_options": opts} if use_opts else {}))
            try:
                o = Fake(**kw) if kind == "Fake" else real(kind, **kw)
                o.solve()
                rows = [tuple(int(v) for v in r) for r in o.itstat_object.history()] if use_opts else None
                names = list(o.itstat_object.history()[0]._fields) if use_opts and o.itstat_object.history() else None
            except Exception as ex:     # noqa: BLE001
                ctx.violation("Optimizer.itstat_options", "building / running a solver with valid statistics options fails",
                              {**case, "solver_index": si, "maxiter": mi}, observed=f"{type(ex).__name__}: {str(ex)[:200]}",
                              expected="one record per iteration", oracle="documented statistics options")
                break
            if use_opts:
                exp = [tuple(c * k + j for j, c in enumerate(coef)) for k in range(mi)]
                if rows != exp or names != list(fields):
                    ctx.violation("Optimizer.itstat_options", "recorded statistics are not the values of the user's statistics "
                                  "function after each iteration", {**case, "solver_index": si, "maxiter": mi},
                                  expected=repr(exp), observed=repr(rows)[:300], oracle="documented statistics options")
                    break
            if set(opts) != set(before) or any(opts[k] is not before[k] for k in before):
                ctx.violation("Optimizer.itstat_options", "constructing a solver changed the caller's itstat_options dict",
                              {**case, "solver_index": si}, expected=sorted(before), observed=sorted(opts),
                              oracle="arguments are not modified")
                break


def classify_drv(c, obs):
    n_pos = [max(x[2], 0) for x in c["calls"]]
    if not any(obs["raised"]) and obs["itnum"] != c["it0"] + sum(n_pos):
        return "iteration counter after solve() differs from iter0 + number of iterations performed"
    return "solve() history differs from the driver model (rows / numbering / callbacks / NaN stop)"


def replay(ctx: Ctx, rec):
    unit, c = rec["unit"], rec["input"]
    if unit == "Timer":
        outs = run_timer_impl(c)
        body = ("Definition cases := [" + coq_timer_case(c, outs) + "].\n"
                "Eval vm_compute in (bad_idx timer_case_ok cases 0%nat).")
        return parse_eval_nat_list(coq_eval_shards("C15_replay", HEADER, [body])[0]) == []
    if unit == "Optimizer.solve":
        clkl, obs = run_drv_impl(c)
        body = (DRV_OK_CORE + "Definition cases := [" + coq_drv_case(c, clkl, obs) + "].\n"
                "Eval vm_compute in (bad_idx (fun c => drv_case_ok_core c false) cases 0%nat).")
        return parse_eval_nat_list(coq_eval_shards("C15_replay", HEADER, [body])[0]) == []
    if unit == "_working_vars_finite":
        mk, _ = finite_cases(ctx)
        o = mk(c["class"], c["block"])
        import scico.numpy as snp
        from scico.numpy import BlockArray
        val = float(c["value"])
        if c["var"] is not None:
            v = getvar(o, c["var"])
            if isinstance(v, BlockArray):
                bl = [np.array(b, dtype=np.float64) for b in v]
                bl[c["blk"]][-1] = val
                v2 = snp.blockarray(bl)
            else:
                a = np.array(v, dtype=np.float64)
                a[1] = val
                v2 = snp.array(a)
            setvar(o, c["var"], v2)
        got = bool(o._working_vars_finite())
        return got == (c["var"] is None)
    if unit == "Optimizer.itstat_options":
        # the stream is cheap and deterministic in the seed: re-run it and report whether it is clean
        c2 = Ctx(ctx.pid, ctx.tier, rec.get("seed", ctx.seed))
        c2.known = []
        stat_option_cases(c2)
        return not c2.violations
    raise SystemExit("unknown unit")
