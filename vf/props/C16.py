"""C16 -- PGM step-size policies return the documented, usable step sizes.

Theorems: coq/Properties/C16.v (models coq/theories/C16/{XR,StepSize,StepSizeR}.v).
Correspondence: real PGM / AcceleratedPGM runs with each policy; the policy's `update` is
wrapped from here (never editing /repo) so that after every real step the policy memory, the
inner products it formed (the `snp.real(...)` values), the line-search candidates with their
f / f_quad_approx values and the returned L are recorded; the Coq model is evaluated by
vm_compute on exactly those scalars and compared inside Coq.  A second stream calls
`step_size.update(v)` directly on crafted states (0/0, num/0, negative ratio, signed zeros,
infinite / missing memory).  Property-level oracles (finite and > 0; last value tried;
candidate computed with the returned L) are checked on every recorded call.
"""
from __future__ import annotations

import math
from fractions import Fraction

import numpy as np

from vf.common import Ctx, Broken, coq_eval_shards, parse_eval_nat_list, qlit, coq_list

HEADER = """From Coq Require Import List Bool ZArith QArith Qcanon.
From SV Require Import Base.Num C16.XR C16.StepSize C16.Exec.
Import ListNotations.
"""
TOL = "(q 1 1099511627776)"       # 2^-40: one float64 division / a few roundings
TOLT = "(q 1 1073741824)"         # 2^-30: sqrt in the auxiliary sequence
POL_CODE = {"fixed": 0, "bb": 1, "abb": 2, "ls": 3, "rls": 4}


# ---------------------------------------------------------------- literals

def qc(x):
    return f"(Q2Qc {qlit(x)})"


def xr(x):
    """Coq literal of the extended scalar for a Python/JAX real scalar (sign of zero kept)."""
    x = float(x)
    if math.isnan(x):
        return "NaN"
    if math.isinf(x):
        return "PInf" if x > 0 else "NInf"
    if x == 0.0 and math.copysign(1.0, x) < 0:
        return "NZ"
    return f"(Fin {qc(x)})"


def oxr(x):
    return "None" if x is None else f"(Some {xr(x)})"


def fl(x):
    return None if x is None else float(x)


# ---------------------------------------------------------------- problems

def carr(a):
    """JSON-able list -> numpy array (pairs = complex)."""
    a = np.array(a, dtype=np.float64)
    return a


def flat(a):
    """All entries of an array or BlockArray as one flat numpy vector."""
    from scico.numpy import BlockArray
    if isinstance(a, BlockArray):
        return np.concatenate([np.asarray(b).ravel() for b in a])
    return np.asarray(a).ravel()


def to_snp(spec_arr, cplx, block=False):
    import scico.numpy as snp
    if block:
        return snp.blockarray([to_np(b, cplx) for b in spec_arr])
    return snp.array(to_np(spec_arr, cplx))


def to_np(spec_arr, cplx):
    a = np.array(spec_arr, dtype=np.float64)
    if cplx:
        return a[..., 0] + 1j * a[..., 1]
    return a


def build_problem(spec):
    import scico.numpy as snp
    from scico import functional, linop, loss
    cplx = spec["complex"]
    kind = spec["kind"]
    block = bool(spec.get("block"))
    if kind == "lsq":
        A = to_np(spec["A"], cplx)
        y = to_np(spec["y"], cplx)
        cols = y.shape[1] if y.ndim == 2 else 0          # 2-D iterates: A acts on the columns
        f = loss.SquaredL2Loss(y=snp.array(y), A=linop.MatrixOperator(snp.array(A), input_cols=cols))
    elif kind == "lsqdiag":                                # any shape, also BlockArray iterates
        f = loss.SquaredL2Loss(y=to_snp(spec["y"], cplx, block), A=linop.Diagonal(to_snp(spec["d"], cplx, block)))
    else:
        d = snp.array(np.array(spec["d"], dtype=np.float64))

        class F(functional.Functional):
            has_eval = True
            has_prox = False

            def __call__(self, x):
                a2 = snp.real(x.conj() * x)
                if kind == "diagquad":          # indefinite quadratic: negative curvature
                    return 0.5 * snp.sum(d * a2)
                if kind == "bilinear":          # sum d_i Re(conj(x_i) x_{i+1}): dx _|_ dg happens
                    return snp.sum(d[:-1] * snp.real(x[:-1].conj() * x[1:]))
                if kind == "quartic":           # double well
                    return 0.25 * snp.sum(a2 * a2) - 0.5 * snp.sum(d * a2)
                raise ValueError(kind)
        f = F()
    gs = spec["g"]
    if gs[0] == "zero":
        g = functional.ZeroFunctional()
    elif gs[0] == "l1":
        g = gs[1] * functional.L1Norm()
    elif gs[0] == "nonneg":
        g = functional.NonNegativeIndicator()
    elif gs[0] == "sql2":
        g = gs[1] * functional.SquaredL2Norm()
    else:
        raise ValueError(gs)
    x0 = to_snp(spec["x0"], cplx, block)
    return f, g, x0


def build_policy(p):
    from scico.optimize.pgm import (AdaptiveBBStepSize, BBStepSize, LineSearchStepSize,
                                    PGMStepSize, RobustLineSearchStepSize)
    if p[0] == "fixed":
        return PGMStepSize()
    if p[0] == "bb":
        return BBStepSize()
    if p[0] == "abb":
        return AdaptiveBBStepSize(kappa=p[1])
    if p[0] == "ls":
        return LineSearchStepSize(gamma_u=p[1], maxiter=p[2])
    if p[0] == "rls":
        return RobustLineSearchStepSize(gamma_d=p[1], gamma_u=p[2], maxiter=p[3])
    raise ValueError(p)


class RealProxy:
    """Stands in for the module global `snp` of scico.optimize._pgmaux: records what
    `snp.real(...)` returns (the inner products the BB policies form)."""

    def __init__(self, mod, sink):
        self._m, self._sink = mod, sink

    def __getattr__(self, n):
        a = getattr(self._m, n)
        if n == "real":
            def real(x):
                r = a(x)
                self._sink.append(r)
                return r
            return real
        return a


class FWrap:
    """Delegating wrapper of pgm.f that records top-level evaluations f(z)."""

    def __init__(self, f, st):
        self._f, self._st = f, st

    def __call__(self, x):
        v = self._f(x)
        if self._st["active"]:
            self._st["fcalls"].append(v)
        return v

    def __getattr__(self, n):
        return getattr(self._f, n)


def make_solver(spec):
    from scico.optimize import PGM, AcceleratedPGM
    f, g, x0 = build_problem(spec)
    ss = build_policy(spec["policy"])
    cls = AcceleratedPGM if spec["cls"] == "APGM" else PGM
    s = cls(f=f, g=g, L0=spec["L0"], x0=x0, step_size=ss, maxiter=1)
    return s


def instrument(s, calls):
    """Wrap (on the instances only) step_size.update, pgm.f, pgm.f_quad_approx, pgm.x_step and
    step_size.g_prox."""
    import scico.optimize._pgmaux as aux
    ss = s.step_size
    # hist: the harness's OWN record of the arguments passed to update() and of grad f at them
    st = {"active": False, "fcalls": [], "reals": [], "prox": [], "fq": [], "hist": []}
    f_plain = s.f
    s.f = FWrap(s.f, st)
    fqa = s.f_quad_approx

    def f_quad_approx(x, y, L):
        act = st["active"]
        st["active"] = False
        try:
            v = fqa(x, y, L)
        finally:
            st["active"] = act
        if act:
            st["fq"].append((float(L), v))
        return v
    s.f_quad_approx = f_quad_approx
    xs = s.x_step

    def x_step(v, L):
        z = xs(v, L)
        if st["active"]:
            st["prox"].append((float(L), v, z))
        return z
    s.x_step = x_step
    if hasattr(ss, "g_prox"):
        gp = ss.g_prox

        def g_prox(v, gradv, L):
            z = gp(v, gradv, L)
            if st["active"]:
                st["prox"].append((float(L), v, z))
            return z
        ss.g_prox = g_prox
    upd = ss.update
    real_snp = aux.snp if not isinstance(aux.snp, RealProxy) else aux.snp._m

    def idof(obj):
        if obj is None:
            return None
        for i in range(len(st["hist"]) - 1, -1, -1):
            if st["hist"][i][0] is obj:
                return i
        return 999999

    def update(v):
        bbpol = hasattr(ss, "xprev")
        hist = st["hist"]
        prev = hist[-1] if hist else None
        gcur = np.asarray(f_plain.grad(v)) if bbpol else None
        c = {"prev": prev, "cur_id": len(hist), "gcur": gcur, "is_x": v is s.x, "is_v": v is getattr(s, "v", None), "pgmL": s.L, "v": v,
             "x": s.x, "first": getattr(ss, "xprev", 0) is None,
             "xprev": getattr(ss, "xprev", None), "gradprev": getattr(ss, "gradprev", None),
             "m1": getattr(ss, "Lbb1prev", None), "m2": getattr(ss, "Lbb2prev", None),
             "Tk": getattr(ss, "Tk", None), "Zrb": getattr(ss, "Zrb", None)}
        st.update(active=True, fcalls=[], reals=[], prox=[], fq=[])
        aux.snp = RealProxy(real_snp, st["reals"])
        try:
            try:
                L = upd(v)
                c["raised"] = None
            except Exception as e:       # UnboundLocalError (maxiter = 0) is modelled; anything else is reported
                L = None
                c["raised"] = type(e).__name__
        finally:
            aux.snp = real_snp
            st["active"] = False
        if bbpol:
            hist.append((v, gcur))
            c.update(mem_after=idof(ss.xprev), gradprev_after=ss.gradprev)
        c.update(L=L, reals=list(st["reals"]), prox=list(st["prox"]), fz=list(st["fcalls"]),
                 fq=list(st["fq"]), m1n=getattr(ss, "Lbb1prev", None), m2n=getattr(ss, "Lbb2prev", None),
                 Tkn=getattr(ss, "Tk", None), Zrbn=getattr(ss, "Zrb", None), Z=getattr(ss, "Z", None))
        calls.append(c)
        if L is None:
            raise UnboundLocalError(c["raised"])
        return L
    ss.update = update
    return st


def run_traj(spec):
    """Run the real solver; one record per step()."""
    s = make_solver(spec)
    calls = []
    instrument(s, calls)
    out = []
    for k in range(spec["steps"]):
        x_old, v_old = s.x, getattr(s, "v", None)
        n0 = len(calls)
        try:
            s.step()
            err = None
        except UnboundLocalError:
            err = calls[-1].get("raised") if len(calls) == n0 + 1 else "UnboundLocalError"
        if len(calls) != n0 + 1:
            raise Broken("step() did not call step_size.update exactly once", str(spec))
        c = calls[-1]
        c.update(step=k, x_old=x_old, v_old=v_old, x_new=s.x, solverL=s.L, err=err)
        out.append(c)
        if err:
            break
    return s, out


# ---------------------------------------------------------------- generators

def dy(rng, bits=1, lo=-3, hi=3):
    den = 1 << bits
    return rng.randint(lo * den, hi * den) / den


def cvec(rng, n, cplx, bits=1, lo=-3, hi=3):
    if cplx:
        return [[dy(rng, bits, lo, hi), dy(rng, bits, lo, hi)] for _ in range(n)]
    return [dy(rng, bits, lo, hi) for _ in range(n)]


def rarr(rng, shape, cplx, bits=1, lo=-3, hi=3):
    """Nested list of dyadics of the given shape (complex: innermost pairs)."""
    if len(shape) == 1:
        return cvec(rng, shape[0], cplx, bits, lo, hi)
    return [rarr(rng, shape[1:], cplx, bits, lo, hi) for _ in range(shape[0])]


def gen_policy(rng):
    r = rng.random()
    if r < 0.25:
        return ["bb"]
    if r < 0.5:
        return ["abb", rng.choice([0.5, 0.25, 0.75, 0.125, 0.9, 0.3])]
    if r < 0.75:
        return ["ls", rng.choice([1.2, 1.5, 2.0, 1.25, 3.0, 1.1]), rng.choice([1, 1, 2, 3, 5, 50])]
    return ["rls", rng.choice([0.9, 0.5, 0.75, 0.25, 1.0]), rng.choice([2.0, 1.5, 1.2, 4.0]),
            rng.choice([1, 1, 2, 3, 5, 50])]


def gen_spec(rng, steps):
    cplx = rng.random() < 0.35
    kind = rng.choice(["lsq", "lsq", "lsq", "diagquad", "bilinear", "quartic", "lsqdiag"])
    n = rng.randint(1, 4) if kind != "bilinear" else rng.randint(2, 4)
    # image-shaped (2-D) and 3-D iterates for a third of the problems
    shape = (n,)
    if rng.random() < 0.35:
        shape = rng.choice([(2, 2), (2, 3), (3, 2), (2, 2, 2)]) if kind != "lsq" else (n, rng.choice([2, 3]))
    spec = {"kind": kind, "complex": cplx, "cls": rng.choice(["PGM", "APGM"]),
            "policy": gen_policy(rng), "steps": steps,
            "L0": rng.choice([0.25, 0.5, 1.0, 2.0, 4.0, 8.0, 16.0, 3.0])}
    if kind == "lsq":
        m = rng.randint(1, 4)
        spec["A"] = [cvec(rng, n, cplx, 1, -2, 2) for _ in range(m)]
        spec["y"] = rarr(rng, (m,) + tuple(shape[1:]), cplx)
    elif kind == "lsqdiag":
        spec["d"] = rarr(rng, shape, cplx, 1, -2, 2)
        spec["y"] = rarr(rng, shape, cplx)
    else:
        def dval(sh):
            if len(sh) == 1:
                return [rng.choice([-2.0, -1.0, -0.5, 0.5, 1.0, 2.0, 1.0, -1.0]) for _ in range(sh[0])]
            return [dval(sh[1:]) for _ in range(sh[0])]
        spec["d"] = dval(shape)
        if kind == "quartic":
            spec["L0"] = rng.choice([4.0, 8.0, 16.0])
    g = rng.random()
    if g < 0.4:
        spec["g"] = ["zero"]
    elif g < 0.7:
        spec["g"] = ["l1", rng.choice([0.25, 0.5, 1.0, 4.0])]
    elif g < 0.85 and not cplx:
        spec["g"] = ["nonneg"]
    else:
        spec["g"] = ["sql2", rng.choice([0.5, 1.0])]
    spec["x0"] = rarr(rng, shape, cplx) if kind != "quartic" else rarr(rng, shape, cplx, 2, -1, 1)
    r = rng.random()
    if kind == "lsq" and r < 0.15:
        # start at a stationary point: repeated iterates, dx = dg = 0
        A = to_np(spec["A"], cplx)
        x0 = to_np(spec["x0"], cplx)
        yy = A @ x0

        def enc(a):
            if a.ndim == 1:
                return [[float(t.real), float(t.imag)] for t in a] if cplx else [float(t) for t in a]
            return [enc(r_) for r_ in a]
        spec["y"] = enc(yy)
        spec["g"] = ["zero"]
    elif r < 0.25:
        spec["x0"] = rarr(rng, shape, cplx, 0, 0, 0)     # x0 = 0
    return spec


def shaped_specs(steps):
    """2-D (image-shaped), 3-D and BlockArray iterates whose update differences have rank > 1:
    the quadratic model must sum over ALL entries.  Line searches with a budget that needs a few
    rejections; BB policies on 2-D iterates."""
    out = []
    for cls in ("PGM", "APGM"):
        for pol in (["ls", 2.0, 6], ["rls", 0.5, 2.0, 6]):
            out.append({"kind": "lsq", "complex": False, "cls": cls, "policy": pol, "steps": steps, "L0": 0.5,
                        "A": [[1.0, 0.5], [0.0, 2.0], [1.0, 1.0]],
                        "y": [[1.0, 2.0, -1.0], [2.0, 0.5, 1.0], [0.5, -1.0, 3.0]], "g": ["l1", 0.25],
                        "x0": [[0.0, 0.0, 0.0], [0.0, 0.0, 0.0]]})
            out.append({"kind": "lsqdiag", "complex": True, "cls": cls, "policy": pol, "steps": steps, "L0": 0.25,
                        "d": [[[1.0, 0.5], [2.0, 0.0], [0.0, -1.5]], [[1.0, 1.0], [0.5, -0.5], [2.0, 1.0]]],
                        "y": [[[1.0, 0.0], [0.0, 2.0], [1.0, 1.0]], [[-1.0, 0.5], [2.0, 0.0], [0.5, 0.5]]],
                        "g": ["zero"], "x0": [[[0.0, 0.0]] * 3, [[0.0, 0.0]] * 3]})
            out.append({"kind": "quartic", "complex": False, "cls": cls, "policy": pol, "steps": steps, "L0": 0.5,
                        "d": [[[1.0, 2.0], [0.5, 1.0]], [[1.0, 1.0], [2.0, 0.5]]], "g": ["zero"],
                        "x0": [[[1.5, -1.0], [0.5, 2.0]], [[-1.5, 1.0], [1.0, -0.5]]]})
            out.append({"kind": "lsqdiag", "complex": False, "block": True, "cls": cls, "policy": pol, "steps": steps,
                        "L0": 0.25, "d": [[1.0, 2.0], [[1.5, -1.0], [0.5, 2.0]]],
                        "y": [[1.0, -2.0], [[2.0, 1.0], [-1.0, 0.5]]], "g": ["l1", 0.125],
                        "x0": [[0.0, 0.0], [[0.0, 0.0], [0.0, 0.0]]]})
        for pol in (["bb"], ["abb", 0.5]):
            out.append({"kind": "lsq", "complex": False, "cls": cls, "policy": pol, "steps": steps, "L0": 8.0,
                        "A": [[1.0, 0.5], [0.0, 2.0], [1.0, 1.0]],
                        "y": [[1.0, 2.0], [2.0, 0.5], [0.5, -1.0]], "g": ["zero"], "x0": [[0.0, 0.0], [0.0, 0.0]]})
    return out


def fixed_specs(steps):
    """Deterministic trajectories that exercise the boundary cases on every run."""
    out = []
    for cls in ("PGM", "APGM"):
        # dx _|_ dg with dg != 0 (indefinite quadratic): <dx,dg> = 0, <dg,dg> > 0
        for pol in (["bb"], ["abb", 0.5]):
            out.append({"kind": "diagquad", "complex": False, "cls": cls, "policy": pol, "steps": steps,
                        "L0": 1.0, "d": [1.0, -1.0], "g": ["zero"], "x0": [1.0, 1.0]})
            out.append({"kind": "bilinear", "complex": False, "cls": cls, "policy": pol, "steps": steps,
                        "L0": 1.0, "d": [1.0, 1.0], "g": ["zero"], "x0": [1.0, 0.0]})
            out.append({"kind": "diagquad", "complex": True, "cls": cls, "policy": pol, "steps": steps,
                        "L0": 1.0, "d": [1.0, -1.0], "g": ["zero"], "x0": [[1.0, 1.0], [1.0, 1.0]]})
            # negative curvature only
            out.append({"kind": "diagquad", "complex": False, "cls": cls, "policy": pol, "steps": steps,
                        "L0": 2.0, "d": [-1.0, -0.5], "g": ["zero"], "x0": [1.0, -1.0]})
            # double well x^4/4 - x^2/2: negative-curvature step (Re<dx,dg> < 0, fall-back) followed by
            # steps in the convex region (positive ratio): the stored point must have advanced
            out.append({"kind": "quartic", "complex": False, "cls": cls, "policy": pol, "steps": steps,
                        "L0": 1.0, "d": [1.0], "g": ["zero"], "x0": [0.25]})
            out.append({"kind": "quartic", "complex": False, "cls": cls, "policy": pol, "steps": steps,
                        "L0": 1.0, "d": [1.0, 1.0], "g": ["zero"], "x0": [0.25, -0.5]})
            out.append({"kind": "quartic", "complex": True, "cls": cls, "policy": pol, "steps": steps,
                        "L0": 1.0, "d": [1.0, 1.0], "g": ["zero"], "x0": [[0.25, 0.0], [0.0, -0.25]]})
            out.append({"kind": "diagquad", "complex": True, "cls": cls, "policy": pol, "steps": steps,
                        "L0": 4.0, "d": [2.0, -1.0], "g": ["zero"], "x0": [[1.0, 0.5], [0.25, 1.0]]})
            # stationary start
            out.append({"kind": "lsq", "complex": False, "cls": cls, "policy": pol, "steps": steps,
                        "L0": 2.0, "A": [[1.0, 0.5], [0.0, 1.0]], "y": [2.0, 2.0], "g": ["zero"], "x0": [1.0, 2.0]})
        # line searches with a budget too small for L0
        for pol in (["ls", 1.5, 1], ["ls", 2.0, 2], ["ls", 1.2, 3], ["ls", 2.0, 0],
                    ["rls", 0.5, 2.0, 1], ["rls", 0.9, 2.0, 2], ["rls", 0.5, 1.5, 3], ["rls", 0.9, 2.0, 0],
                    ["ls", 1.2, 50], ["rls", 0.9, 2.0, 50], ["fixed"]):
            out.append({"kind": "lsq", "complex": False, "cls": cls, "policy": pol, "steps": steps,
                        "L0": 0.25, "A": [[1.0, 0.5], [0.0, 2.0], [1.0, 1.0]], "y": [1.0, 2.0, 0.5],
                        "g": ["l1", 0.25], "x0": [0.0, 0.0]})
            out.append({"kind": "lsq", "complex": True, "cls": cls, "policy": pol, "steps": steps,
                        "L0": 0.5, "A": [[[1.0, 0.5], [0.0, 1.0]], [[0.0, -1.0], [2.0, 0.0]]],
                        "y": [[1.0, 0.0], [0.0, 2.0]], "g": ["zero"], "x0": [[0.0, 0.0], [0.0, 0.0]]})
    return out


# ---------------------------------------------------------------- per-call checks

def posfin(x):
    x = float(x)
    return math.isfinite(x) and x > 0


def exact_ip(a, b):
    """Re <a, b> = Re sum conj(a) b, exactly, and the sum of |terms| (for the tolerance)."""
    a, b = np.asarray(a).ravel(), np.asarray(b).ravel()
    s, m = Fraction(0), Fraction(0)
    for p, q_ in zip(a, b):
        p, q_ = complex(p), complex(q_)
        if not (math.isfinite(p.real) and math.isfinite(p.imag) and math.isfinite(q_.real) and math.isfinite(q_.imag)):
            return None, None
        t = Fraction(p.real) * Fraction(q_.real) + Fraction(p.imag) * Fraction(q_.imag)
        s += t
        m += abs(Fraction(p.real) * Fraction(q_.real)) + abs(Fraction(p.imag) * Fraction(q_.imag))
    return s, m


def brief(spec, c, **kw):
    d = {"spec": spec, "step": c.get("step"), "pgmL": fl(c["pgmL"]), "returned": fl(c["L"])}
    d.update(kw)
    return d


def check_call(ctx, spec, c, s, items, report=True):
    """Register the Coq case of one recorded update call and run the property-level oracles.
    Returns the list of (unit, what) violated (used by replay)."""
    pol = spec["policy"]
    kind = pol[0]
    viol = []

    def V(unit, what, inp, expected=None, observed=None, oracle=""):
        viol.append((unit, what))
        if report:
            ctx.violation(unit, what, inp, expected, observed, oracle)

    accel = spec["cls"] == "APGM"
    # -- which point was handed to the policy, and which point became the new x
    arg = 0 if (c["v"] is c["x_old"]) else (1 if c["v"] is c["v_old"] else 2)
    if accel and c["x_old"] is c["v_old"]:
        arg = None  # first APGM step: x and v are the same object
    if arg is not None and "direct" not in spec and not c.get("err"):
        newx = 0 if (c["Z"] is not None and c["x_new"] is c["Z"]) else 1
        items["arg"].append((f"({POL_CODE[kind]}%nat, {'true' if accel else 'false'}, {arg}%nat, {newx}%nat)",
                             ("PGM.step", "policy argument / new x differs from PGM.step / AcceleratedPGM.step model",
                              brief(spec, c, arg=arg, newx=newx))))
    if c.get("err") or c.get("raised"):
        if kind == "rls" and (c.get("raised") or c.get("err")) == "UnboundLocalError" and pol[3] == 0:
            items["rls"].append((rls_item(pol, c, None), ("RobustLineSearchStepSize.update",
                                                           "update differs from the model", brief(spec, c))))
        else:
            V(unit_of(kind), "update raised " + str(c.get("raised")), brief(spec, c))
        return viol
    L = float(c["L"])
    unit = unit_of(kind)
    # -- the property's first clause: finite and > 0 whenever pgm.L is
    overflow = any(not math.isfinite(float(t)) for t in c["reals"])
    if overflow:
        ctx.dist["non-finite inner product (overflow, outside the model)"] = ctx.dist.get("non-finite inner product (overflow, outside the model)", 0) + 1
    if posfin(c["pgmL"]) and not posfin(L) and not overflow:
        inp = brief(spec, c)
        if kind in ("bb", "abb") and len(c["reals"]) == (2 if kind == "bb" else 3):
            r = [float(t) for t in c["reals"]]
            if kind == "bb":
                inp.update(den=r[0], num=r[1])
            else:
                inp.update(xx=r[0], xg=r[1], gg=r[2], m1=fl(c["m1"]), m2=fl(c["m2"]))
        V(unit, "returned L is not finite and positive although pgm.L is", inp,
          expected="finite L > 0", observed=L, oracle="C16_bb_posfin (full statement)")
    if kind == "fixed":
        if not (L == float(c["pgmL"])):
            V(unit, "base policy changed L", brief(spec, c))
        return viol
    if kind in ("bb", "abb"):
        r = [float(t) for t in c["reals"]]
        prev = c["prev"]                      # the IMMEDIATELY PRECEDING update argument (harness record)
        nip = 2 if kind == "bb" else 3
        if c["first"] != (prev is None):
            V(unit, "policy's stored previous point is missing / present unexpectedly",
              brief(spec, c, first=c["first"], preceding_updates=c["cur_id"]))
        if c["mem_after"] != c["cur_id"]:
            V(unit, "after update() the stored previous point is not the current argument",
              brief(spec, c, stored_id=c["mem_after"], current_id=c["cur_id"]),
              expected=c["cur_id"], observed=c["mem_after"], oracle="C16_bb_memory_is_current")
        elif not np.array_equal(np.asarray(c["gradprev_after"]), c["gcur"]):
            V(unit, "after update() the stored gradient is not grad f at the current argument", brief(spec, c))
        exact = None
        if prev is not None:
            # documented inner products: differences between the current and the preceding argument
            dx = np.asarray(c["v"]) - np.asarray(prev[0])
            dg = c["gcur"] - prev[1]
            want = [(dx, dg), (dg, dg)] if kind == "bb" else [(dx, dx), (dx, dg), (dg, dg)]
            exact = [exact_ip(a, b) for a, b in want]
            if any(e[0] is None for e in exact):
                exact = None
        if prev is not None and exact is not None:
            ok = len(r) == nip
            if ok:
                for (ex, mag), got in zip(exact, r):
                    if not math.isfinite(got) or abs(Fraction(got) - ex) > Fraction(1, 10**12) * mag:
                        ok = False
            if not ok:
                V(unit, "inner products used differ from Re<.,.> of the differences between the current and the "
                        "immediately preceding update argument", brief(spec, c, used=r),
                  expected=[float(e[0]) for e in exact], observed=r, oracle="exact rational inner products")
                r = [float(e[0]) for e in exact]      # the model is evaluated on the documented values
            if kind == "bb" and posfin(c["pgmL"]):
                (xg_e, xg_m), (gg_e, _) = exact
                if abs(xg_e) > Fraction(1, 10**6) * xg_m:          # well conditioned quotient
                    ratio = gg_e / xg_e
                    wantL = float(ratio) if ratio > 0 else float(c["pgmL"])
                    if not abs(L - wantL) <= 1e-9 * abs(wantL):
                        V(unit, "returned L is not the documented ratio of consecutive differences (or pgm.L when it is <= 0)",
                          brief(spec, c, ratio=float(ratio)), expected=wantL, observed=L,
                          oracle="C16_bb_ratio_or_previous on the harness's own record of the update arguments")
        elif len(r) != (0 if c["first"] else nip):
            V(unit, "unexpected number of inner products formed", brief(spec, c, n=len(r)))
            return viol
        if len(r) != nip:
            r = [0.0] * nip
        memb = "None" if prev is None else f"(Some {c['cur_id'] - 1}%nat)"
        mema = "None" if c["mem_after"] is None else f"(Some {c['mem_after']}%nat)"
        if kind == "bb":
            den, num = r
            items["bb"].append((f"({xr(c['pgmL'])}, {memb}, {c['cur_id']}%nat, {xr(num)}, {xr(den)}, {xr(L)}, {mema})",
                                (unit, "update differs from the model", brief(spec, c, den=den, num=num))))
        else:
            xx, xg, gg = r
            items["abb"].append((f"({qc(pol[1])}, {xr(c['pgmL'])}, {memb}, "
                                 f"({oxr(c['m1'])}, {oxr(c['m2'])}), {c['cur_id']}%nat, {xr(xx)}, {xr(xg)}, {xr(gg)}, {xr(L)}, "
                                 f"{mema}, ({oxr(c['m1n'])}, {oxr(c['m2n'])}))",
                                 (unit, "update differs from the model",
                                  brief(spec, c, xx=xx, xg=xg, gg=gg, m1=fl(c["m1"]), m2=fl(c["m2"])))))
        return viol
    # -- line searches
    gu = pol[1] if kind == "ls" else pol[2]
    maxiter = pol[2] if kind == "ls" else pol[3]
    trials = c["prox"]
    if not (len(trials) == len(c["fz"]) == len(c["fq"])):
        V(unit, "candidates / f / f_quad_approx evaluations do not pair up", brief(spec, c))
        return viol
    tab = [(t[0], float(fz), float(fq[1])) for t, fz, fq in zip(trials, c["fz"], c["fq"])]
    for t, fq in zip(trials, c["fq"]):
        if t[0] != fq[0]:
            V(unit, "f_quad_approx evaluated with a different L than the candidate", brief(spec, c))
    if any(not all(map(math.isfinite, t)) for t in tab):
        ctx.dist["non-finite f values (outside the model, skipped)"] = ctx.dist.get("non-finite f values (outside the model, skipped)", 0) + 1
        return viol
    accepted = bool(tab) and tab[-1][1] <= tab[-1][2]
    L0 = float(c["pgmL"]) * (pol[1] if kind == "rls" else 1.0)
    exact = all(Fraction(t[0]) == Fraction(float(c["pgmL"])) * (Fraction(pol[1]) if kind == "rls" else 1)
                * Fraction(gu) ** j for j, t in enumerate(tab)) and \
        Fraction(L) == Fraction(float(c["pgmL"])) * (Fraction(pol[1]) if kind == "rls" else 1) \
        * Fraction(gu) ** (len(tab) - (1 if accepted else 0))
    tol = "0%Qc" if exact else TOL
    kk = "line-search arithmetic " + ("exact" if exact else "rounded")
    ctx.dist[kk] = ctx.dist.get(kk, 0) + 1
    info = brief(spec, c, gamma_u=gu, maxiter=maxiter, trials=len(tab), accepted=accepted,
                 exhausted=(not accepted and len(tab) == maxiter and maxiter > 0),
                 last_tried=(tab[-1][0] if tab else None))
    tabl = coq_list([f"({qc(a)}, {qc(b)}, {qc(d)})" for a, b, d in tab])
    # quadratic model and candidates are what the documentation says (numpy recomputation)
    f0, g0 = s.f._f, s.g
    own = []          # the harness's own evaluation of the documented test f(z) <= fhat_L(z, y)
    for (Lj, y, z), fzj, fqj in zip(trials, c["fz"], c["fq"]):
        gy = flat(f0.grad(y))
        dzy = flat(z) - flat(y)                     # ALL entries, whatever the shape of the iterate
        want_fq = float(f0(y)) + float(np.sum(np.real(np.conj(gy) * dzy))) + 0.5 * Lj * float(np.sum(np.abs(dzy) ** 2))
        own.append((float(f0(z)), want_fq))
        if not abs(want_fq - float(fqj[1])) <= 1e-9 * (1 + abs(want_fq)):
            V(unit, "f_quad_approx differs from f(y) + Re<grad f(y), z-y> + L/2 |z-y|^2", info,
              expected=want_fq, observed=float(fqj[1]), oracle="documented quadratic model, sum over all entries")
        want_z = flat(g0.prox(y - (1.0 / Lj) * f0.grad(y), 1.0 / Lj))
        if not np.max(np.abs(want_z - flat(z))) <= 1e-9 * (1 + np.max(np.abs(want_z))):
            V(unit, "candidate is not prox_{g/L}(y - grad f(y)/L)", info)
        if not abs(float(f0(z)) - float(fzj)) <= 1e-12 * (1 + abs(float(fzj))):
            V(unit, "f value used in the test is not f(candidate)", info)
    # the L returned must be the FIRST of the sequence that passes the documented test: no candidate
    # before the last may pass it, and an accepted last candidate must pass it (ties by rounding skipped)
    for j, (fzo, fqo) in enumerate(own):
        margin = 1e-9 * (1 + abs(fzo) + abs(fqo))
        if abs(fzo - fqo) <= margin:
            continue
        passes = fzo <= fqo
        last = j == len(own) - 1
        if passes and not (last and accepted):
            V(unit, "an L that passes the documented test f(z) <= fhat_L(z, y) was rejected", dict(info, trial=j, L_trial=tab[j][0]),
              expected=tab[j][0], observed=L, oracle="harness evaluation of the documented quadratic model")
            break
        if (not passes) and last and accepted:
            V(unit, "the accepted L does not pass the documented test f(z) <= fhat_L(z, y)", dict(info, trial=j),
              expected="f(z) <= fhat", observed=[fzo, fqo])
    # -- the property: first accepted L; on exhaustion the last value tried
    if info["exhausted"] and not abs(L - tab[-1][0]) <= 1e-12 * abs(L):
        V(unit, "budget exhausted: returned L is not the last value tried", info,
          expected=tab[-1][0], observed=L, oracle="C16 statement; model theorem C16_ls_exhausted_returns_gu_times_last_tried")
    if kind == "ls":
        items["ls"].append((f"({tol}, ({qc(gu)}, {maxiter}%nat, {qc(c['pgmL'])}, {tabl}, {qc(L)}))",
                            (unit, "update differs from the model", info)))
    else:
        items["rls"].append((rls_item(pol, c, tab, tol), (unit, "update differs from the model", info)))
        # Z handed back, Tk, Zrb against the documented recursions (numpy, tolerance)
        x, Zrb, Tk = c["x"], (c["Zrb"] if c["Zrb"] is not None else c["x"]), float(c["Tk"])
        Z = c["Z"]
        if c["Z"] is not trials[-1][2]:
            V(unit, "Z is not the last candidate computed", info)

        def aux(Lx):
            t = (1.0 + math.sqrt(1.0 + 4.0 * Lx * Tk)) / (2.0 * Lx)
            T = Tk + t
            y = (Tk * x + t * Zrb) / T
            return t, T, y
        t, T, y = aux(L)
        zL = flat(g0.prox(y - (1.0 / L) * f0.grad(y), 1.0 / L))
        scale = 1 + float(np.max(np.abs(zL)))
        if not float(np.max(np.abs(zL - flat(Z)))) <= 1e-9 * scale:
            V(unit, "Z handed back is not the update computed with the returned L", info,
              expected=str(zL.tolist()), observed=str(flat(Z).tolist()),
              oracle="x_step(y(L), L) with y, t, T from the returned L")
        else:
            if not abs(float(c["Tkn"]) - T) <= 1e-9 * (1 + abs(T)):
                V(unit, "Tk is not Tk + t(L) for the returned L", info, expected=T, observed=float(c["Tkn"]))
            wantZrb = flat(Zrb) + t * L * (flat(Z) - flat(y))
            if not float(np.max(np.abs(wantZrb - flat(c["Zrbn"])))) <= 1e-9 * (1 + float(np.max(np.abs(wantZrb)))):
                V(unit, "Zrb is not Zrb + t L (z - y) for the returned L", info)
        if accel and not (c["x_new"] is c["Z"]):
            V("AcceleratedPGM.step", "new x is not the policy's Z", info)
    return viol


def rls_item(pol, c, tab, tol=TOL):
    tabl = coq_list([f"({qc(a)}, {qc(b)}, {qc(d)})" for a, b, d in (tab or [])])
    if c.get("raised") or c.get("err"):
        out = "None"
    else:
        Lz = c["prox"][-1][0]
        out = f"(Some ({qc(c['L'])}, {qc(Lz)}, {qc(c['Tkn'])}))"
    return (f"({tol}, ({qc(pol[1])}, {qc(pol[2])}, {pol[3]}%nat, {qc(c['pgmL'])}, {qc(c['Tk'])}, {tabl}, {out}))")


def unit_of(kind):
    return {"fixed": "PGMStepSize.update", "bb": "BBStepSize.update", "abb": "AdaptiveBBStepSize.update",
            "ls": "LineSearchStepSize.update", "rls": "RobustLineSearchStepSize.update"}[kind]


def check_traj(ctx, spec, items, report=True):
    import numpy as np
    s, recs = run_traj(spec)
    viol = []
    for c in recs:
        if not c.get("err"):
            if not (c["solverL"] is c["L"]):
                viol.append(("step", "solver.L is not the value returned by update"))
                if report:
                    ctx.violation("PGM.step", "solver.L is not the value returned by update", brief(spec, c))
            # new x is the update computed from the point handed to the policy with the new L
            kind = spec["policy"][0]
            if not (kind == "rls" and spec["cls"] == "APGM") and math.isfinite(float(c["L"])) and float(c["L"]) != 0:
                base = c["v_old"] if spec["cls"] == "APGM" else c["x_old"]
                Lf = float(c["L"])
                want = flat(s.g.prox(base - (1.0 / Lf) * s.f._f.grad(base), 1.0 / Lf))
                got = flat(c["x_new"])
                if np.all(np.isfinite(want)) and not float(np.max(np.abs(want - got))) <= 1e-9 * (1 + float(np.max(np.abs(want)))):
                    viol.append(("step", "new x is not the proximal gradient update with the returned L"))
                    if report:
                        ctx.violation("PGM.step", "new x is not the proximal gradient update with the returned L",
                                      brief(spec, c))
        viol += [(u, w, c["step"]) for u, w in check_call(ctx, spec, c, s, items, report)]
        if report:
            ctx.count(f"step {spec['cls']} {spec['policy'][0]} {spec['kind']}"
                      + (" complex" if spec["complex"] else ""),
                      {"spec": spec, "step": c["step"]}, nontrivial=True)
    return viol


# ---------------------------------------------------------------- crafted direct calls

def gen_direct(rng):
    cplx = rng.random() < 0.3
    n = rng.randint(1, 3)
    kind = rng.choice(["bb", "abb"])
    r = rng.random()
    dx = cvec(rng, n, cplx)
    dg = cvec(rng, n, cplx)
    if r < 0.15:
        dx = cvec(rng, n, cplx, 0, 0, 0)                     # dx = 0
        if rng.random() < 0.5:
            dg = cvec(rng, n, cplx, 0, 0, 0)                 # 0/0
    elif r < 0.3 and n >= 2 and not cplx:
        dx = [0.0] * n
        dg = [0.0] * n
        dx[0] = rng.choice([1.0, -1.0, 0.5])
        dg[1] = rng.choice([1.0, -1.0, 2.0])                 # dx _|_ dg, dg != 0: num/0
    elif r < 0.4 and cplx:
        dx = [[1.0, 0.0]] + [[0.0, 0.0]] * (n - 1)
        dg = [[0.0, rng.choice([1.0, -2.0])]] + [[0.0, 0.0]] * (n - 1)   # Re<dx,dg> = 0
    elif r < 0.55:
        dg = [[-t for t in p] for p in dx] if cplx else [-t for t in dx]  # negative ratio
    elif r < 0.6:
        dg = cvec(rng, n, cplx, 0, 0, 0)                     # dg = 0: 0/den
    mem = lambda: rng.choice([None, None, 0.5, 2.0, 0.125, 1.0, 3.0])   # memory invariant: None or finite > 0
    return {"direct": True, "cls": "PGM", "complex": cplx, "policy": [kind] if kind == "bb" else ["abb", rng.choice([0.5, 0.25, 0.75])],
            "dx": dx, "dg": dg, "pgmL": rng.choice([1.0, 2.0, 0.5, 4.0, float("inf"), float("nan"), 3.0]),
            "m1": mem(), "m2": mem(), "xprev": cvec(rng, n, cplx)}


def fixed_direct():
    out = []
    for kind in (["bb"], ["abb", 0.5]):
        for dx, dg in (([0.0, 0.0], [0.0, 0.0]), ([1.0, 0.0], [0.0, 1.0]), ([0.0, 0.0], [1.0, -1.0]),
                       ([1.0, 1.0], [-1.0, -1.0]), ([1.0, 2.0], [2.0, 1.0]), ([0.0, 0.0], [-1.0, -1.0]),
                       ([1.0, 0.0], [0.0, 0.0])):
            for m in ((None, None), (1.0, 2.0), (None, 1.0)):
                out.append({"direct": True, "cls": "PGM", "complex": False, "policy": kind, "dx": dx, "dg": dg, "pgmL": 2.0,
                            "m1": m[0], "m2": m[1], "xprev": [0.5, -1.0]})
    return out


def run_direct(spec):
    """Craft the policy memory so that update(v) sees exactly (dx, dg), call the real update."""
    import scico.numpy as snp
    from scico import functional
    from scico.optimize import PGM
    cplx = spec["complex"]
    n = len(spec["dx"])
    dx, dg, xp = (to_np(spec[k], cplx) for k in ("dx", "dg", "xprev"))

    class F(functional.Functional):       # f = 1/2 |x|^2 : grad f = x  (exact)
        has_eval = True

        def __call__(self, x):
            return 0.5 * snp.sum(snp.real(x.conj() * x))
    ss = build_policy(spec["policy"])
    s = PGM(f=F(), g=functional.ZeroFunctional(), L0=1.0, x0=snp.array(xp), step_size=ss)
    s.L = spec["pgmL"]
    v = snp.array(xp + dx)
    ss.xprev = snp.array(xp)
    ss.gradprev = snp.array(np.asarray(s.f.grad(v)) - dg)    # so that grad(v) - gradprev = dg
    if spec["policy"][0] == "abb":
        ss.Lbb1prev, ss.Lbb2prev = spec["m1"], spec["m2"]
    calls = []
    st = instrument(s, calls)
    st["hist"].append((ss.xprev, np.asarray(ss.gradprev)))   # the crafted "preceding argument"
    ss.update(v)
    c = calls[-1]
    c.update(step=None, x_old=s.x, v_old=None, x_new=None)
    return s, c


# ---------------------------------------------------------------- f_quad_approx regenerated from the source

class Unsupported(Exception):
    pass


def fquad_to_coq(repo=None):
    """Fail-closed translation of PGM.f_quad_approx (scico/optimize/_pgm.py) into a Coq definition over
    abstract primitives.  Primitive table (anything else raises Unsupported):
      x - y (arrays)                          -> vsub
      self.f(a)                               -> fval a
      self.f.grad(a)                          -> fgrad a
      snp.sum(snp.real(snp.conj(a) * b))      -> re_ip a b      (Re <a, b>, all entries)
      snp.linalg.norm(a)   [exactly one positional argument, no keywords]
                                              -> norm2 a        (Euclidean norm of the flattened array;
                                                 norm(a, ord) is NOT this primitive: for a 2-D a, ord=2 is the
                                                 spectral norm)
      + * between scalars, e ** 2, the literal 0.5
    Returns (coq_text, ok, message)."""
    import ast
    from vf.common import REPO
    src = (repo or REPO) / "scico" / "optimize" / "_pgm.py"
    tree = ast.parse(src.read_text())
    fn = None
    for node in ast.walk(tree):
        if isinstance(node, ast.ClassDef) and node.name == "PGM":
            for b in node.body:
                if isinstance(b, ast.FunctionDef) and b.name == "f_quad_approx":
                    fn = b
    head = ("(* GENERATED by vf/props/C16.py (fquad_to_coq) from scico/optimize/_pgm.py -- do not edit *)\n"
            "From SV Require Import Base.Num.\nSection Gen.\n  Context {K : Type} `{NK : Num K}.\n  Variable V : Type.\n"
            "  Variables (vsub : V -> V -> V) (fval : V -> K) (fgrad : V -> V) (re_ip : V -> V -> K) (norm2 : V -> K).\n")
    try:
        if fn is None:
            raise Unsupported("PGM.f_quad_approx not found")
        args = [a.arg for a in fn.args.args]
        if args != ["self", "x", "y", "L"] or fn.args.vararg or fn.args.kwarg or fn.args.kwonlyargs:
            raise Unsupported(f"signature {args}")
        kinds = {"x": "V", "y": "V", "L": "K"}
        lets = []

        def attr_path(e):
            parts = []
            while isinstance(e, ast.Attribute):
                parts.append(e.attr)
                e = e.value
            if isinstance(e, ast.Name):
                parts.append(e.id)
                return ".".join(reversed(parts))
            return None

        def call1(e, name):
            """e is a call of `name` with exactly one positional argument and no keywords."""
            return (isinstance(e, ast.Call) and attr_path(e.func) == name and len(e.args) == 1 and not e.keywords)

        def tr(e):
            if isinstance(e, ast.Name):
                if e.id not in kinds:
                    raise Unsupported(f"line {e.lineno}: name {e.id}")
                return e.id, kinds[e.id]
            if isinstance(e, ast.Constant):
                if e.value == 0.5 and isinstance(e.value, float):
                    return "khalf", "K"
                raise Unsupported(f"line {e.lineno}: literal {e.value!r}")
            if isinstance(e, ast.BinOp):
                if isinstance(e.op, ast.Pow):
                    if isinstance(e.right, ast.Constant) and e.right.value == 2 and isinstance(e.right.value, int):
                        a, ka = tr(e.left)
                        if ka == "K":
                            return f"(kmul {a} {a})", "K"
                    raise Unsupported(f"line {e.lineno}: power")
                a, ka = tr(e.left)
                b, kb = tr(e.right)
                if isinstance(e.op, ast.Sub) and ka == kb == "V":
                    return f"(vsub {a} {b})", "V"
                if isinstance(e.op, ast.Add) and ka == kb == "K":
                    return f"(kadd {a} {b})", "K"
                if isinstance(e.op, ast.Mult) and ka == kb == "K":
                    return f"(kmul {a} {b})", "K"
                raise Unsupported(f"line {e.lineno}: operator {type(e.op).__name__} on {ka},{kb}")
            if isinstance(e, ast.Call):
                path = attr_path(e.func)
                if path == "self.f" and len(e.args) == 1 and not e.keywords:
                    a, ka = tr(e.args[0])
                    if ka == "V":
                        return f"(fval {a})", "K"
                if path == "self.f.grad" and len(e.args) == 1 and not e.keywords:
                    a, ka = tr(e.args[0])
                    if ka == "V":
                        return f"(fgrad {a})", "V"
                if path == "snp.linalg.norm":
                    if len(e.args) != 1 or e.keywords:
                        raise Unsupported(f"line {e.lineno}: snp.linalg.norm with an ord/axis argument is not the "
                                          "Euclidean norm of the flattened array")
                    a, ka = tr(e.args[0])
                    if ka == "V":
                        return f"(norm2 {a})", "K"
                if call1(e, "snp.sum") and call1(e.args[0], "snp.real"):
                    m = e.args[0].args[0]
                    if isinstance(m, ast.BinOp) and isinstance(m.op, ast.Mult) and call1(m.left, "snp.conj"):
                        a, ka = tr(m.left.args[0])
                        b, kb = tr(m.right)
                        if ka == kb == "V":
                            return f"(re_ip {a} {b})", "K"
                raise Unsupported(f"line {e.lineno}: call {path}")
            raise Unsupported(f"line {getattr(e, 'lineno', '?')}: {type(e).__name__}")
        body = list(fn.body)
        if body and isinstance(body[0], ast.Expr) and isinstance(body[0].value, ast.Constant) and isinstance(body[0].value.value, str):
            body = body[1:]
        ret = None
        for st in body:
            if ret is not None:
                raise Unsupported(f"line {st.lineno}: statement after return")
            if isinstance(st, ast.Assign) and len(st.targets) == 1 and isinstance(st.targets[0], ast.Name):
                v, kv = tr(st.value)
                nm = st.targets[0].id
                if nm in kinds:
                    raise Unsupported(f"line {st.lineno}: re-assignment of {nm}")
                kinds[nm] = kv
                lets.append(f"let {nm} := {v} in")
            elif isinstance(st, ast.Return) and st.value is not None:
                ret, kr = tr(st.value)
                if kr != "K":
                    raise Unsupported("return value is not a scalar")
            else:
                raise Unsupported(f"line {st.lineno}: statement {type(st).__name__}")
        if ret is None:
            raise Unsupported("no return")
        text = head + "  Definition f_quad_approx_gen (x y : V) (L : K) : K :=\n    " + " ".join(lets) + "\n    " + ret + ".\nEnd Gen.\n"
        return text, True, ""
    except Unsupported as u:
        msg = str(u).replace("*)", "* )")
        text = head + f"  (* UNSUPPORTED: {msg} *)\n  Definition f_quad_approx_gen : unsupported_construct_in_f_quad_approx := tt.\nEnd Gen.\n"
        return text, False, msg


def regen_fquad(ctx=None):
    from vf.common import GEN, write_if_changed
    text, ok, msg = fquad_to_coq()
    write_if_changed(GEN / "C16_fquad.v", text)
    if ctx is not None:
        ctx.obligation(ok, "fail-closed translation of PGM.f_quad_approx (norm must be the Euclidean norm of the flattened array)", msg)
    return ok


# ---------------------------------------------------------------- run

CHECKERS = {
    "bb": "bad_idx (bb_case_ok %s)" % TOL,
    "abb": "bad_idx (abb_case_ok %s)" % TOL,
    "ls": "bad_idx (fun p => ls_case_ok (fst p) (snd p))",
    "rls": "bad_idx (fun p => rl_case_ok %s (fst p) (snd p))" % TOLT,
    "arg": "bad_idx arg_case_ok",
}


CASE_TY = {
    "bb": "(xq * option nat * nat * xq * xq * xq * option nat)",
    "abb": "(Qc * xq * option nat * (option xq * option xq) * nat * xq * xq * xq * xq * option nat * (option xq * option xq))",
    "ls": "(Qc * (Qc * nat * Qc * list trial * Qc))",
    "rls": "(Qc * (Qc * Qc * nat * Qc * Qc * list trial * option (Qc * Qc * Qc)))",
    "arg": "(nat * bool * nat * nat)",
}


def eval_items(ctx, items, name="C16", report=True):
    bad = []
    shard = 250
    for k, lst in items.items():
        if not lst:
            continue
        bodies = []
        for sidx in range(0, len(lst), shard):
            bodies.append("Definition cases : list " + CASE_TY[k] + " := " + coq_list([t[0] for t in lst[sidx:sidx + shard]], ";\n ")
                          + ".\nEval vm_compute in (" + CHECKERS[k] + " cases 0%nat).")
        outs = coq_eval_shards(f"{name}_{k}", HEADER, bodies)
        for si, o in enumerate(outs):
            for idx in parse_eval_nat_list(o):
                unit, what, inp = lst[si * shard + idx][1]
                bad.append((unit, what, inp))
                if report:
                    ctx.violation(unit, what, inp, expected="Coq model coq/theories/C16/StepSize.v evaluated by vm_compute",
                                  observed=inp.get("returned"), oracle="model correspondence")
    return bad


def run(ctx: Ctx):
    import jax
    jax.config.update("jax_enable_x64", True)
    regen_fquad(ctx)
    if not getattr(ctx, "no_proofs", False):
        ctx.proofs()
        try:
            from vf.common import coq_make
            coq_make(["Findings/C16_linesearch_exhaust.vo"])
            ctx.notes.append("Findings/C16_linesearch_exhaust.v compiles: the refutation "
                             "witnesses of the full statements still hold for the model")
        except Broken as b:
            ctx.notes.append("finding no longer reproduces in Coq: " + b.what)
    else:
        from vf.common import coq_make
        coq_make(["theories/C16/Exec.vo"])
    ctx.trusted += [
        "fquad_to_coq (vf/props/C16.py): syntax-directed, fail-closed translation of PGM.f_quad_approx and its primitive "
        "table (snp.linalg.norm with ONE argument = Euclidean norm of the flattened array; sum(real(conj(a)*b)) = Re<a,b>)",
        "IEEE-754 division/comparison table written out in coq/theories/C16/XR.v (signed zeros, inf, nan); "
        "finite float arithmetic is modelled exactly (no rounding/overflow)",
        "f, grad f, prox_g, f_quad_approx and sqrt are Section variables of the line-search models "
        "(arbitrary functions); their values are recorded from the implementation",
        "instance-level wrappers installed by the harness (step_size.update, pgm.f, pgm.f_quad_approx, "
        "pgm.x_step, step_size.g_prox, module global snp of scico.optimize._pgmaux) are transparent",
    ]
    ctx.assumptions += ["exact arithmetic in the model; IEEE rounding of finite values is not modelled "
                        "(comparisons use tolerance 2^-40 where a division or a non-dyadic gamma is involved, "
                        "exact otherwise)",
                        "gamma_u > 0, gamma_d > 0 for positivity of the line-search results"]
    items = {"bb": [], "abb": [], "ls": [], "rls": [], "arg": []}
    steps = ctx.n(6, 10)
    specs = fixed_specs(steps) + shaped_specs(ctx.n(3, 6)) + \
        [gen_spec(ctx.rng, ctx.rng.randint(3, steps)) for _ in range(ctx.n(10, 600))]
    for spec in specs:
        check_traj(ctx, spec, items)
    dspecs = fixed_direct() + [gen_direct(ctx.rng) for _ in range(ctx.n(100, 2000))]
    for spec in dspecs:
        s, c = run_direct(spec)
        check_call(ctx, spec, c, s, items)
        ctx.count("direct update " + spec["policy"][0] + (" complex" if spec["complex"] else ""), spec)
    eval_items(ctx, items)
    ctx.traces = sum(len(v) for v in items.values())
    ctx.notes.append("cases evaluated in Coq: " + ", ".join(f"{k}={len(v)}" for k, v in items.items()))


def replay(ctx: Ctx, rec):
    import jax
    jax.config.update("jax_enable_x64", True)
    inp = rec["input"]
    spec = inp["spec"]
    items = {"bb": [], "abb": [], "ls": [], "rls": [], "arg": []}
    if spec.get("direct"):
        s, c = run_direct(spec)
        viol = [(u, w, None) for u, w in check_call(ctx, spec, c, s, items, report=False)]
    else:
        viol = check_traj(ctx, spec, items, report=False)
    bad = eval_items(ctx, items, name="C16_replay", report=False)
    hit = any(w == rec["what"] and (st is None or st == inp.get("step")) for _, w, st in
              [(v[0], v[1], v[2] if len(v) > 2 else None) for v in viol])
    hit = hit or any(w == rec["what"] and i.get("step") == inp.get("step") for _, w, i in bad)
    return not hit
