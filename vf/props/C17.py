"""C17 -- norm estimates and parameter estimators satisfy their documented inequalities.

Theorems: coq/Properties/C17.v (coq/theories/C17/{Rayleigh,DiagNorm,Estimators}.v).
Correspondence / violation search on the real code:
 (a) operator_norm / power_iteration on diagonal and dense operators with prescribed singular
     values (gap / no gap, real / complex) and on Jacobians of non-linear operators, budgets
     1-200, several keys: estimate <= sigma_max (1 + 1e-9) against numpy.linalg.svd, monotone in
     the budget for the same key, within 1e-6 of sigma_max at budget 200 when the gap is >= 2,
     exactly 0 for the zero operator;
 (b) Diagonal / ScaledIdentity / MatrixOperator .norm for every ord against numpy.linalg.norm of
     the dense matrix and (real diagonals) against the Coq model evaluated by vm_compute;
 (c) the three estimate_parameters with ratio / factor grids: the operator norm estimate they
     used is recorded (module-level operator_norm wrapped from here), the Coq model is evaluated
     on it, and the documented strict inequality is checked against the estimate and against the
     true norm.
"""
from __future__ import annotations

import math

import numpy as np

from vf.common import Ctx, Broken, coq_eval_shards, parse_eval_nat_list, qlit, coq_list, coq_make

HEADER = """From Coq Require Import List Bool ZArith QArith Qcanon.
From SV Require Import Base.Num C17.Estimators C17.DiagNorm C17.Exec.
Import ListNotations.
"""
TOL = "(q 1 1099511627776)"   # 2^-40
ORDS = [None, "fro", "nuc", np.inf, -np.inf, 1, -1, 2, -2]
BAD_ORDS = [0, 3, "foo", -3]


def qc(x):
    return f"(Q2Qc {qlit(x)})"


def oqc(x):
    return "None" if x is None else f"(Some {qc(x)})"


def ord_name(o):
    return "None" if o is None else str(o)


def dy(rng, bits=2, lo=-4, hi=4):
    den = 1 << bits
    return rng.randint(lo * den, hi * den) / den


# ---------------------------------------------------------------- (a) operator_norm

def orth(rs, n, cplx):
    m = rs.standard_normal((n, n))
    if cplx:
        m = m + 1j * rs.standard_normal((n, n))
    q_, _ = np.linalg.qr(m)
    return q_


def gen_opnorm_case(rng):
    kind = rng.choice(["diag", "dense", "dense", "jac", "zero", "diagc", "densec", "densec", "genc", "jacc"])
    n = rng.randint(1, 8)
    m = rng.randint(1, 5)
    gap = rng.random() < 0.5
    k = min(n, m) if kind in ("dense", "densec", "genc", "jacc") else n
    if gap:
        top = rng.choice([1.0, 2.0, 3.5, 8.0])
        sv = [top] + [top * rng.uniform(0.0, 0.5) for _ in range(k - 1)]
    else:
        top = rng.choice([1.0, 2.0, 5.0])
        sv = [top] * min(2, k) + [top * rng.uniform(0.9, 1.0) for _ in range(max(0, k - 2))]
    return {"kind": kind, "n": n, "m": m, "sv": sv, "gap": gap, "seed": rng.randint(0, 10**6),
            "scale_exp": rng.choice([-20, -17, -14, -10, -7, -3, 0, 0, 3, 7, 10, 14, 20]),   # 2^k: 1e-6 .. 1e+6
            "dtype": rng.choice(["c128", "c128", "c64"]),
            "key": rng.randint(0, 1000), "budgets": sorted(set([1, 2, rng.randint(3, 40), rng.choice([60, 100, 150]), 200]))}


def fixed_opnorm_cases():
    """Small- and large-norm operators on every run (norms ~1e-6 .. 1e+6), gap => convergence demanded."""
    out = []
    for i, (kind, k) in enumerate([("diag", -13), ("dense", -15), ("densec", -17), ("diagc", -20), ("jac", -14),
                                   ("dense", 20), ("diag", 14), ("dense", -10)]):
        out.append({"kind": kind, "n": 3, "m": 4, "sv": [3.0, 1.0, 0.5], "gap": True, "seed": 11 + i, "scale_exp": k,
                    "key": 5 + i, "budgets": [1, 7, 200]})
    # complex WIDE (3x8), tall (8x3) and square operators: MatrixOperator complex128 / complex64, a generic
    # LinearOperator C^8 -> C^3, Jacobians of holomorphic non-linear operators with these shapes
    for i, (kind, m, n, dt) in enumerate([("densec", 3, 8, "c128"), ("densec", 3, 8, "c64"), ("genc", 3, 8, "c128"),
                                          ("jacc", 3, 8, "c128"), ("densec", 8, 3, "c128"), ("densec", 4, 4, "c64"),
                                          ("genc", 2, 5, "c64"), ("jacc", 5, 2, "c128"),
                                          # Jacobians of non-linear operators R^n -> C^m (real input, complex output): a
                                          # real-linear map whose norm is that of the stacked real matrix [Re J; Im J]
                                          ("jacrc", 3, 4, "c128"), ("jacrc", 4, 3, "c128")]):
        out.append({"kind": kind, "n": n, "m": m, "sv": [3.0, 1.0, 0.5], "gap": True, "seed": 31 + i, "scale_exp": 0,
                    "dtype": dt, "key": 20 + i, "budgets": [1, 7, 200]})
    return out


def build_op(case):
    import jax
    import scico.numpy as snp
    from scico import linop, operator
    rs = np.random.RandomState(case["seed"])
    kind, n, m = case["kind"], case["n"], case["m"]
    scale = 2.0 ** case.get("scale_exp", 0)
    sv = [t * scale for t in case["sv"]]
    if kind == "zero":
        if rs.rand() < 0.5:
            return linop.Diagonal(snp.zeros(n)), np.zeros((n, n))
        return linop.MatrixOperator(snp.zeros((m, n))), np.zeros((m, n))
    if kind in ("diag", "diagc"):
        d = np.array(sv) * rs.choice([-1.0, 1.0], size=n)
        if kind == "diagc":
            d = d * np.exp(1j * rs.uniform(0, 6.28, size=n))
        d = d[rs.permutation(n)]
        return linop.Diagonal(snp.array(d)), np.diag(d)
    if kind in ("dense", "densec", "genc", "jacc"):
        cplx = kind != "dense"
        k = min(n, m)
        sv = (sv + [sv[-1]] * k)[:k]
        U, V = orth(rs, m, cplx), orth(rs, n, cplx)
        A = (U[:, :k] * np.array(sv)) @ V[:, :k].conj().T
        if cplx:
            A = A.astype(np.complex64 if case.get("dtype") == "c64" else np.complex128)
        Aj = snp.array(A)
        if kind == "genc":
            AjH = snp.array(A.conj().T)
            op = linop.LinearOperator(input_shape=(n,), output_shape=(m,), eval_fn=lambda x: Aj @ x,
                                      adj_fn=lambda y: AjH @ y, input_dtype=A.dtype, output_dtype=A.dtype)
            return op, np.array(A)
        if kind == "jacc":
            x0 = snp.array((rs.uniform(-0.5, 0.5, size=n) + 1j * rs.uniform(-0.5, 0.5, size=n)).astype(A.dtype))
            fn = lambda x: Aj @ (x + 0.5 * x * x)            # holomorphic; Jacobian A diag(1 + x0)
            F = operator.Operator(input_shape=(n,), output_shape=(m,), input_dtype=A.dtype, output_dtype=A.dtype, eval_fn=fn)
            return linop.jacobian(F, x0), np.array(A) @ np.diag(1.0 + np.array(x0))
        return linop.MatrixOperator(Aj), np.array(A)
    if kind == "jacrc":
        k = min(n, 2 * m)
        sv = (sv + [sv[-1]] * k)[:k]
        U, V = orth(rs, 2 * m, False), orth(rs, n, False)
        Rm = (U[:, :k] * np.array(sv)) @ V[:, :k].T            # stacked real form with the prescribed singular values
        A = Rm[:m] + 1j * Rm[m:]
        Aj = snp.array(A)
        x0 = snp.array(rs.uniform(-0.1, 0.1, size=n))
        fn = lambda x: Aj @ (x + 0.5 * x * x)                    # Jacobian A diag(1 + x0), applied to real vectors
        F = operator.Operator(input_shape=(n,), output_shape=(m,), input_dtype=np.float64, output_dtype=np.complex128, eval_fn=fn)
        Jd = A @ np.diag(1.0 + np.array(x0))
        return linop.jacobian(F, x0), np.vstack([Jd.real, Jd.imag])
    if kind == "jac":
        k = n
        U, V = orth(rs, n, False), orth(rs, n, False)
        W = (U * np.array(sv)) @ V.T
        Wj = snp.array(W)
        fn = lambda x: Wj @ snp.sin(x) + (0.5 * scale) * x ** 2
        F = operator.Operator(input_shape=(n,), output_shape=(n,), input_dtype=np.float64, eval_fn=fn)
        x0 = snp.array(rs.uniform(-1, 1, size=n))
        J = linop.jacobian(F, x0)
        dense = np.array(jax.jacfwd(fn)(x0))
        return J, dense
    raise ValueError(kind)


def hermitian_psd_defects(G, dense, rs):
    """G must be A^H A or A A^H of the dense matrix: Hermitian (<Gx,y> = <x,Gy>) and PSD on samples."""
    import scico.numpy as snp
    bad = []
    N = int(np.prod(G.input_shape))
    cplx = np.iscomplexobj(dense)
    dt = dense.dtype

    def rv():
        v = rs.standard_normal(N)
        if cplx:
            v = v + 1j * rs.standard_normal(N)
        return v.astype(dt)
    tol = 1e-4 if dt in (np.complex64, np.float32) else 1e-10
    grams = [g for g in (dense.conj().T @ dense, dense @ dense.conj().T) if g.shape[0] == N]
    for _ in range(2):
        x, y = rv(), rv()
        Gx = np.asarray(G(snp.array(x.reshape(G.input_shape)))).ravel()
        Gy = np.asarray(G(snp.array(y.reshape(G.input_shape)))).ravel()
        sc = np.linalg.norm(Gx) * np.linalg.norm(y) + np.linalg.norm(Gy) * np.linalg.norm(x) + 1e-300
        if not abs(np.vdot(Gx, y) - np.vdot(x, Gy)) <= tol * sc:
            bad.append("power_iteration is run on an operator that is not Hermitian (<Gx,y> != <x,Gy>)")
        q = np.vdot(x, Gx)
        if not (abs(q.imag) <= tol * sc and q.real >= -tol * sc):
            bad.append("power_iteration is run on an operator that is not positive semi-definite")
        if not any(np.max(np.abs(Gx - g @ x)) <= tol * (np.max(np.abs(g @ x)) + 1e-300) for g in grams):
            bad.append("power_iteration is run on an operator that is neither A^H A nor A A^H")
    return sorted(set(bad))


def check_opnorm(ctx, case, report=True):
    import jax
    import scico.linop._util as lu
    from scico.linop import operator_norm
    A, dense = build_op(case)
    smax = float(np.linalg.svd(dense, compute_uv=False)[0]) if dense.size else 0.0
    svals = np.linalg.svd(dense, compute_uv=False)
    single = dense.dtype in (np.complex64, np.float32)
    up, low = (2e-5, 1e-4) if single else (1e-9, 1e-6)
    key = jax.random.PRNGKey(case["key"])
    ests = []
    bad = []
    seen = []
    orig_pi = lu.power_iteration

    def pi(G, *a, **k):
        seen.append(G)
        return orig_pi(G, *a, **k)
    lu.power_iteration = pi
    try:
        for b in case["budgets"]:
            ests.append(float(operator_norm(A, maxiter=b, key=key)))
    finally:
        lu.power_iteration = orig_pi
    if len(seen) != len(case["budgets"]):
        bad.append("operator_norm does not run power_iteration exactly once")
        if report:
            ctx.violation("operator_norm", bad[-1], dict(case))
    elif case["kind"] != "zero":
        for w in hermitian_psd_defects(seen[0], dense, np.random.RandomState(case["seed"] + 1)):
            bad.append(w)
            if report:
                ctx.violation("operator_norm", w, dict(case), "G = A^H A or A A^H (Hermitian PSD)", "see input",
                              "C17_rayleigh_monotone / C17_operator_norm_never_exceeds hypotheses, checked on samples")
    for b, e in zip(case["budgets"], ests):
        inp = dict(case, budget=b, sigma_max=smax)
        if not math.isfinite(e):
            bad.append("operator norm estimate is not finite (nan/inf)")
            if report:
                ctx.violation("operator_norm", bad[-1], inp, f"finite, <= {smax}", str(e), "numpy.linalg.svd")
            continue
        if case["kind"] == "zero":
            if e != 0.0:
                bad.append("estimate for the zero operator is not exactly 0")
                if report:
                    ctx.violation("operator_norm", bad[-1], inp, 0.0, e, "C17_zero_operator")
            continue
        if e == 0.0 and smax > 0:
            bad.append("estimate is exactly 0 for a non-zero operator")
            if report:
                ctx.violation("operator_norm", bad[-1], inp, f"> 0 (sigma_max = {smax})", e,
                              "C17_estimate_zero_only_on_kernel / C17_estimate_positive")
            continue
        if not (e <= smax * (1 + up)):
            bad.append("operator norm estimate exceeds the largest singular value")
            if report:
                ctx.violation("operator_norm", bad[-1], inp, f"<= {smax}", e, "C17_operator_norm_never_exceeds; numpy.linalg.svd")
    for (b1, e1), (b2, e2) in zip(zip(case["budgets"], ests), list(zip(case["budgets"], ests))[1:]):
        if math.isfinite(e1) and math.isfinite(e2) and not (e1 <= e2 * (1 + up) + 1e-300):
            bad.append("estimate decreased when the budget grew (same key)")
            if report:
                ctx.violation("operator_norm", bad[-1], dict(case, b1=b1, b2=b2), f">= {e1}", e2, "C17_rayleigh_monotone")
    if case["kind"] != "zero" and len(svals) >= 1 and smax > 0:
        second = float(svals[1]) if len(svals) > 1 else 0.0
        if second <= 0.5 * smax and not (ests[-1] >= smax * (1 - low)):
            bad.append("estimate at budget 200 not within 1e-6 (1e-4 in single precision) of sigma_max although sigma_2 <= sigma_1/2")
            if report:
                ctx.violation("operator_norm", bad[-1], dict(case, sigma_max=smax), smax, ests[-1], "numpy.linalg.svd")
    return bad


# ---------------------------------------------------------------- (b) norm methods

def gen_norm_case(rng):
    kind = rng.choice(["diag", "diag", "diag2d", "diagc", "sid", "sid", "matrix", "matrixc", "bcast", "block"])
    c = {"kind": kind}
    if kind in ("diag", "diagc", "bcast"):
        n = rng.randint(1, 5)
        c["d"] = [dy(rng) for _ in range(n)]
        if kind == "diagc":
            c["d"] = [[dy(rng), dy(rng)] for _ in range(n)]
        if kind == "bcast":
            c["rep"] = rng.randint(2, 3)
    elif kind == "diag2d":
        c["d"] = [[dy(rng) for _ in range(rng.choice([2, 3]))] for _ in range(2)]
        c["d"] = [r[:len(c["d"][0])] + [0.5] * (len(c["d"][0]) - len(r)) for r in c["d"]]
    elif kind == "sid":
        c["s"] = dy(rng)
        c["shape"] = [rng.randint(1, 3), rng.randint(1, 3)]
    elif kind == "block":
        c["blocks"] = [[dy(rng) for _ in range(rng.randint(1, 3))] for _ in range(2)]
    else:
        m, n = rng.randint(1, 4), rng.randint(1, 4)
        if kind == "matrixc":
            c["A"] = [[[dy(rng), dy(rng)] for _ in range(n)] for _ in range(m)]
        else:
            c["A"] = [[dy(rng) for _ in range(n)] for _ in range(m)]
    return c


def build_norm_op(c):
    import scico.numpy as snp
    from scico import linop
    k = c["kind"]
    if k in ("diag", "diag2d"):
        d = np.array(c["d"], dtype=np.float64)
        return linop.Diagonal(snp.array(d)), np.diag(d.ravel()), d.ravel()
    if k == "diagc":
        d = np.array([complex(a, b) for a, b in c["d"]])
        return linop.Diagonal(snp.array(d)), np.diag(d), None
    if k == "bcast":
        d = np.array(c["d"], dtype=np.float64)
        full = np.broadcast_to(d, (c["rep"], len(d))).ravel()
        return linop.Diagonal(snp.array(d), input_shape=(c["rep"], len(d))), np.diag(full), full
    if k == "block":
        bl = [np.array(b, dtype=np.float64) for b in c["blocks"]]
        full = np.concatenate(bl)
        return linop.Diagonal(snp.blockarray(bl)), np.diag(full), full
    if k == "sid":
        N = c["shape"][0] * c["shape"][1]
        return (linop.ScaledIdentity(c["s"], tuple(c["shape"]), input_dtype=np.float64), c["s"] * np.eye(N), None)
    if k == "matrix":
        A = np.array(c["A"], dtype=np.float64)
        return linop.MatrixOperator(snp.array(A)), A, None
    if k == "matrixc":
        A = np.array([[complex(a, b) for a, b in r] for r in c["A"]])
        return linop.MatrixOperator(snp.array(A)), A, None
    raise ValueError(k)


def unit_norm(k):
    return {"sid": "ScaledIdentity.norm", "matrix": "MatrixOperator.norm", "matrixc": "MatrixOperator.norm"}.get(k, "Diagonal.norm")


def check_norm(ctx, c, items, report=True):
    op, dense, dvec = build_norm_op(c)
    unit = unit_norm(c["kind"])
    bad = []
    for oi, o in enumerate(ORDS + BAD_ORDS):
        inp = dict(c, ord=ord_name(o))
        valid = oi < len(ORDS)
        try:
            v = op.norm(o)
            raised = None
        except ValueError:
            v, raised = None, "ValueError"
        except Exception as e:           # numpy raises ValueError for matrices as well
            v, raised = None, type(e).__name__
        if not valid:
            if raised is None:
                bad.append("invalid ord accepted")
                if report:
                    ctx.violation(unit, bad[-1], inp, "ValueError", str(v), "C17_invalid_ord_raises")
            continue
        want = float(np.linalg.norm(dense, o))
        if raised is not None:
            bad.append("supported ord raised " + raised)
            if report:
                ctx.violation(unit, bad[-1], inp, want, raised, "numpy.linalg.norm of the dense matrix")
            continue
        try:
            vf = float(v)
        except Exception:
            bad.append("norm is not a scalar")
            if report:
                ctx.violation(unit, bad[-1], inp, want, str(v)[:120], "numpy.linalg.norm of the dense matrix")
            continue
        if not abs(vf - want) <= 1e-12 * max(1.0, abs(want)):
            bad.append("norm differs from the matrix norm of the dense matrix")
            if report:
                ctx.violation(unit, bad[-1], inp, want, vf, "numpy.linalg.norm of the dense matrix")
            continue
        # Coq model (real diagonals): exact for max/min/sum, tolerance for the square root
        if c["kind"] in ("diag", "diag2d") and items is not None:
            items["diag"].append((f"({oi}%nat, {coq_list([qc(t) for t in dvec])}, {oqc(vf)})",
                                  (unit, "norm differs from the Coq model", inp)))
        if c["kind"] == "sid" and items is not None:
            N = c["shape"][0] * c["shape"][1]
            items["sid"].append((f"({oi}%nat, {qc(c['s'])}, {N}%nat, {oqc(vf)})",
                                 (unit, "norm differs from the Coq model", inp)))
    if c["kind"] in ("diag", "diag2d", "sid") and items is not None:
        # the invalid ord in the model
        if c["kind"] == "sid":
            items["sid"].append((f"(9%nat, {qc(c['s'])}, 1%nat, None)", (unit, "model: invalid ord", dict(c, ord="invalid"))))
        else:
            items["diag"].append((f"(9%nat, {coq_list([qc(t) for t in dvec])}, None)", (unit, "model: invalid ord", dict(c, ord="invalid"))))
    return bad


# ---------------------------------------------------------------- (c) estimators

FACTORS = ["default", None, 0.5, 0.9, 1.0, 2.0, 1.5]
RATIOS = ["default", 0.5, 2.0, 4.0, 0.25]


def gen_est_case(rng):
    kind = rng.choice(["pdhg", "pdhg", "pdhg_nl", "padmm", "padmm", "nlpadmm"])
    n, m = rng.randint(1, 4), rng.randint(1, 4)
    c = {"kind": kind, "factor": rng.choice(FACTORS), "ratio": rng.choice(RATIOS), "key": rng.randint(0, 1000),
         "maxiter": rng.choice(["default", 100, 60, 5, 1, 30, 30, 10, 3]),
         "scale_exp": rng.choice([0, 0, 0, -15, -10, 12, -18]),
         "A": [[dy(rng, 1, -2, 2) for _ in range(n)] for _ in range(m)]}
    if all(t == 0 for r in c["A"] for t in r):
        c["A"][0][0] = 1.0
    if kind in ("pdhg", "padmm") and rng.random() < 0.35:
        c["Ai"] = [[dy(rng, 1, -2, 2) for _ in range(n)] for _ in range(m)]
    if kind == "padmm":
        nb = rng.randint(1, 3)
        c["B"] = None if rng.random() < 0.35 else [[dy(rng, 1, -2, 2) for _ in range(nb)] for _ in range(m)]
        if c["B"] is not None and all(t == 0 for r in c["B"] for t in r):
            c["B"][0][0] = -1.0
    if kind in ("pdhg_nl", "nlpadmm"):
        c["x"] = [dy(rng, 2, -1, 1) for _ in range(n)]
        c["A"] = [[dy(rng, 1, -2, 2) for _ in range(n)] for _ in range(n)]
        if all(t == 0 for r in c["A"] for t in r):
            c["A"][0][0] = 1.0
    return c


def fixed_est_cases():
    out = []
    for kind in ("pdhg", "padmm", "nlpadmm", "pdhg_nl"):
        for f in FACTORS:
            c = {"kind": kind, "factor": f, "ratio": "default", "key": 1, "maxiter": "default" if f == "default" else 30,
                 "A": [[1.0, 2.0], [0.0, 1.0]], "x": [0.5, -0.25]}
            if kind == "padmm":
                c["B"] = None
            out.append(c)
    for r in RATIOS:
        out.append({"kind": "pdhg", "factor": "default", "ratio": r, "key": 2, "maxiter": 30, "A": [[2.0, 0.0], [0.0, 0.5]]})
    # explicit B, non-default budgets (B far from converged at 1 / 3 iterations), small-norm operators
    Bm = [[2.0, 1.0, 0.0], [1.0, 2.0, 1.0], [0.0, 1.0, 1.5]]
    Am = [[1.0, 2.0, 0.5], [0.0, 1.0, -1.0], [1.5, 0.0, 1.0]]
    for mi, f, k in ((1, "default", 0), (3, "default", 0), (1, None, 0), (3, 2.0, -15), (1500, "default", 0), (7, "default", -18)):
        out.append({"kind": "padmm", "factor": f, "ratio": "default", "key": 3, "maxiter": mi, "A": Am, "B": Bm, "scale_exp": k})
    # complex wide (2x4), tall (4x2) and square operators for the linear estimators
    Aw, Awi = [[1.0, 2.0, 0.5, -1.0], [0.0, 1.0, -1.0, 2.0]], [[0.5, -1.0, 2.0, 0.0], [1.5, 0.0, 1.0, -0.5]]
    At, Ati = [list(r) for r in zip(*Aw)], [list(r) for r in zip(*Awi)]
    Bw, Bwi = [[1.0, 0.0, 2.0], [0.5, -1.0, 1.0]], [[0.0, 1.0, -0.5], [2.0, 0.5, 0.0]]
    for kind in ("pdhg", "padmm"):
        for Ar, Ai in ((Aw, Awi), (At, Ati), ([[1.0, 2.0], [0.0, 1.0]], [[0.5, 0.0], [1.0, -1.0]])):
            c = {"kind": kind, "factor": "default", "ratio": "default", "key": 6, "maxiter": 40, "A": Ar, "Ai": Ai}
            if kind == "padmm":
                c["B"], c["Bi"] = (Bw, Bwi) if len(Ar) == 2 and len(Ar[0]) == 4 else (None, None)
            out.append(c)
    for kind in ("pdhg", "pdhg_nl", "nlpadmm", "padmm"):
        for mi, k in ((1, 0), (3, -15), ("default", -17)):
            c = {"kind": kind, "factor": "default", "ratio": 2.0, "key": 4, "maxiter": mi, "A": Am, "x": [0.5, -0.25, 0.75],
                 "scale_exp": k}
            if kind == "padmm":
                c["B"] = None
            out.append(c)
    return out


def run_est(c):
    """Call the real estimator with the module-level operator_norm wrapped; return the outputs, the
    record of every operator_norm call (operator, positional / keyword arguments, result), the
    dense matrices of the operators whose norm must have been estimated, the key and the original
    operator_norm."""
    import jax
    import scico.numpy as snp
    from scico import linop, operator, function
    import scico.optimize._primaldual as mpd
    import scico.optimize._padmm as mpa
    from scico.optimize import PDHG, ProximalADMM, NonLinearPADMM
    rec = []
    key = jax.random.PRNGKey(c["key"])
    kw = {"key": key}
    if c["maxiter"] != "default":
        kw["maxiter"] = c["maxiter"]
    if c["factor"] != "default":
        kw["factor"] = c["factor"]
    scale = 2.0 ** c.get("scale_exp", 0)
    A = np.array(c["A"], dtype=np.float64) * scale
    if c.get("Ai") is not None:                       # complex operator (wide / tall / square)
        A = A + 1j * scale * np.array(c["Ai"], dtype=np.float64)
    mods = (mpd, mpa)
    origs = [mod.operator_norm for mod in mods]

    def wrap(orig):
        def w(J, *args, **kwargs):
            r = orig(J, *args, **kwargs)
            rec.append({"J": J, "args": args, "kwargs": dict(kwargs), "est": float(r)})
            return r
        return w
    for mod, o in zip(mods, origs):
        mod.operator_norm = wrap(o)
    ops = None
    try:
        if c["kind"] == "pdhg":
            if c["ratio"] != "default":
                kw["ratio"] = c["ratio"]
            Cop = linop.MatrixOperator(snp.array(A))
            out = PDHG.estimate_parameters(Cop, **kw)
            dense, ops = [A], [Cop]
        elif c["kind"] == "pdhg_nl":
            if c["ratio"] != "default":
                kw["ratio"] = c["ratio"]
            Aj = snp.array(A)
            fn = lambda x: Aj @ snp.sin(x) + scale * x ** 2
            F = operator.Operator(input_shape=(A.shape[1],), output_shape=(A.shape[0],), input_dtype=np.float64, eval_fn=fn)
            x = snp.array(np.array(c["x"][:A.shape[1]]))
            out = PDHG.estimate_parameters(F, x=x, **kw)
            dense = [np.array(jax.jacfwd(fn)(x))]
        elif c["kind"] == "padmm":
            Aop = linop.MatrixOperator(snp.array(A))
            if c["B"] is None:
                out = ProximalADMM.estimate_parameters(Aop, **kw)
                dense, ops = [A, -np.eye(A.shape[0])], [Aop, None]
            else:
                B = np.array(c["B"], dtype=np.float64) * scale
                if c.get("Bi") is not None:
                    B = B + 1j * scale * np.array(c["Bi"], dtype=np.float64)
                Bop = linop.MatrixOperator(snp.array(B))
                out = ProximalADMM.estimate_parameters(Aop, Bop, **kw)
                dense, ops = [A, B], [Aop, Bop]
        else:
            Aj = snp.array(A)
            n = A.shape[1]
            fn = lambda x, z: Aj @ snp.sin(x) - (2.0 * scale) * z + (0.5 * scale) * z ** 2
            H = function.Function(((n,), (n,)), output_shape=(A.shape[0],), eval_fn=fn, input_dtypes=np.float64)
            x = snp.array(np.array(c["x"][:n]))
            z = snp.array(np.array(c["x"][:n])[::-1].copy())
            out = NonLinearPADMM.estimate_parameters(H, x=x, z=z, **kw)
            dense = [np.array(jax.jacfwd(fn, 0)(x, z)), np.array(jax.jacfwd(fn, 1)(x, z))]
    finally:
        for mod, o in zip(mods, origs):
            mod.operator_norm = o
    return [float(t) for t in out], rec, dense, ops, key, origs[0]


def check_calls(c, rec, dense, ops, key, orig_norm, V, inp):
    """Every operator_norm call must be made on the right operator with the budget and key the
    estimator was given; where cheap, the estimate is recomputed independently (same key)."""
    import scico.numpy as snp
    from scico import linop
    want_mi = 100 if c["maxiter"] == "default" else c["maxiter"]
    for i, (r, D) in enumerate(zip(rec, dense)):
        nm = "first" if i == 0 else "second"
        mi = r["kwargs"].get("maxiter", r["args"][0] if len(r["args"]) > 0 else 100)
        ky = r["kwargs"].get("key", r["args"][1] if len(r["args"]) > 1 else None)
        if mi != want_mi:
            V(f"{nm} operator_norm call made with maxiter different from the requested budget",
              dict(inp, call=i), want_mi, mi, "documentation of estimate_parameters (maxiter)")
        if ky is None or not np.array_equal(np.asarray(ky), np.asarray(key)):
            V(f"{nm} operator_norm call not made with the given key", dict(inp, call=i))
        J = r["J"]
        if ops is not None and ops[i] is not None and J is not ops[i]:
            V(f"{nm} operator_norm call not made on the operator passed to the estimator", dict(inp, call=i))
        t = np.array([1.0, -0.5, 0.25, 2.0, -1.5, 0.75, -2.0, 1.25][:D.shape[1]]).astype(D.dtype)
        got = np.asarray(J(snp.array(t)))
        if not np.max(np.abs(got - D @ t)) <= 1e-10 * max(np.max(np.abs(D @ t)), 1e-300):
            V(f"{nm} operator_norm call made on a different operator (Jacobian / B)", dict(inp, call=i))
        if want_mi <= 100:
            own = float(orig_norm(linop.MatrixOperator(snp.array(D)), maxiter=want_mi, key=key))
            if not abs(own - r["est"]) <= 1e-9 * max(own, r["est"]):
                V(f"{nm} norm estimate differs from operator_norm(op, maxiter, key) recomputed by the harness",
                  dict(inp, call=i), own, r["est"], "independent recomputation with the same key and budget")


def check_est(ctx, c, items, report=True):
    out, calls, dense, ops, key, orig_norm = run_est(c)
    rec = [r["est"] for r in calls]
    true = [float(np.linalg.norm(D, 2)) for D in dense]
    bad = []
    fac = c["factor"]
    fq = "(Some " + qc(1.01 if fac == "default" else fac) + ")" if fac is not None else "None"
    pd = c["kind"].startswith("pdhg")
    unit = {"pdhg": "PDHG.estimate_parameters", "pdhg_nl": "PDHG.estimate_parameters",
            "padmm": "ProximalADMM.estimate_parameters", "nlpadmm": "NonLinearPADMM.estimate_parameters"}[c["kind"]]

    def V(what, inp, expected=None, observed=None, oracle=""):
        bad.append(what)
        if report:
            ctx.violation(unit, what, inp, expected, observed, oracle)
    inp = dict(c, estimates=rec, true_norms=true, returned=out)
    if len(rec) != (1 if pd else 2):
        V("unexpected number of operator_norm evaluations", inp)
        return bad
    check_calls(c, calls, dense, ops, key, orig_norm, V, inp)
    for e, t in zip(rec, true):
        if not e <= t * (1 + 1e-9):
            V("norm estimate used by the estimator exceeds the true norm", inp, t, e, "numpy svd")
        if not math.isfinite(e):
            V("norm estimate used by the estimator is not finite (nan/inf)", inp, t, str(e), "numpy svd")
        if e == 0.0 and t > 0:
            V("norm estimate used by the estimator is exactly 0 for a non-zero operator", inp, f"> 0 (true {t})", e,
              "C17_estimate_positive")
    if all(t > 0 for t in true) and not all(math.isfinite(v) and v > 0 for v in out):
        V("estimated parameters are not finite and positive for a non-zero operator", inp, "finite > 0", out)
    if any(not (e > 0) for e in rec):          # zero or NaN estimates: reported above
        return bad
    if pd:
        tau, sigma = out
        ratio = 1.0 if c["ratio"] == "default" else c["ratio"]
        est, cn = rec[0], true[0]
        if items is not None and all(map(math.isfinite, [est, tau, sigma])):
            items["pdhg"].append((f"({fq}, {qc(ratio)}, {qc(est)}, {qc(tau)}, {qc(sigma)})",
                                  (unit, "returned (tau, sigma) differ from the Coq model", inp)))
        if not sigma == ratio * tau:
            V("sigma is not ratio * tau", inp, ratio * tau, sigma)
        if fac == "default":
            # the documented strict inequality, for the default safety factor
            if not tau * sigma * est * est < 1.0:
                V("tau*sigma*||C||^2 < 1 violated w.r.t. the norm estimate for the default factor",
                  dict(inp, product=tau * sigma * est * est), "< 1", tau * sigma * est * est,
                  "documentation of PDHG.estimate_parameters; C17_pdhg_default_strict")
            elif est >= 0.996 * cn:
                # 1.01 est^2 > ||C||^2 as soon as the estimate is within 0.4% (C17_pdhg_true_norm_iff)
                if not tau * sigma * cn * cn < 1.0:
                    V("tau*sigma*||C||^2 < 1 violated w.r.t. the true norm although the estimate is accurate",
                      dict(inp, product=tau * sigma * cn * cn), "< 1", tau * sigma * cn * cn, "numpy svd")
            else:
                k = "estimate more than 0.4% below the true norm (true-norm inequality not demanded)"
                ctx.dist[k] = ctx.dist.get(k, 0) + 1
        if fac is None and not abs(tau * sigma * est * est - 1.0) <= 1e-12:
            V("factor=None: tau*sigma*est^2 is not 1", inp, 1.0, tau * sigma * est * est)
    else:
        mu, nu = out
        if items is not None and all(map(math.isfinite, rec + [mu, nu])):
            items["padmm"].append((f"({fq}, {qc(rec[0])}, {qc(rec[1])}, {qc(mu)}, {qc(nu)})",
                                   (unit, "returned (mu, nu) differ from the Coq model", inp)))
        if fac is None:
            if not (mu == rec[0] ** 2 and nu == rec[1] ** 2):
                V("factor=None does not return the bare squared estimates", inp, [rec[0] ** 2, rec[1] ** 2], out)
        if fac == "default":
            for nm, val, e, t in (("mu", mu, rec[0], true[0]), ("nu", nu, rec[1], true[1])):
                if not val > e * e:
                    V(f"{nm} > ||.||^2 violated w.r.t. the norm estimate for the default factor", inp, f"> {e*e}", val,
                      "C17_padmm_strict_iff")
                elif e >= 0.996 * t:
                    if not val > t * t:
                        V(f"{nm} > ||.||^2 violated w.r.t. the true norm although the estimate is accurate", inp,
                          f"> {t*t}", val, "numpy svd")
                else:
                    k = "estimate more than 0.4% below the true norm (true-norm inequality not demanded)"
                    ctx.dist[k] = ctx.dist.get(k, 0) + 1
    return bad


# ---------------------------------------------------------------- run

CHECKERS = {"diag": ("bad_idx (diag_case_ok %s)" % TOL, "(nat * list Qc * option Qc)"),
            "sid": ("bad_idx (sid_case_ok %s)" % TOL, "(nat * Qc * nat * option Qc)"),
            "padmm": ("bad_idx (padmm_case_ok %s)" % TOL, "(option Qc * Qc * Qc * Qc * Qc)"),
            "pdhg": ("bad_idx (pdhg_case_ok %s)" % TOL, "(option Qc * Qc * Qc * Qc * Qc)")}


def eval_items(ctx, items, name="C17", report=True):
    bad = []
    shard = 300
    for k, lst in items.items():
        if not lst:
            continue
        bodies = []
        for s0 in range(0, len(lst), shard):
            bodies.append(f"Definition cases : list {CHECKERS[k][1]} := " + coq_list([t[0] for t in lst[s0:s0 + shard]], ";\n ")
                          + ".\nEval vm_compute in (" + CHECKERS[k][0] + " cases 0%nat).")
        outs = coq_eval_shards(f"{name}_{k}", HEADER, bodies)
        for si, o in enumerate(outs):
            for idx in parse_eval_nat_list(o):
                unit, what, inp = lst[si * shard + idx][1]
                bad.append((unit, what, inp))
                if report:
                    ctx.violation(unit, what, inp, expected="Coq model (coq/theories/C17) evaluated by vm_compute",
                                  observed=inp.get("returned"), oracle="model correspondence")
    return bad


def new_items():
    return {"diag": [], "sid": [], "padmm": [], "pdhg": []}


def run(ctx: Ctx):
    import jax
    jax.config.update("jax_enable_x64", True)
    if not getattr(ctx, "no_proofs", False):
        ctx.proofs()
    else:
        coq_make(["theories/C17/Exec.vo"])
    ctx.trusted += [
        "numpy.linalg.svd / numpy.linalg.norm as the reference for true operator norms and dense matrix norms",
        "abstract real inner-product space (class InnerSpace): C^n enters with Re<.,.>; the random start vector, "
        "JAX arithmetic and the adjoint A.H of each operator are the implementation's",
        "MatrixOperator.norm delegates to scico.numpy.linalg.norm (compared with NumPy only)",
        "module-level name operator_norm of scico.optimize._primaldual / _padmm wrapped by the harness to record the estimate",
    ]
    ctx.assumptions += ["exact arithmetic in the models; float results compared with tolerance 2^-40 (sqrt, products) "
                        "or exactly (max/min/sum of dyadics)",
                        "convergence of the power iteration is shown as monotone + bounded, checked numerically "
                        "(within 1e-6 at budget 200 when sigma_2 <= sigma_1/2), not as a limit theorem"]
    items = new_items()
    import time
    t0 = time.time()
    ocases = fixed_opnorm_cases() + [gen_opnorm_case(ctx.rng) for _ in range(ctx.n(6, 500))]
    for c in ocases:
        check_opnorm(ctx, c)
        ctx.count("operator_norm " + c["kind"] + (" gap" if c["gap"] else " no-gap"), c, nontrivial=c["kind"] != "zero")
    t1 = time.time()
    for i in range(ctx.n(60, 1000)):
        c = gen_norm_case(ctx.rng)
        check_norm(ctx, c, items)
        ctx.count("norm " + c["kind"], c)
    t2 = time.time()
    ecases = fixed_est_cases() + [gen_est_case(ctx.rng) for _ in range(ctx.n(25, 600))]
    for c in ecases:
        check_est(ctx, c, items)
        ctx.count("estimate_parameters " + c["kind"] + " factor=" + str(c["factor"]), c)
    t3 = time.time()
    eval_items(ctx, items)
    ctx.notes.append("stage seconds: operator_norm %.1f, norm methods %.1f, estimators %.1f, Coq evaluation %.1f"
                     % (t1 - t0, t2 - t1, t3 - t2, time.time() - t3))
    ctx.traces = sum(len(v) for v in items.values())
    ctx.notes.append("cases evaluated in Coq: " + ", ".join(f"{k}={len(v)}" for k, v in items.items()))


def replay(ctx: Ctx, rec):
    import jax
    jax.config.update("jax_enable_x64", True)
    unit, inp, what = rec["unit"], rec["input"], rec["what"]
    items = new_items()
    if unit == "operator_norm":
        c = {k: inp[k] for k in ("kind", "n", "m", "sv", "gap", "seed", "key", "budgets", "scale_exp", "dtype") if k in inp}
        return what not in check_opnorm(ctx, c, report=False)
    if unit.endswith(".norm"):
        c = {k: v for k, v in inp.items() if k != "ord"}
        bad = check_norm(ctx, c, items, report=False)
        bad += [w for _, w, i in eval_items(ctx, items, "C17_replay", report=False) if i.get("ord") == inp.get("ord")]
        return what not in bad
    c = {k: v for k, v in inp.items() if k not in ("estimates", "true_norms", "returned", "product", "call")}
    bad = check_est(ctx, c, items, report=False)
    bad += [w for _, w, _ in eval_items(ctx, items, "C17_replay", report=False)]
    return what not in bad
