"""C18 -- scipy.optimize wrappers are transparent to shape, dtype and options.

Theorems: coq/Properties/C18.v (models coq/theories/C18/{Containers,Minimize,KwTable,KwCheck,Exec}.v).
Tie to the code (every run, from /repo's working tree):
 (1) keyword table coq/gen/C18_kw.v regenerated from inspect.signature + ast data flow of
     scico.solver.minimize / minimize_scalar; theorem by vm_compute over that finite table;
 (2) the table validated dynamically: the real wrappers are called with each keyword set to a
     value that changes SciPy's behaviour, a recording scipy.optimize stands in for spopt;
 (3) differential runs of scico.solver.minimize against a direct SciPy call on the flattened
     real problem (independent numpy objective + analytic gradient);
 (4) _split_real_imag/_join_real_imag/ravel/reshape of the implementation compared with the
     Coq model inside Coq on generated arrays.
"""
from __future__ import annotations

import ast
import inspect
import textwrap

import numpy as np

from vf.common import (Ctx, Broken, GEN, coq_eval_shards, parse_eval_nat_list, qlit, coq_list,
                       write_if_changed)

GRAD_FREE = ["Nelder-Mead", "Powell"]
KNOWN_DROPPED = {("minimize", k) for k in ("hess", "hessp", "bounds", "constraints", "tol", "callback")}


# ------------------------------------------------------------------ static keyword table

def _names(node):
    return {n.id for n in ast.walk(node) if isinstance(n, ast.Name)}


def analyse_wrapper(fn, sp_name):
    """Data-flow classification of every parameter of `fn` (a wrapper around spopt.<sp_name>):
    ("F", [scipy parameters it reaches]) | ("R",) raised on | ("D",) dropped."""
    import scipy.optimize as spo
    params = list(inspect.signature(fn).parameters)
    tree = ast.parse(textwrap.dedent(inspect.getsource(fn)))
    fdef = tree.body[0]
    if not isinstance(fdef, ast.FunctionDef):
        raise Broken(f"C18: cannot parse {fn.__name__}")
    if [a.arg for a in fdef.args.posonlyargs + fdef.args.args + fdef.args.kwonlyargs] != params \
            or fdef.args.vararg or fdef.args.kwarg:
        raise Broken(f"C18: signature of {fn.__name__} not understood (varargs / mismatch)")
    taint = {p: {p} for p in params}

    def tnt(node):
        s = set()
        for n in _names(node):
            s |= taint.get(n, set())
        return s
    changed = True
    while changed:                       # flow- and scope-insensitive closure (over-approximates)
        changed = False

        def upd(name, s):
            nonlocal changed
            old = taint.get(name, set())
            if not s <= old:
                taint[name] = old | s
                changed = True
        for n in ast.walk(fdef):
            if isinstance(n, ast.Assign):
                for t in n.targets:
                    for nm in _names(t):
                        upd(nm, tnt(n.value))
            elif isinstance(n, (ast.AnnAssign, ast.AugAssign)) and n.value is not None:
                for nm in _names(n.target):
                    upd(nm, tnt(n.value))
            elif isinstance(n, ast.FunctionDef) and n is not fdef:
                s = set()
                for b in n.body:
                    s |= tnt(b)
                upd(n.name, s)
            elif isinstance(n, ast.NamedExpr):
                upd(n.target.id, tnt(n.value))
    calls = [n for n in ast.walk(fdef) if isinstance(n, ast.Call)
             and isinstance(n.func, ast.Attribute) and n.func.attr == sp_name
             and isinstance(n.func.value, ast.Name) and n.func.value.id == "spopt"]
    if len(calls) != 1:
        raise Broken(f"C18: expected exactly one spopt.{sp_name} call in {fn.__name__}, found {len(calls)}")
    call = calls[0]
    sp_params = list(inspect.signature(getattr(spo, sp_name)).parameters)
    reach = {p: [] for p in params}
    for i, a in enumerate(call.args):
        if isinstance(a, ast.Starred):
            raise Broken("C18: starred argument in the spopt call")
        for p in tnt(a):
            reach[p].append(sp_params[i])
    for kw in call.keywords:
        if kw.arg is None:
            raise Broken("C18: **kwargs in the spopt call")
        for p in tnt(kw.value):
            reach[p].append(kw.arg)
    raised = set()
    for n in ast.walk(fdef):
        if isinstance(n, ast.If) and any(isinstance(m, ast.Raise) for b in n.body + n.orelse for m in ast.walk(b)):
            raised |= tnt(n.test)
        if isinstance(n, ast.Assert):
            raised |= tnt(n.test)
    # parameters handed over *unmodified*: the argument expression is the bare parameter name, the
    # parameter is never re-bound in the wrapper, and no enclosing nested function shadows it
    stored = {n.id for n in ast.walk(fdef) if isinstance(n, ast.Name) and isinstance(n.ctx, (ast.Store, ast.Del))}
    shadow = set()
    for n in ast.walk(fdef):
        if isinstance(n, (ast.FunctionDef, ast.Lambda)) and n is not fdef and any(m is call for m in ast.walk(n)):
            a = n.args
            shadow |= {x.arg for x in a.posonlyargs + a.args + a.kwonlyargs} | \
                ({a.vararg.arg} if a.vararg else set()) | ({a.kwarg.arg} if a.kwarg else set())
    ident = set()
    for i, a in enumerate(call.args):
        if isinstance(a, ast.Name) and a.id in params and a.id not in stored | shadow:
            ident.add(a.id)
    for kw in call.keywords:
        if isinstance(kw.value, ast.Name) and kw.value.id in params and kw.value.id not in stored | shadow:
            ident.add(kw.value.id)
    analyse_wrapper.identity[fn.__name__] = sorted(ident)
    table = []
    for p in params:
        if reach[p]:
            table.append((p, "F", sorted(set(reach[p]))))
        elif p in raised:
            table.append((p, "R", []))
        else:
            table.append((p, "D", []))
    return table


analyse_wrapper.identity = {}


def static_table():
    from scico import solver
    return {"minimize": analyse_wrapper(solver.minimize, "minimize"),
            "minimize_scalar": analyse_wrapper(solver.minimize_scalar, "minimize_scalar")}


def mutable_globals_read():
    """Module-level mutable objects (dict/list/set/bytearray) of scico.solver that minimize /
    minimize_scalar can read, directly or through module-level helper functions they call.  The
    Coq model of the wrappers is a pure function of the arguments: any such object is hidden
    state through which one call could influence the next."""
    import types
    from scico import solver
    seen, todo, hits = set(), ["minimize", "minimize_scalar"], []
    while todo:
        name = todo.pop()
        if name in seen:
            continue
        seen.add(name)
        fn = getattr(solver, name, None)
        if not isinstance(fn, types.FunctionType) or fn.__module__ != solver.__name__:
            continue
        tree = ast.parse(textwrap.dedent(inspect.getsource(fn)))
        for nm in sorted(_names(tree)):
            if nm in vars(solver):
                v = vars(solver)[nm]
                if isinstance(v, (dict, list, set, bytearray)):
                    hits.append(f"{name} -> {nm} ({type(v).__name__})")
                elif isinstance(v, types.FunctionType) and v.__module__ == solver.__name__:
                    todo.append(nm)
    return sorted(set(hits))


def table_to_coq(tab):
    ents = []
    for f, rows in tab.items():
        for p, d, ts in rows:
            if d == "F":
                dd = "(Forwarded " + coq_list([f'"{t}"' for t in ts]) + ")"
            else:
                dd = "Rejected" if d == "R" else "Dropped"
            ents.append(f'mk_kw "{f}" "{p}" {dd}')
    idt = [f'("{f}", "{p}")' for f in tab for p in analyse_wrapper.identity.get(f, [])]
    return ("(* generated by vf/props/C18.py from scico/solver.py -- do not edit *)\n"
            "From Coq Require Import List String.\nFrom SV Require Import C18.KwTable.\n"
            "Import ListNotations.\nOpen Scope string_scope.\n"
            "Definition kw_table : list kwent :=\n " + coq_list(ents, ";\n  ") + ".\n"
            "(* parameters whose value reaches SciPy unmodified (bare name at the call, never re-bound) *)\n"
            "Definition kw_identity : list (string * string) :=\n " + coq_list(idt, ";\n  ") + ".\n")


def gradient_methods():
    """The wrapper's own list of gradient-based methods, read from the source."""
    from scico import solver
    tree = ast.parse(textwrap.dedent(inspect.getsource(solver.minimize)))
    for n in ast.walk(tree):
        if isinstance(n, ast.Compare) and isinstance(n.left, ast.Name) and n.left.id == "method" \
                and len(n.ops) == 1 and isinstance(n.ops[0], ast.In):
            try:
                v = eval(compile(ast.Expression(n.comparators[0]), "<c18>", "eval"), {})
                return [str(m) for m in v]
            except Exception:
                pass
    raise Broken("C18: cannot find the gradient-method list of solver.minimize")


# ------------------------------------------------------------------ recording scipy.optimize

class SpoptProxy:
    """Stands in for the module object `spopt` inside scico.solver: records the calls to
    minimize / minimize_scalar, then delegates to the real SciPy."""

    def __init__(self, real, capture_only=False):
        self._real = real
        self.calls = []
        self.capture_only = capture_only      # record the arguments, then abort instead of running SciPy

    def __getattr__(self, name):
        return getattr(self._real, name)

    def _rec(self, name, a, k):
        ps = list(inspect.signature(getattr(self._real, name)).parameters)
        d = {ps[i]: v for i, v in enumerate(a)}
        d.update(k)
        self.calls.append((name, d))

    def minimize(self, *a, **k):
        self._rec("minimize", a, k)
        if self.capture_only:
            raise CaptureOnly()
        return self._real.minimize(*a, **k)

    def minimize_scalar(self, *a, **k):
        self._rec("minimize_scalar", a, k)
        return self._real.minimize_scalar(*a, **k)


class CaptureOnly(Exception):
    pass


class patched_spopt:
    def __init__(self, capture_only=False):
        self.capture_only = capture_only

    def __enter__(self):
        from scico import solver
        import scipy.optimize as spo
        self.solver, self.orig = solver, solver.spopt
        self.proxy = SpoptProxy(spo, self.capture_only)
        solver.spopt = self.proxy
        return self.proxy

    def __exit__(self, *exc):
        self.solver.spopt = self.orig
        return False


def _same(a, b):
    if a is b:
        return True
    try:
        if isinstance(a, (list, tuple, dict, str, float, int)) and type(a) is type(b):
            return a == b
    except Exception:
        pass
    return False


def _vrepr(v):
    """Address-free description of a keyword value (replay files must be reproducible)."""
    if callable(v):
        return "<callable>"
    if isinstance(v, (list, tuple)) and any(isinstance(t, dict) for t in v):
        return "[" + ", ".join("{" + ", ".join(sorted(map(str, t))) + "}" for t in v) + "]"
    if type(v) is object:
        return "<sentinel object>"
    return repr(v)[:80]


def _quiet_jax():
    import logging
    for n in ("jax._src.callback", "jax"):
        logging.getLogger(n).setLevel(logging.CRITICAL)


def dynamic_keywords(ctx):
    """Call the real wrappers with each accepted keyword set to a behaviour-changing value;
    return {(function, keyword): (disp, target, detail)}."""
    import scipy.optimize as spo
    import scico.numpy as snp
    from scico import solver
    r = ctx.rng
    w = np.array([r.randint(2, 8) / 2.0 for _ in range(3)])
    x0 = np.array([r.randint(-6, 6) / 2.0 for _ in range(3)])

    def f(x, shift=0.0):
        return snp.sum(w * (x - shift) ** 2)           # minimiser: shift (default 0)

    out = {}
    cnt = {"n": 0}

    def cb(*a, **k):
        cnt["n"] += 1
    H = lambda v, *a: np.diag(2 * w)
    Hp = lambda v, p, *a: 2 * w * p
    cons = [{"type": "eq", "fun": lambda v: v[0] - 1.0, "jac": lambda v: np.array([1.0, 0, 0])}]
    recipes = {            # keyword -> (value, method, SciPy parameter expected to receive it)
        "args": ((0.75,), "BFGS"), "method": ("Powell", "Powell"),
        "options": ({"maxiter": 1}, "BFGS"), "hess": (H, "Newton-CG"), "hessp": (Hp, "Newton-CG"),
        "bounds": ([(1.0, 2.0)] * 3, "L-BFGS-B"), "constraints": (cons, "SLSQP"),
        "tol": (0.5, "BFGS"), "callback": (cb, "BFGS"),
    }
    params = list(inspect.signature(solver.minimize).parameters)
    for p in params:
        inp = {"function": "minimize", "keyword": p}
        with patched_spopt() as px:
            exc = None
            res = None
            try:
                if p in ("func", "x0"):
                    res = solver.minimize(f, snp.array(x0), method="BFGS")
                else:
                    val, meth = recipes.get(p, (object(), "BFGS"))
                    kw = {p: val}
                    if p != "method":
                        kw["method"] = meth
                    inp.update(method=meth, value=_vrepr(val))
                    res = solver.minimize(f, snp.array(x0), **kw)
            except Exception as e:     # noqa: BLE001 - classify below
                exc = e
            calls = [d for n, d in px.calls if n == "minimize"]
        if not calls:
            out[("minimize", p)] = ("R" if exc is not None else "D", None, f"{type(exc).__name__}: {exc}"[:200], inp)
            continue
        d = calls[0]
        if p == "func":
            v = np.array([0.5, -1.0, 2.0])
            got = d["fun"](v)
            got = got[0] if isinstance(got, tuple) else got
            ok = abs(got - float(np.sum(w * v ** 2))) < 1e-12
            out[("minimize", p)] = ("F" if ok else "D", "fun", f"fun({v.tolist()}) = {got}", inp)
        elif p == "x0":
            ok = np.array_equal(np.asarray(d["x0"]), x0)
            out[("minimize", p)] = ("F" if ok else "D", "x0", f"x0 = {np.asarray(d['x0']).tolist()}", inp)
        else:
            tg = [k for k, v in d.items() if _same(v, val)]
            detail = ""
            if res is not None:
                xs = np.asarray(res.x).tolist()
                detail = f"result x = {xs}"
                if p == "bounds":
                    detail += "; bounds [1,2]^3 " + ("respected" if all(1 - 1e-9 <= t <= 2 + 1e-9 for t in xs) else "VIOLATED (direct SciPy returns [1,1,1])")
                if p == "callback":
                    detail += f"; callback invoked {cnt['n']} times"
                if p == "constraints":
                    detail += f"; constraint x[0]=1 residual {xs[0] - 1.0}"
            out[("minimize", p)] = ("F" if tg else "D", tg[0] if tg else None, detail, inp)

    # minimize_scalar
    g = lambda t, s=0.0: (t - 1.5 - s) ** 2 + 1.0
    gj = lambda t, s=0.0: snp.array((t - 1.5 - s) ** 2 + 1.0)
    recipes_s = {"bracket": ((0.0, 0.5), "brent"), "bounds": ((2.0, 3.0), "bounded"),
                 "args": ((0.25,), "brent"), "method": ("golden", "golden"), "tol": (0.25, "brent"),
                 "options": ({"maxiter": 2}, "brent")}
    for p in list(inspect.signature(solver.minimize_scalar).parameters):
        inp = {"function": "minimize_scalar", "keyword": p}
        with patched_spopt() as px:
            exc = None
            try:
                if p == "func":
                    solver.minimize_scalar(gj)
                else:
                    val, meth = recipes_s.get(p, (object(), "brent"))
                    kw = {p: val}
                    if p != "method":
                        kw["method"] = meth
                    inp.update(method=meth, value=_vrepr(val))
                    solver.minimize_scalar(gj, **kw)
            except Exception as e:     # noqa: BLE001
                exc = e
            calls = [d for n, d in px.calls if n == "minimize_scalar"]
        if not calls:
            out[("minimize_scalar", p)] = ("R" if exc is not None else "D", None, f"{type(exc).__name__}: {exc}"[:200], inp)
            continue
        d = calls[0]
        if p == "func":
            got = d["fun"](0.25)
            out[("minimize_scalar", p)] = ("F" if got == g(0.25) else "D", "fun", f"fun(0.25) = {got}", inp)
        else:
            tg = [k for k, v in d.items() if _same(v, val)]
            out[("minimize_scalar", p)] = ("F" if tg else "D", tg[0] if tg else None, "", inp)
    return out


def check_keywords(ctx, tab):
    dyn = dynamic_keywords(ctx)
    static = {(f, p): (d, ts) for f, rows in tab.items() for p, d, ts in rows}
    ctx.obligation(set(static) == set(dyn), "C18: keyword table and inspected signatures list the same parameters",
                   f"static {sorted(static)} dynamic {sorted(dyn)}")
    for key in sorted(dyn):
        f, p = key
        disp, tg, detail, inp = dyn[key]
        ctx.count("keyword:" + f, {"function": f, "keyword": p})
        sd, sts = static.get(key, ("?", []))
        exp_t = "fun" if p == "func" else p
        agree = (sd == disp) and (disp != "F" or tg in sts)
        ctx.obligation(agree, f"C18: generated keyword table agrees with the observed behaviour for {f}({p}=...)",
                       f"table says {sd} {sts}, the recording scipy.optimize observed {disp} {tg}")
        if disp == "D" or (disp == "F" and tg != exp_t):
            ctx.violation(f, f"keyword '{p}' of {f} is accepted and silently ignored", inp,
                          expected=f"value arrives at scipy.optimize.{f}({exp_t}=...) or the wrapper raises",
                          observed=("scipy.optimize.%s was called without it; " % f) + detail,
                          oracle="C18_no_keyword_dropped (full statement) / recording scipy.optimize")
    ctx.exhaustive = True
    ctx.notes.append(f"keyword table: {len(static)} entries (every parameter of minimize and minimize_scalar), "
                     "checked exhaustively in Coq (vm_compute) and dynamically")


# ------------------------------------------------------------------ differential runs

KINDS = ["f64", "f32", "c128", "c64", "blk-f64", "blk-c128"]
NEED_HESS = {"dogleg", "trust-ncg", "trust-krylov", "trust-exact"}


def gen_problem(rng, kind, objective, small=False):
    """A starting point of the given container kind and the data of the objective (dyadic).
    small: at most 4 real variables (simplex / direction-set methods only reach their default
    xatol within the default iteration budget on small problems)."""
    def shape():
        rk = rng.choice([1, 1, 2, 2, 3])
        return [rng.randint(1, 3) for _ in range(rk)]
    nb = 1 if not kind.startswith("blk") else rng.randint(2, 3)
    shapes = [shape() for _ in range(nb)]
    if small:
        per = 2 if "c" in kind.split("-")[-1] else 1
        nb = 1 if not kind.startswith("blk") else 2
        shapes = [rng.choice([[1], [2], [1, 2], [2, 1], [1, 1, 2]]) if per == 1 else rng.choice([[1], [1, 1]])
                  for _ in range(nb)]
        if per == 1 and nb == 1 and rng.random() < 0.5:
            shapes = [rng.choice([[2, 2], [3], [4], [1, 3]])]
    if objective == "rosen":                       # keep Rosenbrock small: 2..4 real variables
        per = 2 if "c" in kind.split("-")[-1] else 1
        shapes = [[2] if per == 2 or nb > 1 else [rng.randint(2, 4)] for _ in range(nb)]
        if per == 2:
            shapes = [[1]] * nb if nb > 1 else [[rng.randint(1, 2)]]
    cx = "c" in kind.split("-")[-1]

    def vals(n, lo, hi, den=4):
        return [rng.randint(lo * den, hi * den) / den for _ in range(n)]
    blocks = []
    for s in shapes:
        n = int(np.prod(s))
        ncomp = 2 * n if cx else n
        blocks.append({"shape": s, "x0": vals(ncomp, -2, 2), "c": vals(ncomp, -2, 2),
                       "w": [rng.randint(2, 8) / 2.0 for _ in range(ncomp)]})
    p = {"kind": kind, "objective": objective, "blocks": blocks}
    if objective == "quad-args":
        p["args"] = [rng.randint(-4, 4) / 4.0, rng.randint(1, 4) / 2.0]
    if objective == "rosen":
        for b in blocks:
            b["x0"] = [t / 2.0 for t in b["x0"]]     # start in [-1, 1]
    return p


def np_dtype(kind):
    return {"f64": np.float64, "f32": np.float32, "c128": np.complex128, "c64": np.complex64}[kind.split("-")[-1]]


def build_x0(p):
    """The scico container (jax array / BlockArray) for the problem; element layout of the
    flattened real problem: per block [re..., im...] (or the real entries)."""
    import scico.numpy as snp
    dt = np_dtype(p["kind"])
    cx = np.dtype(dt).kind == "c"
    arrs = []
    for b in p["blocks"]:
        n = int(np.prod(b["shape"]))
        v = np.array(b["x0"])
        a = (v[:n] + 1j * v[n:]) if cx else v
        arrs.append(snp.array(a.reshape(b["shape"]).astype(dt)))
    return snp.blockarray(arrs) if p["kind"].startswith("blk") else arrs[0]


def flat_data(p, key):
    return np.concatenate([np.array(b[key], dtype=np.float64) for b in p["blocks"]])


def jax_objective(p):
    """The objective as the user writes it: a jax function of the container."""
    import jax.numpy as jnp
    from scico.numpy import BlockArray
    dt = np_dtype(p["kind"])
    cx = np.dtype(dt).kind == "c"

    def parts(x):           # list of real jax vectors in the flattened layout
        bl = list(x) if isinstance(x, BlockArray) else [x]
        out = []
        for a in bl:
            if cx:
                out += [jnp.real(a).ravel(), jnp.imag(a).ravel()]
            else:
                out.append(a.ravel())
        return jnp.concatenate(out)
    w, c = flat_data(p, "w"), flat_data(p, "c")
    if p["objective"] == "quad":
        return lambda x: jnp.sum(w * (parts(x) - c) ** 2)
    if p["objective"] == "quad-args":
        return lambda x, sh, sc: sc * jnp.sum(w * (parts(x) - c - sh) ** 2)

    def rosen(x):
        u = parts(x)
        return jnp.sum(100.0 * (u[1:] - u[:-1] ** 2) ** 2 + (1.0 - u[:-1]) ** 2)
    return rosen


def np_objective(p):
    """The equivalent flattened real problem, written independently in numpy with its
    analytic gradient and Hessian."""
    w, c = flat_data(p, "w"), flat_data(p, "c")
    if p["objective"] in ("quad", "quad-args"):
        def fg(v, sh=0.0, sc=1.0):
            d = v - c - sh
            return float(sc * np.sum(w * d * d)), 2 * sc * w * d

        def hs(v, sh=0.0, sc=1.0):
            return np.diag(2 * sc * w)
        return fg, hs

    def fg(v):
        a, b = v[:-1], v[1:]
        val = float(np.sum(100.0 * (b - a * a) ** 2 + (1 - a) ** 2))
        g = np.zeros_like(v)
        g[:-1] += -400.0 * a * (b - a * a) - 2 * (1 - a)
        g[1:] += 200.0 * (b - a * a)
        return val, g

    def hs(v):
        from scipy.optimize import rosen_hess
        return rosen_hess(v)
    return fg, hs


def run_differential(p, method, gmethods):
    """-> (status, detail).  status in ok / mismatch:<what> / blockfail / hessdrop"""
    import scipy.optimize as spo
    from scico import solver
    from scico.numpy import BlockArray
    x0 = build_x0(p)
    f = jax_objective(p)
    fg, hs = np_objective(p)
    args = tuple(p.get("args", ()))
    v0 = flat_data(p, "x0")
    usegrad = method in gmethods
    kw = {}
    if method in NEED_HESS:
        kw["hess"] = hs
    with np.errstate(all="ignore"):
        direct = spo.minimize(fg if usegrad else (lambda v, *a: fg(v, *a)[0]), v0, args=args,
                              jac=True if usegrad else None, method=method, **kw)
    try:
        res = solver.minimize(f, x0, args=args, method=method, **kw)
    except Exception as e:     # noqa: BLE001
        msg = str(e)
        last = [ln for ln in msg.splitlines() if ln.strip()][-1].strip() if msg.strip() else ""
        return "raised", {"exception": f"{type(e).__name__}: {last[:200]}", "hessian_required": "Hessian" in msg}
    x = res.x
    dt = np_dtype(p["kind"])
    isblk = p["kind"].startswith("blk")
    obs = {"type": type(x).__name__, "shape": tuple(x.shape) if not isblk else tuple(tuple(s) for s in x.shape),
           "dtype": str(x.dtype)}
    exp_shape = tuple(tuple(b["shape"]) for b in p["blocks"]) if isblk else tuple(p["blocks"][0]["shape"])
    if isinstance(x, BlockArray) != isblk or obs["shape"] != exp_shape or np.dtype(x.dtype) != np.dtype(dt):
        return "mismatch:container", {"observed": obs, "expected": {"block": isblk, "shape": exp_shape, "dtype": str(np.dtype(dt))}}
    cx = np.dtype(dt).kind == "c"
    fl = []
    for a in (list(x) if isblk else [x]):
        a = np.asarray(a)
        fl += [a.real.ravel(), a.imag.ravel()] if cx else [a.ravel()]
    xv = np.concatenate(fl).astype(np.float64)
    single = np.dtype(dt).itemsize // (2 if cx else 1) == 4
    tol = 2e-2 if single else (5e-3 if (not usegrad or p["objective"] == "rosen") else 1e-4)
    err = float(np.max(np.abs(xv - direct.x) / np.maximum(1.0, np.abs(direct.x))))
    det = {"x_wrapper": xv.tolist(), "x_direct": direct.x.tolist(), "err": err, "tol": tol}
    if single and method == "Newton-CG":
        # Newton-CG differentiates the gradient by finite differences with a step ~1e-8 |x|; after
        # the cast to float32 that step vanishes, so the iterates are decided by rounding: only the
        # container is compared (HACKING: never compare quantities decided by rounding)
        det["x_not_compared"] = True
        return "ok", det
    if not np.all(np.isfinite(xv)) or err > tol:
        return "mismatch:x", det
    if set(res.keys()) != set(direct.keys()):
        return "mismatch:fields", {"wrapper": sorted(res.keys()), "direct": sorted(direct.keys())}
    if abs(float(res.fun) - float(direct.fun)) > tol * max(1.0, abs(direct.fun)) * 10:
        return "mismatch:fun", {"fun_wrapper": float(res.fun), "fun_direct": float(direct.fun)}
    if not single and bool(res.success) != bool(direct.success):
        return "mismatch:success", {"wrapper": [bool(res.success), str(res.message)], "direct": [bool(direct.success), str(direct.message)]}
    if "jac" in res and np.asarray(res.jac).shape != np.asarray(direct.jac).shape:
        return "mismatch:jac-shape", {"wrapper": np.asarray(res.jac).shape, "direct": np.asarray(direct.jac).shape}
    return "ok", det


def report_differential(ctx, p, method, status, det):
    inp = {"function": "minimize", "container": "block" if p["kind"].startswith("blk") else "array",
           "method": method, "problem": p}
    if status == "raised":
        exc = det["exception"]
        if p["kind"].startswith("blk"):
            ctx.violation("minimize", "minimize raises for a BlockArray starting point", inp,
                          expected="OptimizeResult with x a BlockArray of x0's nested shape and dtype",
                          observed=exc, oracle="C18_result_signature / direct SciPy call on the flattened problem")
        elif "c" in p["kind"].split("-")[-1] and p.get("args") and "positional argument" in exc:
            inp["complex_with_args"] = True
            ctx.violation("minimize", "minimize raises for a complex starting point combined with extra args", inp,
                          expected="args passed through to func (as for real starting points)", observed=exc,
                          oracle="C18_function_handed_to_scipy / direct SciPy call on the flattened problem")
        elif p["kind"] in ("f32", "c64") and "float64" in exc:
            inp["single_precision"] = True
            ctx.violation("minimize", "minimize raises for a single-precision starting point (float32 start vector handed to SciPy)",
                          inp, expected="result in x0's dtype, as for the other methods", observed=exc,
                          oracle="C18_result_signature / direct SciPy call on the flattened problem")
        elif method in NEED_HESS and det.get("hessian_required"):
            inp["keyword"] = "hess"
            ctx.violation("minimize", "keyword 'hess' of minimize is accepted and silently ignored", inp,
                          expected="hess reaches scipy.optimize.minimize (the method requires it)", observed=exc,
                          oracle="C18_no_keyword_dropped (full statement)")
        else:
            ctx.violation("minimize", "minimize raises where the direct SciPy call on the flattened problem succeeds",
                          inp, expected="result of the direct call", observed=exc, oracle="direct SciPy call")
    else:
        ctx.violation("minimize", "minimize result differs from the direct SciPy call on the flattened real problem ("
                      + status.split(":")[1] + ")", inp, expected="direct call", observed=det, oracle="direct SciPy call")


def check_differential(ctx):
    gm = gradient_methods()
    methods = gm + GRAD_FREE
    combos = []
    for kind in KINDS:
        for m in methods:
            for obj in ("quad", "quad-args", "rosen"):
                if obj == "rosen" and (kind in ("f32", "c64") or m in NEED_HESS or m in ("TNC", "Powell", "CG")):
                    continue        # Rosenbrock only in double precision, with methods that resolve its valley reliably
                combos.append((kind, m, obj))
    ctx.rng.shuffle(combos)
    if ctx.quick:
        # every method and every container kind at least once, then a random remainder
        must = [("c128", "BFGS", "quad-args"), ("f32", "SLSQP", "quad"), ("c64", "TNC", "quad"),
                ("blk-f64", "CG", "quad"), ("blk-c128", "L-BFGS-B", "quad-args"), ("f64", "dogleg", "quad")]
        pick, seen_m, seen_k = [c for c in must if c in combos], set(), set()
        for c in combos:
            if c not in pick and (c[1] not in seen_m or c[0] not in seen_k):
                pick.append(c); seen_m.add(c[1]); seen_k.add(c[0])
        rest = [c for c in combos if c not in pick]
        combos = pick + rest[: max(0, 80 - len(pick))]
    reps = ctx.n(1, 4)
    margins = {}
    for kind, m, obj in combos:
        for _ in range(reps):
            p = gen_problem(ctx.rng, kind, obj, small=m in GRAD_FREE)
            status, det = run_differential(p, m, gm)
            ctx.count(f"diff:{kind}", {"p": p, "m": m})
            ctx.dist["method:" + m] = ctx.dist.get("method:" + m, 0) + 1
            if status != "ok":
                report_differential(ctx, p, m, status, det)
            elif det.get("x_not_compared"):
                margins["(not compared) single/Newton-CG abs. deviation"] = max(
                    margins.get("(not compared) single/Newton-CG abs. deviation", 0.0), det["err"])
            elif "err" in det:
                k = ("single" if kind in ("f32", "c64") else "double") + ("/grad-free" if m in GRAD_FREE else "") + "/" + obj
                margins[k] = max(margins.get(k, 0.0), det["err"] / det["tol"])
    ctx.notes.append("largest observed |x_wrapper - x_direct| / tolerance per class: "
                     + ", ".join(f"{k}: {v:.2g}" for k, v in sorted(margins.items())))
    ctx.notes.append(f"differential runs: methods {methods}; container kinds {KINDS}; objectives quad, quad-args, rosen")


def check_handed_function(ctx):
    """What SciPy actually receives (recording scipy.optimize): the start vector is the
    ravelled (split) x0, `fun` is func o join o reshape with the true gradient in the flattened
    real variables, args / method / jac / options are handed over unchanged."""
    from scico import solver
    gm = gradient_methods()
    for kind in ("f64", "f32", "c128", "c64"):
        for obj in ("quad", "quad-args", "rosen"):
            for method in (ctx.rng.choice([m for m in gm if m not in NEED_HESS and m not in ("TNC", "SLSQP")]), ctx.rng.choice(GRAD_FREE)):
                p = gen_problem(ctx.rng, kind, obj, small=True)
                fg, _ = np_objective(p)
                args = tuple(p.get("args", ()))
                opts = {"maxiter": 2}
                inp = {"function": "minimize", "container": "array", "method": method, "problem": p, "observe": "scipy-arguments"}
                ctx.count("handed-function:" + kind, inp)
                with patched_spopt() as px:
                    try:
                        solver.minimize(jax_objective(p), build_x0(p), args=args, method=method, options=opts)
                    except Exception as e:     # noqa: BLE001
                        ctx.violation("minimize", "minimize raises where the direct SciPy call on the flattened problem succeeds",
                                      inp, observed=f"{type(e).__name__}: {str(e)[-200:]}", oracle="direct SciPy call")
                        continue
                    d = [c for nme, c in px.calls if nme == "minimize"][0]
                single = kind in ("f32", "c64")
                tol = 1e-4 if single else 1e-10
                bad = []
                if not np.array_equal(np.asarray(d["x0"], dtype=np.float64), flat_data(p, "x0")):
                    bad.append(f"x0 = {np.asarray(d['x0']).tolist()} instead of {flat_data(p, 'x0').tolist()}")
                if tuple(d.get("args", ())) != args or d.get("method") != method or d.get("options") != opts:
                    bad.append(f"args/method/options = {d.get('args')}, {d.get('method')}, {d.get('options')}")
                if bool(d.get("jac")) != (method in gm):
                    bad.append(f"jac = {d.get('jac')}")
                for _ in range(3):
                    v = np.array([ctx.rng.randint(-8, 8) / 4.0 for _ in range(len(flat_data(p, "x0")))])
                    got = d["fun"](v, *args)
                    val, grad = fg(v, *args)
                    gv = got[0] if isinstance(got, tuple) else got
                    if abs(gv - val) > tol * max(1.0, abs(val)):
                        bad.append(f"fun({v.tolist()}) = {gv} instead of {val}")
                    if isinstance(got, tuple):
                        gg = np.asarray(got[1], dtype=np.float64)
                        if gg.shape != grad.shape or np.max(np.abs(gg - grad)) > tol * max(1.0, float(np.max(np.abs(grad)))) * 10:
                            bad.append(f"gradient at {v.tolist()} = {gg.tolist()} instead of {grad.tolist()}")
                if bad:
                    ctx.violation("minimize", "the problem handed to scipy.optimize.minimize is not the flattened real problem "
                                  "(func o join o reshape, true gradient, args/method/options unchanged)", inp,
                                  expected="C18_function_handed_to_scipy", observed=bad[:3], oracle="recording scipy.optimize + numpy objective")


def check_refuted(ctx):
    """coq/Findings/C18_kw.v: the full (unrestricted) keyword statement is refuted on the table of
    the current source.  If it stops compiling the finding no longer reproduces (note, never a violation)."""
    from vf.common import COQ, coqc_file
    f = COQ / "Findings" / "C18_kw.v"
    if not f.exists():
        return
    try:
        coqc_file(f)
        ctx.notes.append("Findings/C18_kw.v compiles: the unrestricted keyword statement is refuted on the current table")
    except Broken:
        ctx.notes.append("Findings/C18_kw.v no longer compiles: finding 'minimize drops keywords' no longer reproduces on the generated table")


# ------------------------------------------------------------------ shape transparency (ranks 0..4)

RANK_SHAPES = [[], [1], [1, 1], [3], [2, 1], [1, 3], [3, 1, 2], [1, 1, 1], [2, 1, 2, 1], [1, 2, 1, 1]]


def shape_problem(rng, kind, shape, objective="quad"):
    n = int(np.prod(shape)) if shape else 1
    ncomp = 2 * n if kind in ("c64", "c128") else n

    def vals(lo, hi):
        return [rng.randint(lo * 4, hi * 4) / 4.0 for _ in range(ncomp)]
    p = {"kind": kind, "objective": objective,
         "blocks": [{"shape": list(shape), "x0": vals(-2, 2), "c": vals(-2, 2), "w": [rng.randint(2, 8) / 2.0 for _ in range(ncomp)]}]}
    if objective == "quad-args":
        p["args"] = [rng.randint(-4, 4) / 4.0, rng.randint(1, 4) / 2.0]
    return p


def check_shapes(ctx):
    """result.x.shape == x0.shape and dtype == x0.dtype for ranks 0..4, including the empty shape
    () and unit dimensions, real and complex, single and double, gradient-based and
    gradient-free methods (values compared with the direct SciPy call as everywhere else)."""
    gm = gradient_methods()
    gsafe = [m for m in gm if m not in NEED_HESS and m not in ("TNC", "SLSQP")]
    plan = []
    for kind in ("f32", "f64", "c64", "c128"):                    # rank 0: every kind x both method classes
        plan.append((kind, [], ctx.rng.choice(gsafe)))
        plan.append((kind, [], ctx.rng.choice(GRAD_FREE)))
    shapes = RANK_SHAPES[1:] if not ctx.quick else RANK_SHAPES[1:3] + ctx.rng.sample(RANK_SHAPES[3:], 4)
    for sh in shapes:
        for _ in range(ctx.n(1, 4)):
            kind = ctx.rng.choice(["f32", "f64", "c64", "c128"])
            n = (int(np.prod(sh)) if sh else 1) * (2 if kind.startswith("c") else 1)
            plan.append((kind, sh, ctx.rng.choice(gsafe + (GRAD_FREE if n <= 4 else []))))
    if not ctx.quick:
        plan += [(k, [], m) for k in ("f32", "f64", "c64", "c128") for m in gm if m not in NEED_HESS
                 and not (k in ("f32", "c64") and m in ("TNC", "SLSQP"))]
    for kind, sh, m in plan:
        p = shape_problem(ctx.rng, kind, sh, ctx.rng.choice(["quad", "quad-args"]))
        status, det = run_differential(p, m, gm)
        ctx.count(f"shape:rank{len(sh)}", {"p": p, "m": m})
        if status != "ok":
            report_differential(ctx, p, m, status, det)


# ------------------------------------------------------------------ non-finite gradients

NONFINITE_COMPARE = ["CG", "BFGS", "L-BFGS-B", "SLSQP"]


def nonfinite_case(rng, variant):
    """An objective whose true gradient at the starting point has NaN / +inf / -inf entries:
    variant 'norm':  ||x[0:2]||_2 + 1/2 ||x - t||^2                     at x0[0:2] = 0   -> (nan, nan, finite, ...)
    variant 'mixed': ... + sqrt(x[2] - a) - sqrt(x[3] - b) (+ log term)  at x0[2] = a, x0[3] = b -> (nan, nan, +inf, -inf, ...)"""
    shape = rng.choice([[2, 2], [4], [2, 3], [5]])
    n = int(np.prod(shape))
    t = [rng.randint(-16, 16) / 4.0 or 1.0 for _ in range(n)]
    a, b = rng.randint(-8, 8) / 4.0, rng.randint(-8, 8) / 4.0
    x0 = [0.0, 0.0] + ([a, b] if variant == "mixed" else [rng.randint(-8, 8) / 4.0 for _ in range(2)]) + \
        [rng.randint(-8, 8) / 4.0 for _ in range(n - 4)]
    return {"variant": variant, "shape": shape, "t": t, "a": a, "b": b, "x0": x0, "kind": rng.choice(["f64", "f64", "f32"])}


def nonfinite_objective(c):
    import jax.numpy as jnp
    t = np.array(c["t"])
    a, b, mixed = c["a"], c["b"], c["variant"] == "mixed"

    def f(x):
        u = x.ravel()
        v = jnp.linalg.norm(u[0:2]) + 0.5 * jnp.sum((u - t) ** 2)
        if mixed:
            v = v + jnp.sqrt(u[2] - a) - jnp.sqrt(u[3] - b)
        return v
    return f


def run_nonfinite_case(c, methods, compare):
    """-> list of (method, what, expected, observed)"""
    import jax
    import jax.numpy as jnp
    import scipy.optimize as spo
    import scico.numpy as snp
    from scico import solver
    dt = np_dtype(c["kind"])
    f = nonfinite_objective(c)
    v0 = np.array(c["x0"], dtype=np.float64)
    x0 = snp.array(v0.reshape(c["shape"]).astype(dt))
    vg = jax.value_and_grad(lambda v: f(jnp.asarray(v, dt).reshape(c["shape"])))   # the true gradient, independent of scico

    def flat(v):
        val, g = vg(v)
        return float(val), np.array(g, dtype=np.float64).ravel()
    gtrue = flat(v0)[1]
    bad = []
    if np.all(np.isfinite(gtrue)):
        return [("-", "generator: the true gradient is finite at the chosen point", "non-finite entries", gtrue.tolist())]
    for m in methods:
        with patched_spopt(capture_only=True) as px:
            try:
                solver.minimize(f, x0, method=m)
            except Exception:     # noqa: BLE001 - CaptureOnly (wrapped by the host callback) is expected
                pass
            calls = [cc for nme, cc in px.calls if nme == "minimize"]
        if not calls:
            bad.append((m, "minimize does not reach scipy.optimize.minimize", "a call", "none"))
            continue
        got = calls[0]["fun"](v0)
        if not isinstance(got, tuple):
            bad.append((m, "no gradient is handed to SciPy for a gradient-based method", "fun returning (value, gradient)", repr(got)[:80]))
            continue
        g = np.asarray(got[1], dtype=np.float64).ravel()
        fin = np.isfinite(gtrue)
        same = g.shape == gtrue.shape and np.array_equal(np.isnan(g), np.isnan(gtrue)) and \
            np.array_equal(np.isposinf(g), np.isposinf(gtrue)) and np.array_equal(np.isneginf(g), np.isneginf(gtrue)) and \
            np.allclose(g[fin], gtrue[fin], rtol=1e-5 if c["kind"] == "f32" else 1e-12, atol=0)
        if not same:
            bad.append((m, "the gradient handed to SciPy is not the true gradient where it has non-finite entries "
                        "(NaN positions / signs of infinities must be preserved)", gtrue.tolist(), g.tolist()))
    for m in compare:
        with np.errstate(all="ignore"):
            ref = spo.minimize(flat, v0, jac=True, method=m)
            res = None
            for _ in range(3):          # pure_callback may complete after `res` is read (rare): fields missing
                try:
                    res = solver.minimize(f, x0, method=m)
                except Exception as e:     # noqa: BLE001
                    res = e
                    break
                if "success" in res:
                    break
        if isinstance(res, Exception):
            bad.append((m, "minimize raises on an objective with a non-finite gradient where the direct SciPy call returns",
                        {"success": bool(ref.success), "status": int(ref.status)}, f"{type(res).__name__}: {str(res)[-120:]}"))
            continue
        if "success" not in res:
            continue
        xw = np.asarray(res.x, dtype=np.float64).ravel()
        if bool(res.success) != bool(ref.success) or int(res.status) != int(ref.status) or \
                not np.allclose(xw, ref.x, rtol=0, atol=1e-4, equal_nan=True):
            bad.append((m, "on an objective with a non-finite gradient minimize reports a different outcome than the direct SciPy "
                        "call with the true gradient (success / status / x)",
                        {"success": bool(ref.success), "status": int(ref.status), "x": ref.x.tolist()},
                        {"success": bool(res.success), "status": int(res.status), "x": xw.tolist()}))
    return bad


def check_nonfinite(ctx):
    gm = gradient_methods()
    plan = [("mixed", gm, []), ("norm", [m for m in NONFINITE_COMPARE if m in gm], [m for m in NONFINITE_COMPARE if m in gm])]
    if not ctx.quick:
        full = [m for m in gm if m not in NEED_HESS]
        plan = [(v, gm, full if i % 3 == 0 else NONFINITE_COMPARE) for i in range(6) for v in ("mixed", "norm")]
    for variant, methods, compare in plan:
        c = nonfinite_case(ctx.rng, variant)
        if c["kind"] == "f32":
            compare = [m for m in compare if m not in ("TNC", "SLSQP")]      # known finding (float32 start vector)
        inp = {"function": "minimize", "nonfinite_gradient": c, "methods": methods, "compare": compare}
        ctx.count("nonfinite-gradient:" + variant, inp)
        ctx.dist["nonfinite-gradient:methods"] = ctx.dist.get("nonfinite-gradient:methods", 0) + len(methods)
        for m, what, exp, obs in run_nonfinite_case(c, methods, compare):
            ctx.violation("minimize", what, dict(inp, failing_method=m), expected=exp, observed=obs,
                          oracle="jax.value_and_grad on the flattened problem / direct SciPy call with that gradient")


# ------------------------------------------------------------------ minimize_scalar differential

SCALAR_HEADER = """From Coq Require Import List Bool Arith QArith.
From SV Require Import C18.Containers C18.Exec.
Import ListNotations.
"""


def _floats(t):
    return None if t is None else [float(np.asarray(v).item()) for v in t]


def gen_scalar_case(rng, forced=None):
    """One call of minimize_scalar: objective family, method, interval tuple, tol, options, args."""
    import math
    fam = rng.choice(["poly", "cos", "cos"]) if forced is None else "cos"
    a = rng.randint(-8, 8) / 4.0
    b = rng.randint(1, 6) / 2.0
    sh = rng.randint(-4, 4) / 4.0

    def val(t):          # the objective (python floats), args = (sh,)
        u = t - a - sh
        return b * u * u + u ** 4 if fam == "poly" else math.cos(u) + 0.01 * (u - 1.0) ** 2
    kind = forced or rng.choice(["none", "two", "three", "three", "invalid3", "bounded", "bounded"])
    c = {"family": fam, "a": a, "b": b, "args": [sh], "kind": kind, "np_scalars": rng.random() < 0.3}
    if kind == "bounded":
        c["method"] = "bounded"
        lo = a + sh + rng.choice([-2.0, 0.5, 6.0])
        c["bounds"] = [lo, lo + rng.choice([3.0, 7.0])]
    else:
        c["method"] = rng.choice(["brent", "golden"])
        if kind == "two":
            x0 = a + sh + rng.randint(-24, 24) / 4.0
            c["bracket"] = [x0, x0 + rng.choice([0.5, 1.0, 2.0])]
        elif kind in ("three", "invalid3"):
            # a valid bracket around a local minimum that is NOT the one a downhill search from its
            # end points finds (cos family: minima near a+sh+pi(2k+1)); or an invalid triple
            k = rng.choice([-2, 1, 2, 3]) if fam == "cos" else 0
            m = a + sh + (math.pi * (2 * k + 1) if fam == "cos" else 0.0)
            xa, xb, xc = m - rng.choice([1.5, 1.75]), m + rng.choice([-0.25, 0.25]), m + rng.choice([1.5, 2.0])
            xa, xb, xc = [round(t * 8) / 8.0 for t in (xa, xb, xc)]
            if kind == "invalid3":
                xb = xc - 0.125 if val(xc - 0.125) > min(val(xa), val(xc)) else xa + 0.125
                xa, xb, xc = sorted((xa, xb, xc))
            c["bracket"] = [xa, xb, xc]
    if rng.random() < 0.5 and c["method"] != "bounded":
        c["tol"] = rng.choice([1e-3, 1e-6])
    if rng.random() < 0.5:
        c["options"] = {"maxiter": rng.choice([3, 50, 200])}
    return c


def run_scalar_case(c):
    """-> dict(received=..., direct=..., wrapper=...) for one call through the recording scipy.optimize."""
    import scipy.optimize as spo
    import jax.numpy as jnp
    import scico.numpy as snp
    from scico import solver
    a, b, fam = c["a"], c["b"], c["family"]

    def fj(t, s):
        u = t - a - s
        return snp.array(b * u * u + u ** 4) if fam == "poly" else snp.array(jnp.cos(u) + 0.01 * (u - 1.0) ** 2)

    def conv(t):
        return tuple(np.float64(v) for v in t) if c["np_scalars"] else tuple(t)
    kw = {"method": c["method"], "args": tuple(c["args"])}
    for k in ("bracket", "bounds"):
        if k in c:
            kw[k] = conv(c[k])
    for k in ("tol", "options"):
        if k in c:
            kw[k] = c[k]
    out = {"passed": {k: (_floats(v) if k in ("bracket", "bounds") else v) for k, v in kw.items()}}
    with np.errstate(all="ignore"):
        try:
            d = spo.minimize_scalar(lambda t, *aa: fj(t, *aa).item(), **kw)
            out["direct"] = {"x": float(d.x), "nfev": int(d.nfev), "success": bool(d.success), "keys": sorted(d.keys())}
        except Exception as e:     # noqa: BLE001
            out["direct"] = {"exception": type(e).__name__}
        with patched_spopt() as px:
            try:
                w = solver.minimize_scalar(fj, **kw)
                out["wrapper"] = {"x": float(w.x), "nfev": int(w.nfev), "success": bool(w.success), "keys": sorted(w.keys())}
            except Exception as e:     # noqa: BLE001
                out["wrapper"] = {"exception": type(e).__name__}
            calls = [dd for n, dd in px.calls if n == "minimize_scalar"]
    if calls:
        r = calls[0]
        out["received"] = {k: (_floats(r.get(k)) if k in ("bracket", "bounds") else
                               (list(r.get(k)) if k == "args" else r.get(k)))
                           for k in ("bracket", "bounds", "method", "tol", "options", "args")}
    return out


def scalar_verdict(c, o):
    """None if the call was transparent, else (what, expected, observed)."""
    p = o["passed"]
    exp = {"bracket": p.get("bracket"), "bounds": p.get("bounds"), "method": p["method"], "tol": p.get("tol"),
           "options": p.get("options"), "args": list(p["args"])}
    if "received" in o and o["received"] != exp:
        diff = {k: [exp[k], o["received"][k]] for k in exp if exp[k] != o["received"][k]}
        k = sorted(diff)[0]
        return (f"minimize_scalar does not hand '{k}' to scipy.optimize.minimize_scalar as passed "
                "(value / tuple arity changed)", exp, o["received"])
    if "received" not in o and "exception" not in o["direct"]:
        return ("minimize_scalar raises where scipy.optimize.minimize_scalar succeeds", o["direct"], o["wrapper"])
    if ("exception" in o["direct"]) != ("exception" in o["wrapper"]) or \
            ("exception" in o["direct"] and o["direct"]["exception"] != o["wrapper"]["exception"]):
        return ("minimize_scalar does not reject an argument exactly as scipy.optimize.minimize_scalar rejects it",
                o["direct"], o["wrapper"])
    if "exception" not in o["direct"]:
        d, w = o["direct"], o["wrapper"]
        if abs(w["x"] - d["x"]) > 1e-9 * max(1.0, abs(d["x"])) or w["nfev"] != d["nfev"] or w["success"] != d["success"] \
                or w["keys"] != d["keys"]:
            return ("minimize_scalar result differs from scipy.optimize.minimize_scalar", d, w)
    return None


def check_scalar(ctx):
    """minimize_scalar: what SciPy receives must be what the caller passed (bracket of two or
    three points, bounds, method, tol, options, args); results and rejections as SciPy's."""
    cases = [gen_scalar_case(ctx.rng, forced=k) for k in ("three", "three", "invalid3", "two", "bounded")]
    cases += [gen_scalar_case(ctx.rng) for _ in range(ctx.n(19, 150))]
    tuples, tmeta = [], []
    for c in cases:
        o = run_scalar_case(c)
        inp = {"function": "minimize_scalar", "case": c}
        ctx.count("scalar:" + c["kind"], inp)
        v = scalar_verdict(c, o)
        if v:
            ctx.violation("minimize_scalar", v[0], inp, expected=v[1], observed=v[2],
                          oracle="recording scipy.optimize / direct SciPy call / C18_forwarded_values_unmodified")
        if "received" in o:
            for k in ("bracket", "bounds"):
                if o["passed"].get(k) is not None and o["received"].get(k) is not None:
                    tuples.append(f"({coq_list([qlit(t) for t in o['passed'][k]])}, {coq_list([qlit(t) for t in o['received'][k]])})")
                    tmeta.append((inp, k, o))
    if tuples:
        body = "Definition tc := " + coq_list(tuples, ";\n ") + ".\nEval vm_compute in (bad_idx tuple_case_ok tc 0%nat)."
        for idx in parse_eval_nat_list(coq_eval_shards("C18_scalar", SCALAR_HEADER, [body])[0]):
            inp, k, o = tmeta[idx]
            ctx.violation("minimize_scalar", f"minimize_scalar does not hand '{k}' to scipy.optimize.minimize_scalar as passed "
                          "(value / tuple arity changed)", inp, expected=o["passed"], observed=o["received"],
                          oracle="C18_forwarded_values_unmodified (identity on the tuple), compared inside Coq")


# ------------------------------------------------------------------ call histories (same objective object)

HIST_SHAPES = {"r": [[2], [3], [2, 2], [1, 3], [4]], "c": [[1], [2], [1, 2]]}


def hist_np(v, a):
    """The history objective on the flattened real vector, with gradient (numpy, float64)."""
    sh, sc = a if a else (0.25, 1.0)
    idx = np.arange(v.size)
    w, c = 1.0 + (idx % 3) * 0.5, sh + 0.5 * (idx % 2)
    return float(sc * np.sum(w * (v - c) ** 2)), 2 * sc * w * (v - c)


def make_hist_objective(seen):
    import jax.numpy as jnp

    def f(x, *a):
        seen.append(str(x.dtype))                       # runs whenever the objective is (re)traced
        u = jnp.concatenate([jnp.real(x).ravel(), jnp.imag(x).ravel()]) if jnp.iscomplexobj(x) else x.ravel()
        sh, sc = a if a else (0.25, 1.0)
        idx = jnp.arange(u.size)
        return sc * jnp.sum((1.0 + (idx % 3) * 0.5) * (u - sh - 0.5 * (idx % 2)) ** 2)
    return f


def gen_history(rng, forced=None):
    if forced:
        return forced
    n = rng.randint(3, 5)
    fam = rng.choice(["r", "r", "c"])
    shape = rng.choice(HIST_SHAPES[fam])
    h = []
    for i in range(n):
        if rng.random() < 0.3:
            shape = rng.choice(HIST_SHAPES[fam])
        kind = rng.choice(["f32", "f64"] if fam == "r" else ["c64", "c128"])
        method = rng.choice(["L-BFGS-B", "BFGS", "CG", "Nelder-Mead", "Powell", "L-BFGS-B"])
        args = [rng.randint(-4, 4) / 4.0, rng.randint(1, 4) / 2.0] if fam == "r" and rng.random() < 0.4 else []
        h.append({"kind": kind, "shape": shape, "method": method, "args": args,
                  "x0": [rng.randint(-8, 8) / 4.0 for _ in range(int(np.prod(shape)) * (2 if fam == "c" else 1))]})
    return h


def forced_histories(rng):
    def call(kind, shape, method, args=()):
        n = int(np.prod(shape)) * (2 if kind.startswith("c") else 1)
        return {"kind": kind, "shape": shape, "method": method, "args": list(args),
                "x0": [rng.randint(-8, 8) / 4.0 for _ in range(n)]}
    return [
        [call("f32", [3], "L-BFGS-B"), call("f64", [3], "L-BFGS-B"), call("f32", [3], "Nelder-Mead"), call("f64", [3], "Nelder-Mead")],
        [call("f64", [2, 2], "BFGS", (0.5, 1.5)), call("f32", [2, 2], "BFGS", (0.5, 1.5)), call("f64", [2, 2], "BFGS", (0.5, 1.5))],
        [call("c64", [2], "CG"), call("c128", [2], "CG"), call("c64", [2], "Powell"), call("c128", [2], "Powell")],
    ]


def run_history(h, gm):
    """Minimise ONE objective object along the history; per call: result vs the direct SciPy call
    on the flattened float64 problem (as for a fresh call), precision of the function SciPy
    receives, dtypes the objective was traced with.  -> list of (index, what, expected, observed)."""
    import scipy.optimize as spo
    import scico.numpy as snp
    from scico import solver
    seen = []
    f = make_hist_objective(seen)
    bad = []
    for i, c in enumerate(h):
        dt = np_dtype(c["kind"])
        cx = np.dtype(dt).kind == "c"
        single = c["kind"] in ("f32", "c64")
        v0 = np.array(c["x0"], dtype=np.float64)
        n = v0.size // 2 if cx else v0.size
        x0 = snp.array(((v0[:n] + 1j * v0[n:]) if cx else v0).reshape(c["shape"]).astype(dt))
        args = tuple(c["args"])
        usegrad = c["method"] in gm
        with np.errstate(all="ignore"):
            direct = spo.minimize((lambda v, *a: hist_np(v, a)) if usegrad else (lambda v, *a: hist_np(v, a)[0]), v0,
                                  args=args, jac=True if usegrad else None, method=c["method"])
        del seen[:]
        with patched_spopt() as px:
            try:
                res = solver.minimize(f, x0, args=args, method=c["method"])
            except Exception as e:     # noqa: BLE001
                bad.append((i, "minimize raises in a call history where a fresh call succeeds", "result", f"{type(e).__name__}: {str(e)[-160:]}"))
                continue
            d = [cc for nme, cc in px.calls if nme == "minimize"][0]
        traced = sorted(set(seen))
        x = res.x
        if tuple(x.shape) != tuple(c["shape"]) or np.dtype(x.dtype) != np.dtype(dt):
            bad.append((i, "result of a later call does not have the shape/dtype of its own starting point",
                        [c["shape"], str(np.dtype(dt))], [list(x.shape), str(x.dtype)]))
            continue
        if any(t != str(np.dtype(dt)) for t in traced):
            bad.append((i, "the objective is traced with a dtype other than that of the current starting point",
                        str(np.dtype(dt)), traced))
        # the function SciPy received must evaluate in the precision of this call's x0
        tol = 1e-4 if single else 1e-11
        for k in range(2):
            v = 40.0 + 13.0 * np.arange(v0.size) + (k + 1) * 2.0 ** -20 + np.array(c["x0"]) / 8.0
            got = d["fun"](v, *args)
            val, grad = hist_np(v, args)
            gv = got[0] if isinstance(got, tuple) else got
            if abs(gv - val) > tol * abs(val):
                bad.append((i, "the function handed to SciPy does not evaluate the objective in the precision of the current "
                            "starting point (stale cast from an earlier call)", {"value": val, "rel_tol": tol},
                            {"value": float(gv), "rel_err": abs(gv - val) / abs(val)}))
                break
            if isinstance(got, tuple) and np.max(np.abs(np.asarray(got[1], dtype=np.float64) - grad)) > tol * float(np.max(np.abs(grad))) * 10:
                bad.append((i, "the gradient handed to SciPy is not evaluated in the precision of the current starting point",
                            grad.tolist(), np.asarray(got[1]).tolist()))
                break
        a = np.asarray(x)
        xv = (np.concatenate([a.real.ravel(), a.imag.ravel()]) if cx else a.ravel()).astype(np.float64)
        xtol = 2e-2 if single else (5e-3 if not usegrad else 1e-6)
        err = float(np.max(np.abs(xv - direct.x) / np.maximum(1.0, np.abs(direct.x))))
        if not np.all(np.isfinite(xv)) or err > xtol:
            bad.append((i, "result of a later call differs from the direct SciPy call on its flattened real problem",
                        direct.x.tolist(), {"x": xv.tolist(), "err": err, "tol": xtol}))
    return bad


def check_history(ctx):
    gm = gradient_methods()
    hs = forced_histories(ctx.rng) + [gen_history(ctx.rng) for _ in range(ctx.n(3, 40))]
    ncalls = 0
    for h in hs:
        inp = {"function": "minimize", "history": h}
        ctx.count("history", inp)
        ncalls += len(h)
        for i, what, exp, obs in run_history(h, gm):
            inp2 = dict(inp, failing_call=i)
            ctx.violation("minimize", what, inp2, expected=exp, observed=obs,
                          oracle="fresh-call behaviour: direct SciPy call on the flattened problem + numpy objective in float64")
    ctx.dist["history:calls"] = ncalls
    mg = mutable_globals_read()
    ctx.obligation(not mg, "C18: minimize / minimize_scalar read no mutable module-level state (the Coq model is a pure "
                   "function of the arguments)", "; ".join(mg))


# ------------------------------------------------------------------ split / join / ravel / reshape in Coq

HEADER = """From Coq Require Import List Bool Arith QArith.
From SV Require Import C18.Containers C18.Exec.
Import ListNotations.
"""


def nat_list(s):
    return "[" + "; ".join(f"{int(t)}%nat" for t in s) + "]"


def coq_arr_q(a):
    a = np.asarray(a)
    return f"(mkarr {nat_list(a.shape)} {coq_list([qlit(t) for t in a.ravel()])})"


def coq_arr_c(a):
    a = np.asarray(a)
    return f"(mkarr {nat_list(a.shape)} {coq_list(['(%s, %s)' % (qlit(t.real), qlit(t.imag)) for t in a.ravel()])})"


def gen_cplx_blocks(rng):
    nb = rng.choice([1, 1, 2, 3])
    out = []
    for _ in range(nb):
        rk = rng.choice([0, 1, 1, 2, 2, 3])
        s = [rng.randint(1, 3) for _ in range(rk)]
        n = int(np.prod(s)) if s else 1
        re = np.array([rng.randint(-16, 16) / 4.0 for _ in range(n)]).reshape(s)
        im = np.array([rng.randint(-16, 16) / 4.0 for _ in range(n)]).reshape(s)
        out.append(re + 1j * im)
    return out


def sj_case(blocks, as_block):
    import scico.numpy as snp
    from scico import solver
    x = snp.blockarray([snp.array(b) for b in blocks]) if as_block else snp.array(blocks[0])
    s = solver._split_real_imag(x)
    j = solver._join_real_imag(s)
    sl = list(s) if as_block else [s]
    jl = list(j) if as_block else [j]
    return (f"({coq_list([coq_arr_c(b) for b in blocks])}, {coq_list([coq_arr_q(t) for t in sl])}, "
            f"{coq_list([coq_arr_c(t) for t in jl])})")


def rr_case(a):
    import scico.numpy as snp
    x = snp.array(a)
    fl = x.ravel()
    back = snp.reshape(fl, x.shape)
    return f"({coq_arr_q(a)}, {coq_list([qlit(t) for t in np.asarray(fl)])}, {coq_arr_q(back)})"


def check_models(ctx):
    n = ctx.n(150, 1500)
    sj, meta = [], []
    for _ in range(n):
        blocks = gen_cplx_blocks(ctx.rng)
        as_block = len(blocks) > 1 or ctx.rng.random() < 0.2
        meta.append({"blocks": [[list(b.shape), [[float(t.real), float(t.imag)] for t in b.ravel()]] for b in blocks],
                     "as_block": as_block})
        ctx.count("split-join", meta[-1], nontrivial=sum(b.size for b in blocks) >= 2)
        sj.append(sj_case(blocks, as_block))
    rr, rmeta = [], []
    for _ in range(n):
        rk = ctx.rng.choice([0, 1, 2, 3, 4])
        s = [ctx.rng.randint(1, 3) for _ in range(rk)]
        a = np.array([ctx.rng.randint(-16, 16) / 4.0 for _ in range(int(np.prod(s)) if s else 1)]).reshape(s)
        rmeta.append({"shape": s, "data": a.ravel().tolist()})
        ctx.count("ravel-reshape", rmeta[-1], nontrivial=a.size >= 2)
        rr.append(rr_case(a))
    shard = 250
    bodies = []
    for k in range(0, n, shard):
        bodies.append("Definition sj := " + coq_list(sj[k:k + shard], ";\n ") + ".\n"
                      "Definition rr := " + coq_list(rr[k:k + shard], ";\n ") + ".\n"
                      "Eval vm_compute in (bad_idx sj_case_ok sj 0%nat).\n"
                      "Eval vm_compute in (bad_idx rr_case_ok rr 0%nat).")
    outs = coq_eval_shards("C18_models", HEADER, bodies)
    for si, o in enumerate(outs):
        parts = o.split("= ", 2)
        if len(parts) < 3:
            raise Broken("C18: cannot parse model evaluation output", o[-1500:])
        for idx in parse_eval_nat_list("= " + parts[1]):
            ctx.violation("_split_real_imag", "_split_real_imag/_join_real_imag differ from the model or do not round-trip",
                          meta[si * shard + idx], expected="model C18/Containers.v (join (split x) = x)",
                          observed="implementation output differs", oracle="C18_join_split / C18_block_join_split")
        for idx in parse_eval_nat_list("= " + parts[2]):
            ctx.violation("ravel/reshape", "ravel/reshape of an N-d array differ from the model or do not round-trip",
                          rmeta[si * shard + idx], expected="model C18/Containers.v", observed="implementation output differs",
                          oracle="C18_reshape_ravel")


# ------------------------------------------------------------------ run / replay

def run(ctx: Ctx):
    _quiet_jax()
    tab = static_table()
    write_if_changed(GEN / "C18_kw.v", table_to_coq(tab))
    if not getattr(ctx, "no_proofs", False):
        ctx.proofs()
    ctx.trusted += [
        "scipy.optimize.minimize / minimize_scalar, ndarray.astype, jax.value_and_grad, jax.pure_callback: Section "
        "variables of coq/theories/C18/Minimize.v (arbitrary functions; only 'SciPy returns a vector of the size of its "
        "start vector' is assumed, for the shape theorem)",
        "row-major (C-order) layout of jax arrays and of snp.stack / x[0], x[1] as transcribed in C18/Containers.v "
        "(validated against the implementation inside Coq on every run)",
        "the ast data-flow classifier of vf/props/C18.py that produces coq/gen/C18_kw.v (flow-insensitive, "
        "over-approximates 'reaches'; validated against a recording scipy.optimize on every run)",
    ]
    ctx.assumptions += ["which minimiser SciPy finds is not modelled; theorems state transparency of the wrapper only",
                        "nested-shape ravel/reshape model = the behaviour the code comments intend for block arrays"]
    check_keywords(ctx, tab)
    check_models(ctx)
    check_scalar(ctx)
    check_history(ctx)
    check_nonfinite(ctx)
    check_shapes(ctx)
    check_handed_function(ctx)
    check_differential(ctx)
    if not getattr(ctx, "no_proofs", False):
        check_refuted(ctx)


def replay(ctx: Ctx, rec):
    _quiet_jax()
    inp, unit = rec["input"], rec["unit"]
    if "keyword" in inp and "problem" not in inp:
        d = dynamic_keywords(ctx)
        disp, tg, _, _ = d[(inp["function"], inp["keyword"])]
        return disp == "R" or (disp == "F" and tg == ("fun" if inp["keyword"] == "func" else inp["keyword"]))
    if inp.get("observe") == "scipy-arguments":
        c2 = Ctx(ctx.pid, ctx.tier, ctx.seed)
        c2.known = []
        p, method = inp["problem"], inp["method"]
        from scico import solver
        fg, _ = np_objective(p)
        args = tuple(p.get("args", ()))
        with patched_spopt() as px:
            solver.minimize(jax_objective(p), build_x0(p), args=args, method=method, options={"maxiter": 2})
            d = [c for nme, c in px.calls if nme == "minimize"][0]
        v = flat_data(p, "c") + 0.25
        got = d["fun"](v, *args)
        gv = got[0] if isinstance(got, tuple) else got
        return np.array_equal(np.asarray(d["x0"], dtype=np.float64), flat_data(p, "x0")) and \
            abs(gv - fg(v, *args)[0]) <= 1e-4 * max(1.0, abs(fg(v, *args)[0])) and tuple(d.get("args", ())) == args
    if "problem" in inp:
        st, _ = run_differential(inp["problem"], inp["method"], gradient_methods())
        return st == "ok"
    if "nonfinite_gradient" in inp:
        return not run_nonfinite_case(inp["nonfinite_gradient"], inp["methods"], inp["compare"])
    if "history" in inp:
        return not run_history(inp["history"], gradient_methods())
    if unit == "minimize_scalar" and "case" in inp:
        return scalar_verdict(inp["case"], run_scalar_case(inp["case"])) is None
    if unit == "minimize_scalar":
        import scipy.optimize as spo
        import scico.numpy as snp
        from scico import solver
        a, b = inp["a"], inp["b"]
        kw = {k: (tuple(v) if isinstance(v, list) else v) for k, v in inp["kw"].items()}
        fj = lambda t, s: snp.array(b * (t - a - s) ** 2 + (t - a - s) ** 4)
        fn = lambda t, s: b * (t - a - s) ** 2 + (t - a - s) ** 4
        d, w = spo.minimize_scalar(fn, **kw), solver.minimize_scalar(fj, **kw)
        return abs(float(w.x) - float(d.x)) <= 1e-9 * max(1.0, abs(d.x)) and int(w.nfev) == int(d.nfev)
    if unit == "_split_real_imag":
        blocks = [np.array([complex(*t) for t in d]).reshape(s) for s, d in inp["blocks"]]
        body = "Definition sj := [" + sj_case(blocks, inp["as_block"]) + "].\nEval vm_compute in (bad_idx sj_case_ok sj 0%nat)."
        return parse_eval_nat_list(coq_eval_shards("C18_replay", HEADER, [body])[0]) == []
    if unit == "ravel/reshape":
        a = np.array(inp["data"]).reshape(inp["shape"])
        body = "Definition rr := [" + rr_case(a) + "].\nEval vm_compute in (bad_idx rr_case_ok rr 0%nat)."
        return parse_eval_nat_list(coq_eval_shards("C18_replay", HEADER, [body])[0]) == []
    raise SystemExit("unknown unit")
