"""C19 -- results do not depend on execution mode or call history; randomness is explicit.

Theorems: coq/Properties/C19.v (models coq/theories/C19/{Cache,TVNorm,Loss,Random,Defaults}.v).

Correspondence with the models, compared INSIDE Coq (vm_compute):
  (A) TVNorm cache: for generated call histories (method, shape, dtype) the real object is
      instrumented from here (constructor calls of FiniteDifference / HaarTransform counted by
      patching the names in scico.functional._tvnorm); TVNorm.v predicts ok/raise and the rebuild
      pattern of every call.
  (B) Loss rescaling: histories of  L*c, c*L, L/c, set_scale  on real losses; Loss.v predicts the
      scale of every object and the scale seen by its gradient closure.
  (C) scico.random wrappers against Random.v with jax.random recorded as finite tables.
  (D) assigned locations of the anchored classes (extracted with `ast`) through the
      flow-insensitive checker of Defaults.v.
Decided by correspondence ONLY (no model has two execution modes; a fact about XLA):
  (E) every operator / functional / prox / gradient / solver step evaluated eagerly, under
      jax.jit, with the constructor's jit on/off, under jax.disable_jit(), repeated, and after
      interleaved calls, compared with a fresh object.
  (F) deep snapshots of __dict__ graphs of objects used inside other objects, and of every
      mutable default argument of the library.
  (H) interleaved objects: for every optimiser class x helper (step-size policy / sub-problem
      solver, incl. the defaults) a solver S1, a second solver S2 with other parameters and data,
      S1 (and S2) stepped, S1's public state compared after every step with a reference built
      alone; no mutable object may be shared (`is`) between S1 and S2; histories of
      constructions / steps of default-policy PGM solvers against SharedDefault.v inside Coq.
  (I) re-attachment: for every sub-problem solver class ONE solver object attached to a first
      ADMM (stepped) and then to a second ADMM sharing the operator OBJECTS but differing in
      rho_list / f.scale (c*f, set_scale) / f.W / y / all (and: other operator objects of equal
      values); the second ADMM's public state after every step = that of the same ADMM built
      alone with a fresh solver (Reattach.v: reattach_spec, idkeyed_refuted).
  (J) public parameter updates between calls: for every Loss class (directly constructed and
      rescaled copies) and grad / __call__ / prox: [m(x); set_scale(s); m(x)] compared with a
      fresh object built with the new scale and with the same sequence under jax.disable_jit();
      exact histories of calls / set_scale against ParamState.v inside Coq.
"""
from __future__ import annotations

import ast
import contextlib
import hashlib
import inspect
import json
import textwrap

import numpy as np

from vf.common import Ctx, Broken, coq_eval_shards, parse_eval_nat_list, qlit, zlit, coq_list, parse_evals

HEADER = """From Coq Require Import List Bool Arith ZArith QArith.
From SV Require Import C19.Cache C19.TVNorm C19.Loss C19.Random C19.Defaults C19.SharedDefault C19.Reattach C19.ParamState.
Import ListNotations.
Open Scope nat_scope.
"""


def zl(n):
    return f"({int(n)})%Z"


DTS = ["float32", "float64", "complex64", "complex128"]
TOL = {"float32": 1e-6, "float64": 1e-12, "complex64": 1e-6, "complex128": 1e-12}


def _np():
    import jax
    import scico.numpy as snp
    return jax, snp


def dy_array(rng, shape, dtype, bits=3, lo=-4, hi=4):
    """dyadic array (exactly representable in every float dtype)"""
    n = int(np.prod(shape)) if len(shape) else 1
    den = 1 << bits
    a = np.array([rng.randint(lo * den, hi * den) / den for _ in range(n)], dtype=np.float64).reshape(shape)
    if dtype.startswith("complex"):
        b = np.array([rng.randint(lo * den, hi * den) / den for _ in range(n)], dtype=np.float64).reshape(shape)
        a = a + 1j * b
    import scico.numpy as snp
    return snp.array(a.astype(dtype))


def blocks_of(v):
    from scico.numpy import BlockArray
    if isinstance(v, BlockArray):
        return [np.asarray(b) for b in v]
    if isinstance(v, (tuple, list)):
        out = []
        for t in v:
            out += blocks_of(t)
        return out
    return [np.asarray(v)]


def close(a, b, tol):
    """max|a-b| <= tol * max(1, max|b|) per block, equal shapes and dtypes"""
    A, B = blocks_of(a), blocks_of(b)
    if len(A) != len(B):
        return False, "different block structure"
    worst = 0.0
    for x, y in zip(A, B):
        if x.shape != y.shape:
            return False, f"shape {x.shape} vs {y.shape}"
        if x.dtype != y.dtype:
            return False, f"dtype {x.dtype} vs {y.dtype}"
        if x.size == 0:
            continue
        fx, fy = np.isfinite(x), np.isfinite(y)
        if not np.array_equal(fx, fy) or not np.array_equal(x[~fx], y[~fy], equal_nan=True):
            return False, "non-finite pattern differs"
        # norm-wise: rounding errors of sums / FFTs scale with the magnitude of the array, not of
        # the individual (possibly cancelling) entry
        d = float(np.max(np.abs(x[fx] - y[fy])) / max(1.0, float(np.max(np.abs(y[fy]))))) if fx.any() else 0.0
        worst = max(worst, d)
    return worst <= tol, f"max relative difference {worst:.3e} (tolerance {tol:g})"


def tol_of(v):
    b = blocks_of(v)
    t = 1e-12
    for x in b:
        if x.dtype in (np.float32, np.complex64):
            t = 1e-6
    return t


def outcome(fn):
    """run fn(); ('ok', value) or ('exc', class name)"""
    try:
        return ("ok", fn())
    except Exception as e:  # noqa: BLE001 -- the exception class is the observable
        return ("exc", type(e).__name__)


def same_outcome(a, b, tol=None):
    if a[0] != b[0]:
        return False, f"{a[0]}:{a[1] if a[0] == 'exc' else ''} vs {b[0]}:{b[1] if b[0] == 'exc' else ''}"
    if a[0] == "exc":
        return (a[1] == b[1]), f"exception {a[1]} vs {b[1]}"
    return close(a[1], b[1], tol if tol is not None else max(tol_of(a[1]), tol_of(b[1])))


# =====================================================================================
# (A) TVNorm cache
# =====================================================================================

TV_SHAPES = [(3, 4), (4, 3), (5,), (2, 3), (6,)]


def gen_tv_case(rng, maxlen):
    cls = rng.choice(["AnisotropicTVNorm", "IsotropicTVNorm"])
    circ = rng.random() < 0.5
    decl = None
    if rng.random() < 0.3:
        decl = [list(rng.choice(TV_SHAPES)), rng.choice([0, 1, 1, 3])]
    n = rng.randint(2, maxlen)
    h = []
    sh = list(rng.choice(TV_SHAPES)) if decl is None else decl[0]
    d = rng.choice([0, 1, 1, 3])
    for _ in range(n):
        r = rng.random()
        if r < 0.35:
            d = rng.choice([0, 1, 2, 3])          # same shape, other dtype
        elif r < 0.6:
            sh = list(rng.choice(TV_SHAPES))       # other shape
        m = 1 if rng.random() < 0.65 else 0
        h.append([m, list(sh), d])
    return {"class": cls, "circular": circ, "decl": decl, "history": h, "seed": rng.randint(0, 10 ** 6)}


class _Counting:
    def __init__(self, orig):
        self.orig, self.n = orig, 0

    def __call__(self, *a, **k):
        self.n += 1
        return self.orig(*a, **k)


def _tv_make(case):
    from scico import functional
    cls = getattr(functional, case["class"])
    if case["decl"] is None:
        return cls(circular=case["circular"])
    return cls(circular=case["circular"], input_shape=tuple(case["decl"][0]), input_dtype=np.dtype(DTS[case["decl"][1]]).type)


def _tv_do(obj, m, x):
    return obj(x) if m == 0 else obj.prox(x, 0.3)


_tv_fresh_cache: dict = {}


def run_tv_impl(case):
    """-> (obs [(code, rebuilt)], per-call records for the fresh-object comparison)"""
    import random as _r
    import scico.functional._tvnorm as tvm
    rng = _r.Random(case["seed"])
    cfd, cht = _Counting(tvm.FiniteDifference), _Counting(tvm.HaarTransform)
    tvm.FiniteDifference, tvm.HaarTransform = cfd, cht
    obs, recs = [], []
    try:
        obj = _tv_make(case)
        cfd.n = cht.n = 0
        for i, (m, sh, d) in enumerate(case["history"]):
            x = dy_array(rng, tuple(sh), DTS[d])
            cached = obj.G if m == 0 else obj.WP
            cached_desc = None if cached is None else [list(cached.input_shape), np.dtype(cached.input_dtype).name]
            n0 = (cfd.n, cht.n)
            used = outcome(lambda: _tv_do(obj, m, x))
            rebuilt = (cfd.n != n0[0]) if m == 0 else (cht.n != n0[1])
            other = (cht.n != n0[1]) if m == 0 else (cfd.n != n0[0])
            code = 0 if used[0] == "ok" else (1 if used[1] == "ValueError" else 2)
            obs.append([code + (10 if other else 0), bool(rebuilt)])
            recs.append({"i": i, "x": x, "used": used, "cached": cached_desc})
    finally:
        tvm.FiniteDifference, tvm.HaarTransform = cfd.orig, cht.orig
    return obs, recs


def tv_fresh_outcome(case, m, x):
    key = (case["class"], case["circular"], json.dumps(case["decl"]), m, x.shape, str(x.dtype),
           hashlib.sha1(np.asarray(x).tobytes()).hexdigest())
    if key not in _tv_fresh_cache:
        fresh = _tv_make(case)
        desc = None
        c = fresh.G if m == 0 else fresh.WP
        if c is not None:
            desc = [list(c.input_shape), np.dtype(c.input_dtype).name]
        _tv_fresh_cache[key] = (outcome(lambda: _tv_do(fresh, m, x)), desc)
    return _tv_fresh_cache[key]


def coq_tv_case(case, obs):
    decl = "None" if case["decl"] is None else \
        f"(Some ({coq_list([str(s) for s in case['decl'][0]])}, {case['decl'][1]}))"
    h = coq_list([f"({m}, {coq_list([str(s) for s in sh])}, {d})" for m, sh, d in case["history"]])
    o = coq_list([f"({c}, {'true' if b else 'false'})" for c, b in obs])
    return f"({decl}, {h}, {o})"


def check_tv(ctx, cases):
    """cases: list of case dicts. Runs impl, Coq prediction, fresh-object differential."""
    items, meta = [], []
    for case in cases:
        obs, recs = run_tv_impl(case)
        items.append(coq_tv_case(case, obs))
        meta.append((case, obs))
        ctx.count("tvnorm-history", {k: case[k] for k in ("class", "circular", "decl", "history")},
                  nontrivial=len(case["history"]) >= 2)
        for rec in recs:
            m, sh, d = case["history"][rec["i"]]
            fresh, fresh_desc = tv_fresh_outcome(case, m, rec["x"])
            ok, why = same_outcome(rec["used"], fresh)
            ctx.count("tvnorm-call-vs-fresh")
            if not ok:
                inp = {"class": case["class"], "circular": case["circular"], "decl": case["decl"],
                       "history": case["history"][: rec["i"] + 1], "seed": case["seed"], "index": rec["i"],
                       "call": [["call", "prox"][m], sh, DTS[d]],
                       "cached": rec["cached"], "fresh_cached": fresh_desc,
                       "used_outcome": rec["used"][0] if rec["used"][0] == "ok" else rec["used"][1],
                       "fresh_outcome": fresh[0] if fresh[0] == "ok" else fresh[1]}
                ctx.violation("TVNorm." + ["__call__", "prox"][m],
                              "result of a call after a history differs from the same call on a fresh object",
                              inp, expected="fresh-object result (" + str(inp["fresh_outcome"]) + ")",
                              observed=str(inp["used_outcome"]) + "; " + why,
                              oracle="TVNorm.v tv_fullkey_transparent / fresh object")
    shard = 200
    bodies = []
    for s in range(0, len(items), shard):
        bodies.append("Definition cases := " + coq_list(items[s:s + shard], ";\n ") + ".\n"
                      "Eval vm_compute in (TVNorm.bad_idx tv_case_ok cases 0%nat).\n"
                      "Eval vm_compute in (TVNorm.bad_idx tv_case_ok_fixed cases 0%nat).")
    outs = coq_eval_shards("C19_tv", HEADER, bodies)
    bad, bad_fixed = [], []
    for si, o in enumerate(outs):
        vals = parse_evals(o)
        if len(vals) != 2:
            raise Broken("cannot parse Coq output of the TVNorm comparison", o[-1000:])
        for tgt, v in zip((bad, bad_fixed), vals):
            body = v.strip().strip("[]").strip()
            for t in (body.split(";") if body else []):
                tgt.append(meta[si * shard + int(t.strip().replace("%nat", ""))])
    return bad, bad_fixed


# =====================================================================================
# (B) Loss rescaling
# =====================================================================================

LOSS_C = [0.5, 2.0, 1.5, 0.25, 3.0, -1.0, 4.0, 0.75]
LOSS_DIV = [0.5, 2.0, 4.0, -2.0, 0.25]


def gen_loss_case(rng, maxlen):
    n = rng.randint(1, maxlen)
    ops, nobj = [], 1
    for _ in range(n):
        code = rng.choice([0, 0, 1, 1, 2, 2, 3])
        l = rng.randrange(nobj)
        c = rng.choice(LOSS_DIV if code == 2 else LOSS_C)
        ops.append([code, l, c])
        if code != 3:
            nobj += 1
    return {"kind": rng.choice(["SquaredL2Loss", "Loss"]), "s0": rng.choice([0.5, 1.0, 2.0, 0.25]), "ops": ops}


def run_loss_impl(case):
    import scico.numpy as snp
    from scico import loss, functional, linop
    x = snp.array(np.array([1.0, -2.0, 0.5, 3.0]))
    y = x - 0.5                                    # 2 (x - y) = 1 exactly
    if case["kind"] == "SquaredL2Loss":
        L0 = loss.SquaredL2Loss(y=y, A=linop.Identity((4,), input_dtype=np.float64), scale=case["s0"])
    else:
        L0 = loss.Loss(y=y, f=functional.SquaredL2Norm(), scale=case["s0"])
    objs = [L0]
    for code, l, c in case["ops"]:
        if code == 0:
            objs.append(objs[l] * c)
        elif code == 1:
            objs.append(c * objs[l])
        elif code == 2:
            objs.append(objs[l] / c)
        else:
            objs[l].set_scale(c)
    obs = []
    for o in objs:
        g = np.asarray(o.grad(x))
        if not np.all(g == g[0]):
            raise Broken("loss gradient is not constant on the probe point", str(g))
        v = float(o(x))
        obs.append([float(o.scale), float(g[0]), v])
    return obs


def coq_loss_case(case, obs):
    ops = coq_list([f"({c}%nat, {l}%nat, {qlit(v)})" for c, l, v in case["ops"]])
    o = coq_list([f"({qlit(s)}, {qlit(g)})" for s, g, _ in obs])
    return f"({qlit(case['s0'])}, {ops}, {o})"


# =====================================================================================
# (C) scico.random
# =====================================================================================

RND_DT = ["float32", "float64", "complex64"]
# values for the parameters of jax.random samplers that have no default
RND_ARGS = {
    "ball": {"d": 2}, "beta": {"a": 2.0, "b": 3.0}, "binomial": {"n": 5.0, "p": 0.5},
    "categorical": {"logits": [0.1, 0.5, 0.4]}, "chisquare": {"df": 3.0}, "choice": {"a": 5},
    "dirichlet": {"alpha": [1.0, 2.0, 3.0]}, "double_sided_maxwell": {"loc": 0.5, "scale": 2.0},
    "f": {"dfnum": 3.0, "dfden": 4.0}, "gamma": {"a": 2.0}, "generalized_normal": {"p": 1.5},
    "geometric": {"p": 0.3}, "loggamma": {"a": 2.0},
    "multivariate_normal": {"mean": [0.0, 1.0], "cov": [[1.0, 0.25], [0.25, 2.0]]}, "orthogonal": {"n": 2},
    "pareto": {"b": 2.0}, "poisson": {"lam": 3.0}, "randint": {"minval": 0, "maxval": 10}, "rayleigh": {"scale": 2.0},
    "t": {"df": 3.0}, "triangular": {"left": 0.0, "mode": 0.5, "right": 2.0},
    "truncated_normal": {"lower": -1.0, "upper": 2.0}, "wald": {"mean": 1.5},
    "weibull_min": {"scale": 1.0, "concentration": 2.0},
}


def rnd_names():
    """every sampler scico.random exports through _wrap / _add_seed, plus the alias randn"""
    import scico.random as sr
    return sorted(sr.wrappable_func_names) + ["randn"]


def _digest(a) -> int:
    b = np.ascontiguousarray(np.asarray(a))
    return int(hashlib.sha1(str(b.dtype).encode() + str(b.shape).encode() + b.tobytes()).hexdigest()[:12], 16)


def _kd(k):
    import jax
    d = np.asarray(jax.random.key_data(k)) if hasattr(jax.random, "key_data") else np.asarray(k)
    return [int(d[0]), int(d[1])]


def rnd_params(name, dtype_idx):
    """ordered (name, value) of the jax sampler's parameters after `key` (shape left as None)"""
    import jax
    import jax.numpy as jnp
    jname = "normal" if name == "randn" else name
    sig = inspect.signature(getattr(jax.random, jname))
    out = []
    for k, prm in list(sig.parameters.items())[1:]:
        if k == "shape":
            v = None
        elif k == "dtype" and jname in ("normal", "uniform"):
            v = np.dtype(RND_DT[dtype_idx]).type
        elif k in RND_ARGS.get(jname, {}):
            v = RND_ARGS[jname][k]
            v = jnp.array(v) if isinstance(v, list) else v
        elif prm.default is inspect.Parameter.empty:
            raise Broken(f"scico.random.{name}: no argument value known for required parameter {k}")
        else:
            v = prm.default
        out.append((k, v))
    return out


def gen_rnd_case(rng, fn, mode=None, nested=None, nonzero_key=False, other_shapes=False):
    names = rnd_names()
    name = names[fn]
    nested = (rng.random() < 0.4) if nested is None else nested
    shs = [[8], [8]] if nested else [[8]]
    if other_shapes and rng.random() < 0.3:
        shs = [list(rng.choice([(2,), (3, 2), (4,)])) for _ in shs]
    jname = "normal" if name == "randn" else name
    d = rng.randrange(3 if jname == "normal" else 2) if jname in ("normal", "uniform") else 0
    # passing mode 0: keyword; 1: key and seed both positional; 2: key last positional (exactly
    # num_params positional arguments), seed -- if any -- by keyword
    mode = rng.choice([0, 1, 2, 2]) if mode is None else mode
    r = rng.random()
    key = seed = None
    if nonzero_key or r < 0.45:
        key = ["seed", rng.randint(1, 9), rng.randint(0, 2)]     # PRNGKey(s), s != 0, advanced n times
    elif r < 0.7:
        seed = rng.randint(0, 6)
    elif r < 0.85:
        key, seed = ["seed", rng.randint(1, 9), 0], rng.randint(0, 6)
    return {"fn": fn, "name": name, "nested": nested, "shapes": shs, "dtype": d, "mode": mode, "key": key, "seed": seed}


def _mk_key(kspec):
    import jax
    k = jax.random.PRNGKey(kspec[1])
    for _ in range(kspec[2]):
        k = jax.random.split(k, 2)[0]
    return k


def rnd_call(name, params, shape, mode, key, seed):
    """call scico.random.<name> with the parameters / key / seed bound as `mode` says"""
    import scico.random as sr
    f = getattr(sr, name)
    vals = [(k, shape if k == "shape" else v) for k, v in params]
    if name == "randn":                       # randn(shape, dtype=..., key=None, seed=None)
        vals = vals[:2]
    if mode == 0:
        kw = dict(vals)
        if key is not None:
            kw["key"] = key
        if seed is not None:
            kw["seed"] = seed
        return f(**kw)
    pos = [v for _, v in vals]
    if mode == 1:
        return f(*pos, key, seed)
    return f(*pos, key) if seed is None else f(*pos, key, seed=seed)


def run_rnd_impl(case, tabs):
    """tabs = (prng, split, gen) dictionaries filled from jax.random directly (the oracle)"""
    import jax
    from scico.numpy import BlockArray
    name = case["name"]
    jf = getattr(jax.random, "normal" if name == "randn" else name)
    params = rnd_params(name, case["dtype"])
    key = None if case["key"] is None else _mk_key(case["key"])
    shape = tuple(tuple(s) for s in case["shapes"]) if case["nested"] else tuple(case["shapes"][0])
    # oracle tables
    seeds = {0} | ({case["seed"]} if case["seed"] is not None else set())
    for s in seeds:
        tabs[0][s] = _kd(jax.random.PRNGKey(s))
    effk = key if key is not None else jax.random.PRNGKey(case["seed"] if case["seed"] is not None else 0)
    tabs[1][tuple(_kd(effk))] = _kd(jax.random.split(effk, 2)[0])
    for s in case["shapes"]:
        kw = {k: (tuple(s) if k == "shape" else v) for k, v in params}
        tabs[2][(case["fn"], tuple(_kd(effk)), tuple(s), case["dtype"])] = _digest(jf(effk, **kw))
    try:
        r, k2 = rnd_call(name, params, shape, case["mode"], key, case["seed"])
    except ValueError:
        return None
    isb = isinstance(r, BlockArray)
    return [isb, [_digest(b) for b in (list(r) if isb else [r])], _kd(k2)]


def coq_rnd_case(case, obs):
    shs = coq_list([coq_list([f"{t}%nat" for t in s]) for s in case["shapes"]])
    key = "None" if case["key"] is None else "(Some (%s, %s))" % tuple(zl(t) for t in _kd(_mk_key(case["key"])))
    seed = "None" if case["seed"] is None else f"(Some {zl(case['seed'])})"
    call = (f"({case['fn']}%nat, {'true' if case['nested'] else 'false'}, {shs}, {case['dtype']}%nat, "
            f"{case['mode']}%nat, {key}, {seed})")
    if obs is None:
        o = "None"
    else:
        o = (f"(Some ({'true' if obs[0] else 'false'}, {coq_list([zl(t) for t in obs[1]])}, "
             f"({zl(obs[2][0])}, {zl(obs[2][1])})))")
    return f"({call}, ({o} : obs_t))"


def coq_rnd_tabs(tabs):
    tp = coq_list([f"({zl(s)}, ({zl(k[0])}, {zl(k[1])}))" for s, k in sorted(tabs[0].items())])
    ts = coq_list([f"(({zl(a[0])}, {zl(a[1])}), ({zl(b[0])}, {zl(b[1])}))" for a, b in sorted(tabs[1].items())])
    tg = coq_list([f"(({fn}%nat, ({zl(k[0])}, {zl(k[1])}), {coq_list([f'{t}%nat' for t in s])}, {d}%nat), {zl(v)})"
                   for (fn, k, s, d), v in sorted(tabs[2].items())], ";\n ")
    return (f"Definition t_prng : list (Z * zkey) := {tp}.\nDefinition t_split : list (zkey * zkey) := {ts}.\n"
            f"Definition t_gen : list ((nat * zkey * list nat * nat) * Z) := {tg}.\n")


# =====================================================================================
# (D) assigned locations -> Defaults.v checker
# =====================================================================================

MUTATORS = {"update", "append", "extend", "pop", "popitem", "clear", "setdefault", "insert", "remove",
            "sort", "reverse", "add", "discard", "__setitem__", "__delitem__", "__setattr__"}
# methods that present themselves as pure (build a new object / return a value): `self` is protected
PURE_METHODS = {"__mul__", "__rmul__", "__truediv__", "__add__", "__sub__", "__neg__", "__matmul__",
                "__rmatmul__", "__call__", "prox", "conj_prox", "grad", "adj", "T", "H", "conj", "gram_op",
                "gram", "hessian", "jvp", "vjp", "freeze", "__getitem__", "__repr__", "compute_rhs"}
# `<x>.step_size.update(v)` is PGMStepSize.update (the solver's own auxiliary object), not dict.update
OWN_UPDATE_RECEIVERS = {"step_size"}
# documented cache slots written by otherwise pure methods (TVNorm: modelled in TVNorm.v;
# LinearOperator: "_set_adjoint will be called silently at the first adj call")
CACHE_WRITES = {("TVNorm", "__call__", "G"), ("TVNorm", "prox", "WP"), ("TVNorm", "prox", "CWT"),
                ("TVNorm", "prox", "prox_ndims"), ("TVNorm", "prox", "prox_slice")}

DEFAULT_UNITS = [
    ("scico/optimize/_admmaux.py", None),
    ("scico/loss.py", None),
    ("scico/optimize/_pgm.py", None),
    ("scico/optimize/_pgmaux.py", None),
    ("scico/optimize/_admm.py", None),
    ("scico/optimize/_ladmm.py", None),
    ("scico/optimize/_padmm.py", None),
    ("scico/optimize/_primaldual.py", None),
    ("scico/functional/_tvnorm.py", ["TVNorm"]),
    ("scico/functional/_functional.py", None),
    ("scico/operator/_operator.py", ["Operator"]),
    ("scico/linop/_linop.py", ["LinearOperator", "ComposedLinearOperator"]),
    ("scico/function.py", None),
]


class _Lower:
    """One class -> list of Defaults.v statements (flow-insensitive, all methods together)."""
    ITEM = 0

    def __init__(self, cname):
        self.cname = cname
        self.vars: dict = {"<prot>": 0}
        self.fields: dict = {"<item>": 0}
        self.stmts: list = []
        self.tainted = [0]
        self.dropped: list = []
        self.calls_out = 0
        self.method = ""

    def var(self, name):
        k = f"{self.method}:{name}"
        if k not in self.vars:
            self.vars[k] = len(self.vars)
        return self.vars[k]

    def tmp(self):
        return self.var(f"<t{len(self.vars)}>")

    def field(self, name):
        if name not in self.fields:
            self.fields[name] = len(self.fields)
        return self.fields[name]

    def emit(self, *s):
        self.stmts.append(s)

    # -- expressions: returns the variable holding the value
    def lower(self, e):
        if isinstance(e, ast.Name):
            return self.var(e.id)
        if isinstance(e, ast.Attribute):
            b = self.lower(e.value)
            t = self.tmp()
            self.emit("load", t, b, self.field(e.attr))
            return t
        if isinstance(e, ast.Subscript):
            b = self.lower(e.value)
            t = self.tmp()
            self.emit("load", t, b, self.ITEM)
            return t
        if isinstance(e, ast.Starred):
            return self.lower(e.value)
        if isinstance(e, (ast.IfExp,)):
            t = self.tmp()
            for sub in (e.body, e.orelse):
                self.emit("move", t, self.lower(sub))
            return t
        if isinstance(e, ast.BoolOp):
            t = self.tmp()
            for sub in e.values:
                self.emit("move", t, self.lower(sub))
            return t
        if isinstance(e, ast.NamedExpr):
            v = self.lower(e.value)
            self.emit("move", self.var(e.target.id), v)
            return v
        if isinstance(e, ast.Call):
            fn = e.func
            args = list(e.args) + [k.value for k in e.keywords]
            # shallow copies
            if (isinstance(fn, ast.Name) and fn.id in ("copy", "dict", "list", "set") and len(args) == 1) or \
               (isinstance(fn, ast.Attribute) and fn.attr == "copy" and len(args) <= 1):
                src = self.lower(args[0] if (isinstance(fn, ast.Name) or args) else fn.value)
                t = self.tmp()
                self.emit("copy", t, src)
                return t
            t = self.tmp()
            self.emit("new", t)
            if isinstance(fn, ast.Attribute):
                recv = self.lower(fn.value)
                if fn.attr in MUTATORS and not (fn.attr == "update" and isinstance(fn.value, ast.Attribute)
                                                and fn.value.attr in OWN_UPDATE_RECEIVERS):
                    for a in args:
                        self.emit("store", recv, self.ITEM, self.lower(a))
                    if not args:
                        n = self.tmp()
                        self.emit("new", n)
                        self.emit("store", recv, self.ITEM, n)
                    self.emit("load", t, recv, self.ITEM)      # pop/setdefault return an element
                    return t
                self.emit("store", t, self.ITEM, recv)
                self.calls_out += 1
            elif isinstance(fn, ast.Name) and fn.id == "setattr" and len(args) == 3:
                self.emit("store", self.lower(args[0]), self.ITEM, self.lower(args[2]))
                return t
            elif isinstance(fn, ast.Name) and fn.id == "getattr" and len(args) >= 2:
                self.emit("load", t, self.lower(args[0]), self.ITEM)
                b = self.lower(args[0])
                for f in list(self.fields.values()):
                    self.emit("load", t, b, f)
                return t
            else:
                self.calls_out += 1
            for a in args:
                self.emit("store", t, self.ITEM, self.lower(a))   # the result may contain its arguments
            return t
        if isinstance(e, (ast.Lambda, ast.ListComp, ast.GeneratorExp, ast.DictComp, ast.SetComp)):
            # closure / comprehension: may contain every free name
            t = self.tmp()
            self.emit("new", t)
            if not isinstance(e, ast.Lambda):
                for g in e.generators:
                    self.assign(g.target, self._elem(self.lower(g.iter)))
            for n in ast.walk(e):
                if isinstance(n, ast.Call):
                    self.lower(n)
                elif isinstance(n, ast.Name):
                    self.emit("store", t, self.ITEM, self.var(n.id))
            return t
        # literals, arithmetic, comparisons, f-strings ...: a fresh value that may contain the operands
        t = self.tmp()
        self.emit("new", t)
        for c in ast.iter_child_nodes(e):
            if isinstance(c, ast.expr) and not isinstance(c, (ast.Constant,)):
                self.emit("store", t, self.ITEM, self.lower(c))
        return t

    def _elem(self, v):
        t = self.tmp()
        self.emit("load", t, v, self.ITEM)
        return t

    def assign(self, target, v):
        if isinstance(target, ast.Name):
            self.emit("move", self.var(target.id), v)
        elif isinstance(target, ast.Attribute):
            key = (self.cname, self.method, target.attr)
            if key in CACHE_WRITES and isinstance(target.value, ast.Name) and target.value.id == "self":
                self.dropped.append("%s.%s: self.%s (cache slot)" % key)
                # the cached value is still reachable from self: keep the taint flow, drop the permission check
                self.emit("move", self.var("<cache>"), v)
                return
            self.emit("store", self.lower(target.value), self.field(target.attr), v)
        elif isinstance(target, ast.Subscript):
            self.emit("store", self.lower(target.value), self.ITEM, v)
        elif isinstance(target, (ast.Tuple, ast.List)):
            for t in target.elts:
                self.assign(t, self._elem(v))
        elif isinstance(target, ast.Starred):
            self.assign(target.value, v)
        else:
            raise Broken("assigned-locations translator: unsupported target " + ast.dump(target)[:80])

    def stmt(self, s):
        if isinstance(s, ast.Assign):
            v = self.lower(s.value)
            for t in s.targets:
                if isinstance(t, (ast.Tuple, ast.List)) and isinstance(s.value, ast.Call):
                    # several results of one call: each is a fresh value that may contain the arguments
                    for e in t.elts:
                        self.assign(e, v)
                else:
                    self.assign(t, v)
        elif isinstance(s, ast.AnnAssign):
            if s.value is not None:
                self.assign(s.target, self.lower(s.value))
        elif isinstance(s, ast.AugAssign):
            v = self.lower(s.value)
            if isinstance(s.target, ast.Name):
                x = self.var(s.target.id)
                # in-place for mutable builtins (list +=, dict |=): a store into x; otherwise a rebinding
                self.emit("store", x, self.ITEM, v)
                n = self.tmp()
                self.emit("new", n)
                self.emit("store", n, self.ITEM, v)
                self.emit("move", x, n)
            else:
                self.assign(s.target, v)
        elif isinstance(s, ast.Delete):
            for t in s.targets:
                if isinstance(t, (ast.Attribute, ast.Subscript)):
                    n = self.tmp()
                    self.emit("new", n)
                    self.assign(t, n)
        elif isinstance(s, ast.Expr):
            if not isinstance(s.value, ast.Constant):
                self.lower(s.value)
        elif isinstance(s, (ast.Return,)):
            if s.value is not None:
                self.lower(s.value)
        elif isinstance(s, (ast.For, ast.AsyncFor)):
            self.assign(s.target, self._elem(self.lower(s.iter)))
            for b in s.body + s.orelse:
                self.stmt(b)
        elif isinstance(s, ast.While):
            self.lower(s.test)
            for b in s.body + s.orelse:
                self.stmt(b)
        elif isinstance(s, ast.If):
            self.lower(s.test)
            for b in s.body + s.orelse:
                self.stmt(b)
        elif isinstance(s, (ast.With, ast.AsyncWith)):
            for it in s.items:
                v = self.lower(it.context_expr)
                if it.optional_vars is not None:
                    self.assign(it.optional_vars, v)
            for b in s.body:
                self.stmt(b)
        elif isinstance(s, ast.Try):
            for b in s.body + s.orelse + s.finalbody:
                self.stmt(b)
            for h in s.handlers:
                for b in h.body:
                    self.stmt(b)
        elif isinstance(s, (ast.FunctionDef, ast.AsyncFunctionDef)):
            # nested function: its statements belong to the same flow-insensitive set; its
            # parameters may receive anything the enclosing scope holds
            for a in s.args.args + s.args.kwonlyargs:
                self.emit("move", self.var(a.arg), 0)
            for b in s.body:
                self.stmt(b)
        elif isinstance(s, (ast.Raise, ast.Assert, ast.Pass, ast.Break, ast.Continue, ast.Import,
                            ast.ImportFrom, ast.Global, ast.Nonlocal)):
            pass
        else:
            raise Broken("assigned-locations translator: unsupported statement " + type(s).__name__)

    def method_def(self, fd):
        self.method = fd.name
        a = fd.args
        params = [p.arg for p in a.posonlyargs + a.args + a.kwonlyargs]
        for pname in params:
            v = self.var(pname)
            if pname == "self":
                if fd.name in PURE_METHODS:
                    self.emit("move", v, 0)
            else:
                self.emit("move", v, 0)                      # attached objects / defaults: protected
        for extra in (a.vararg, a.kwarg):
            if extra is not None:                            # fresh container holding protected things
                v = self.var(extra.arg)
                self.emit("new", v)
                self.emit("store", v, self.ITEM, 0)
        for b in fd.body:
            self.stmt(b)


def defaults_programs(repo):
    """-> list of (unit name, stmts, nvars, dropped cache writes, n mutable defaults)"""
    res = []
    for rel, only in DEFAULT_UNITS:
        src = (repo / rel).read_text()
        tree = ast.parse(src)
        for node in tree.body:
            if isinstance(node, ast.ClassDef) and (only is None or node.name in only):
                lw = _Lower(node.name)
                nmd = 0
                for fd in node.body:
                    if isinstance(fd, (ast.FunctionDef, ast.AsyncFunctionDef)):
                        nmd += sum(isinstance(d, (ast.Dict, ast.List, ast.Set)) for d in
                                   fd.args.defaults + [k for k in fd.args.kw_defaults if k is not None])
                        lw.method_def(fd)
                res.append((f"{rel}:{node.name}", lw.stmts, len(lw.vars), lw.dropped, nmd, lw))
    return res


def coq_stmt(s):
    k = s[0]
    if k == "move":
        return f"SMove {s[1]} {s[2]}"
    if k == "new":
        return f"SNew {s[1]}"
    if k == "load":
        return f"SLoad {s[1]} {s[2]} {s[3]}"
    if k == "store":
        return f"SStore {s[1]} {s[2]} {s[3]}"
    return f"SCopy {s[1]} {s[2]}"


def defaults_fixpoint(stmts, vars0=(0,)):
    """least abstraction closed under the transfer functions (untrusted: Coq re-checks it with
    Defaults.check); also returns the stores through possibly protected variables"""
    tv, tf, tall = set(vars0), set(), False
    changed = True
    while changed:
        changed = False
        for s in stmts:
            k = s[0]
            if k == "move" and s[2] in tv and s[1] not in tv:
                tv.add(s[1]); changed = True
            elif k == "load" and (s[2] in tv or tall or s[3] in tf) and s[1] not in tv:
                tv.add(s[1]); changed = True
            elif k == "store" and s[3] in tv and not (tall or s[2] in tf):
                tf.add(s[2]); changed = True
            elif k == "copy" and s[2] in tv and not tall:
                tall = True; changed = True
    offending = [s for s in stmts if s[0] == "store" and s[1] in tv]
    return sorted(tv), sorted(tf), tall, offending


# =====================================================================================
# (E) execution modes / repetition / interleaving -- decided by correspondence only
# =====================================================================================

def operator_catalogue(rng):
    """name -> (builder(jit, dtype) -> operator, input dtype list, linear?)"""
    import scico.numpy as snp
    from scico import linop, operator
    from scico.linop import optics
    from scico.functional._tvnorm import HaarTransform, FiniteSum
    sh = (3, 4)
    d1 = np.array([[rng.randint(-8, 8) / 4 for _ in range(4)] for _ in range(3)])
    M = np.array([[rng.randint(-8, 8) / 4 for _ in range(3)] for _ in range(2)])
    h = np.array([[1.0, -0.5], [0.25, 2.0]])
    R, C = ["float32", "float64"], ["complex64", "complex128"]

    def dt(d):
        return np.dtype(d).type
    cat = {
        "Identity": (lambda j, d: linop.Identity(sh, input_dtype=dt(d), jit=j), R + C, True),
        "ScaledIdentity": (lambda j, d: linop.ScaledIdentity(1.5, sh, input_dtype=dt(d), jit=j), R, True),
        "Diagonal": (lambda j, d: linop.Diagonal(snp.array(d1.astype(d)), jit=j), R + C, True),
        "MatrixOperator": (lambda j, d: _jitif(linop.MatrixOperator(snp.array(M.astype(d)), input_cols=4), j), R, "mat"),
        "FiniteDifference": (lambda j, d: linop.FiniteDifference(sh, input_dtype=dt(d), circular=True, jit=j), R + C, True),
        "FiniteDifference-append": (lambda j, d: linop.FiniteDifference(sh, input_dtype=dt(d), append=0, jit=j), R, True),
        "SingleAxisFiniteDifference": (lambda j, d: linop.SingleAxisFiniteDifference(sh, input_dtype=dt(d), axis=0, jit=j), R, True),
        "Sum": (lambda j, d: linop.Sum(sh, axis=0, input_dtype=dt(d), jit=j), R, True),
        "Slice": (lambda j, d: linop.Slice(np.s_[1:, ::2], sh, input_dtype=dt(d), jit=j), R, True),
        "Pad": (lambda j, d: linop.Pad(sh, pad_width=1, input_dtype=dt(d), jit=j), R, True),
        "Crop": (lambda j, d: linop.Crop(((1, 0), (0, 1)), sh, input_dtype=dt(d), jit=j), R, True),
        "Reshape": (lambda j, d: linop.Reshape(sh, shape=(4, 3), input_dtype=dt(d), jit=j), R, True),
        "Transpose": (lambda j, d: linop.Transpose(sh, input_dtype=dt(d), jit=j), R, True),
        "DFT": (lambda j, d: linop.DFT(sh, jit=j), ["complex64", "complex128"], "dft"),
        "CircularConvolve": (lambda j, d: linop.CircularConvolve(snp.array(h.astype(d)), sh, input_dtype=dt(d), jit=j), R, True),
        "Convolve": (lambda j, d: linop.Convolve(snp.array(h.astype(d)), sh, input_dtype=dt(d), jit=j), R, True),
        "ConvolveByX": (lambda j, d: linop.ConvolveByX(snp.array(d1.astype(d)), (2, 2), input_dtype=dt(d), jit=j), R, "cbx"),
        "VerticalStack": (lambda j, d: linop.VerticalStack(
            (linop.Identity(sh, input_dtype=dt(d)), linop.Diagonal(snp.array(d1.astype(d)))), jit=j), R, True),
        "DiagonalStack": (lambda j, d: linop.DiagonalStack(
            (linop.Identity(sh, input_dtype=dt(d)), linop.Diagonal(snp.array(d1.astype(d)))), jit=j), R, "dstack"),
        # (DiagonalReplicated(..., jit=...) raises TypeError "multiple values for keyword argument 'jit'": jit via .jit())
        "DiagonalReplicated": (lambda j, d: _jitif(linop.DiagonalReplicated(
            linop.Diagonal(snp.array(d1[0].astype(d))), 3), j), R, True),
        "ProjectedGradient": (lambda j, d: linop.ProjectedGradient(sh, input_dtype=dt(d), jit=j), R, True),
        "PolarGradient": (lambda j, d: linop.PolarGradient(sh, input_dtype=dt(d), jit=j), R, True),
        "Composed": (lambda j, d: _jitif(linop.FiniteDifference(sh, input_dtype=dt(d), circular=True, jit=False)
                                         @ linop.Diagonal(snp.array(d1.astype(d))), j), R, True),
        "Sum-of-linops": (lambda j, d: _jitif(linop.Diagonal(snp.array(d1.astype(d))) + 2.0 * linop.Identity(sh, input_dtype=dt(d)), j), R, True),
        "HaarTransform": (lambda j, d: HaarTransform(sh, input_dtype=dt(d), jit=j), R, True),
        "FiniteSum": (lambda j, d: FiniteSum(sh, input_dtype=dt(d), jit=j), R, True),
        "AngularSpectrumPropagator": (lambda j, d: optics.AngularSpectrumPropagator((4, 6), dx=1.0, k0=1.0, z=2.0, jit=j), ["complex64"], True),
        "FresnelPropagator": (lambda j, d: optics.FresnelPropagator((4, 6), dx=1.0, k0=1.0, z=2.0, jit=j), ["complex64"], True),
        "FraunhoferPropagator": (lambda j, d: optics.FraunhoferPropagator((4, 6), dx=1.0, k0=1.0, z=36.0, jit=j), ["complex64"], True),
        "AngularSpectrumPropagator-1d": (lambda j, d: optics.AngularSpectrumPropagator((8,), dx=1.0, k0=1.0, z=2.0, jit=j), ["complex64"], True),
        # generic LinearOperator from eval_fn only: the adjoint is derived automatically (R->R, C->C, R->C)
        "LinearOperator(eval_fn)-RR": (lambda j, d: linop.LinearOperator(sh, eval_fn=lambda v: 1.5 * v + snp.roll(v, 1, 0),
                                                                         input_dtype=dt(d), jit=j), R, True),
        "LinearOperator(eval_fn)-CC": (lambda j, d: linop.LinearOperator(sh, eval_fn=lambda v: (1.5 - 0.5j) * v + snp.roll(v, 1, 0),
                                                                         input_dtype=dt(d), jit=j), C, True),
        "LinearOperator(eval_fn)-RC": (lambda j, d: linop.LinearOperator(sh, eval_fn=lambda v: (1.5 - 0.5j) * v + 2j * snp.roll(v, 1, 0),
                                                                         input_dtype=dt(d), jit=j), R, True),
        "LinearOperator(eval_fn)-RC-stacked": (lambda j, d: _jitif(linop.LinearOperator(
            sh, eval_fn=lambda v: (0.5 + 2j) * v, input_dtype=dt(d), jit=False) @ linop.Diagonal(snp.array(d1.astype(d))), j), R, True),
        "Abs": (lambda j, d: operator.Abs(sh, input_dtype=dt(d), jit=j), R + C, False),
        "Angle": (lambda j, d: operator.Angle(sh, input_dtype=dt(d), jit=j), C, False),
        "Exp": (lambda j, d: operator.Exp(sh, input_dtype=dt(d), jit=j), R, False),
        "BiConvolve": (lambda j, d: operator.BiConvolve(((3, 4), (2, 2)), input_dtype=dt(d), jit=j), R, "biconv"),
        "Operator(eval_fn)": (lambda j, d: operator.Operator(sh, eval_fn=lambda x: x * x + 1.0, input_dtype=dt(d), jit=j), R, False),
        "Operator-scaled-sum": (lambda j, d: _jitif(2.0 * operator.Exp(sh, input_dtype=dt(d), jit=False)
                                                    + operator.Abs(sh, input_dtype=dt(d), jit=False), j), R, False),
    }
    return cat


def _jitif(op, j):
    if j:
        op.jit()
    return op


def op_input(rng, name, kind, op, d):
    import scico.numpy as snp
    if kind == "biconv" or (kind == "dstack" and isinstance(op.input_shape[0], tuple)):
        shp = op.input_shape
        return snp.blockarray([np.asarray(dy_array(rng, tuple(s), d)) for s in shp])
    return dy_array(rng, tuple(op.input_shape), d)


def check_modes_operator(ctx, rng, name, entry, d):
    """eager vs constructor-jit vs jax.jit vs disable_jit; repetition; a rejected call in between"""
    import jax
    import scico.numpy as snp
    build, _, kind = entry
    op_e = build(False, d)
    x = op_input(rng, name, kind, op_e, d)
    ref = outcome(lambda: op_e(x))
    tol = TOL[d]
    results = {}
    results["constructor-jit"] = outcome(lambda: build(True, d)(x))
    op_c = build(False, d)
    results["jax.jit(op)"] = outcome(lambda: jax.jit(lambda v: op_c(v))(x))

    def dis():
        with jax.disable_jit():
            return build(True, d)(x)
    results["disable_jit"] = outcome(dis)
    opj = build(True, d)
    _ = outcome(lambda: opj(x))
    results["repeat-2nd-call"] = outcome(lambda: opj(x))
    # interleave: a call the object rejects (other shape), another input, then the same call again
    bad = outcome(lambda: opj(snp.zeros((7,), dtype=d)))
    x2 = op_input(rng, name, kind, op_e, d)
    _ = outcome(lambda: opj(x2))
    results["after-interleaved-calls"] = outcome(lambda: opj(x))
    methods = [("__call__", ref, results)]
    if kind is not False and ref[0] == "ok":
        y = ref[1]
        refa = outcome(lambda: build(False, d).adj(y))
        ra = {"constructor-jit": outcome(lambda: build(True, d).adj(y)),
              "jax.jit(op.adj)": outcome(lambda: jax.jit(lambda v: op_c.adj(v))(y))}

        def disa():
            with jax.disable_jit():
                return build(True, d).adj(y)
        ra["disable_jit"] = outcome(disa)
        o2 = build(False, d)
        _ = outcome(lambda: o2(x)); _ = outcome(lambda: o2.adj(y)); _ = outcome(lambda: o2.gram(x))
        ra["after-call-adj-gram"] = outcome(lambda: o2.adj(y))
        methods.append(("adj", refa, ra))
        refg = outcome(lambda: build(False, d).gram(x))
        rg = {"constructor-jit": outcome(lambda: build(True, d).gram(x)),
              "A.H(A(x))": outcome(lambda: build(False, d).H(build(False, d)(x)))}
        methods.append(("gram", refg, rg))
    for meth, r0, res in methods:
        for mode, r in res.items():
            ctx.count("mode:" + mode, {"op": name, "dtype": d, "method": meth, "mode": mode})
            ok, why = same_outcome(r, r0, tol)
            if not ok:
                ctx.violation(f"{name}.{meth}", f"result under '{mode}' differs from the eager fresh-object result",
                              {"operator": name, "dtype": d, "method": meth, "mode": mode,
                               "x": np.asarray(blocks_of(x)[0]).tolist()},
                              expected="eager result", observed=why, oracle="eager evaluation on a fresh object")
    return bad


def check_jit_option(ctx, rng, cat):
    """the constructor's jit option: EVERY catalogued class built with jit=True and with jit=False;
    forward, adj, H, T, gram, gram_op on the same inputs must agree to rounding"""
    from scico.function import Function
    import scico.numpy as snp
    for name in sorted(cat):
        build, dts, kind = cat[name]
        d = dts[-1] if not ctx.quick else rng.choice(dts)
        try:
            on, off = build(True, d), build(False, d)
            x = op_input(rng, name, kind, off, d)
        except Exception as e:  # noqa: BLE001
            ctx.obligation(False, f"jit on/off check of {name} ({d}) could not be set up", type(e).__name__ + ": " + str(e)[:200])
            continue
        y = outcome(lambda: off(x))
        evals = [("__call__", lambda o: o(x))]
        if kind is not False and y[0] == "ok":
            yy = y[1]
            evals += [("adj", lambda o: o.adj(yy)), ("H", lambda o: o.H(yy)), ("gram", lambda o: o.gram(x)),
                      ("gram_op", lambda o: o.gram_op(x)), ("H.adj", lambda o: o.H.adj(x))]
            if not d.startswith("complex"):
                evals.append(("T", lambda o: o.T(yy)))
            else:
                evals.append(("T", lambda o: o.T(yy)))
        # call order: adj used BEFORE .jit() vs .jit() first (objects whose adjoint is derived lazily)
        pre = None
        if kind is not False and y[0] == "ok" and (not ctx.quick or name.startswith(("LinearOperator(", "Composed", "Sum-of"))):
            pre = build(False, d)
            r0 = outcome(lambda: (pre.adj(y[1]), pre.jit()))
            if r0[0] == "exc":
                pre = None
        for meth, ev in evals:
            a, b = outcome(lambda: ev(on)), outcome(lambda: ev(off))
            if pre is not None and meth != "__call__":
                c = outcome(lambda: ev(pre))
                ctx.count("jit-option", {"class": name, "dtype": d, "method": meth, "order": "adj before jit()"})
                okc, whyc = same_outcome(a, c, TOL[d])
                if not okc:
                    ctx.violation(f"{name}.{meth}", "object jitted at construction and object whose adj was used before .jit() disagree",
                                  {"operator": name, "dtype": d, "method": meth, "mode": "jit() first vs adj before jit()",
                                   "x": np.asarray(blocks_of(x)[0]).tolist()},
                                  expected="agreement to rounding", observed=whyc, oracle="call order of adj and jit()")
            ctx.count("jit-option", {"class": name, "dtype": d, "method": meth})
            ok, why = same_outcome(a, b, TOL[d])
            if not ok:
                ctx.violation(f"{name}.{meth}", "object built with jit=True and object built with jit=False disagree",
                              {"operator": name, "dtype": d, "method": meth, "mode": "constructor jit on vs off",
                               "x": np.asarray(blocks_of(x)[0]).tolist()},
                              expected="agreement to rounding", observed=why, oracle="constructor jit option on / off")
    # scico.function.Function(jit=...)
    for d in ("float64",):
        mkf = lambda j: Function(((3, 4), (3, 4)), output_shape=(3, 4), eval_fn=lambda a, b: a * b - 2.0 * b,  # noqa: E731
                                 input_dtypes=np.float64, jit=j)
        u, v = dy_array(rng, (3, 4), d), dy_array(rng, (3, 4), d)
        for meth, ev in (("__call__", lambda o: o(u, v)), ("slice", lambda o: o.slice(0, v)(u)),
                         ("join", lambda o: o.join()(snp.blockarray([u, v])))):
            a, b = outcome(lambda: ev(mkf(True))), outcome(lambda: ev(mkf(False)))
            ctx.count("jit-option", {"class": "Function", "dtype": d, "method": meth})
            ok, why = same_outcome(a, b, TOL[d])
            if not ok:
                ctx.violation(f"Function.{meth}", "object built with jit=True and object built with jit=False disagree",
                              {"operator": "Function", "dtype": d, "method": meth, "mode": "constructor jit on vs off"},
                              expected="agreement to rounding", observed=why, oracle="constructor jit option on / off")


def functional_catalogue():
    from scico import functional
    import scico.numpy as snp
    sh = (3, 4)
    F = functional
    cat = {
        "L0Norm": lambda: F.L0Norm(), "L1Norm": lambda: F.L1Norm(), "SquaredL2Norm": lambda: F.SquaredL2Norm(),
        "L2Norm": lambda: F.L2Norm(), "L21Norm": lambda: F.L21Norm(), "HuberNorm": lambda: F.HuberNorm(0.7),
        "HuberNorm-nonsep": lambda: F.HuberNorm(0.7, separable=False), "NuclearNorm": lambda: F.NuclearNorm(),
        "L1MinusL2Norm": lambda: F.L1MinusL2Norm(0.6), "NonNegativeIndicator": lambda: F.NonNegativeIndicator(),
        "L2BallIndicator": lambda: F.L2BallIndicator(1.3), "ZeroFunctional": lambda: F.ZeroFunctional(),
        "SetDistance": lambda: F.SetDistance(lambda x: snp.maximum(x, 0.0)),
        "SquaredSetDistance": lambda: F.SquaredSetDistance(lambda x: snp.maximum(x, 0.0)),
        "ScaledFunctional": lambda: 1.5 * F.L1Norm(),
        "FunctionalSum": lambda: F.L1Norm() + F.SquaredL2Norm(),
        "ProximalAverage": lambda: F.ProximalAverage([F.L1Norm(), F.SquaredL2Norm()], [0.25, 0.75]),
        "AnisotropicTVNorm-circ": lambda: F.AnisotropicTVNorm(circular=True),
        "AnisotropicTVNorm": lambda: F.AnisotropicTVNorm(),
        "IsotropicTVNorm-circ": lambda: F.IsotropicTVNorm(circular=True),
        "IsotropicTVNorm": lambda: F.IsotropicTVNorm(),
    }
    return cat


def check_modes_functional(ctx, rng, name, mk, d):
    import jax
    sh = (3, 4)
    x = dy_array(rng, sh, d)
    lam = 0.3
    is_tv = "TVNorm" in name

    def mk_decl():
        if is_tv:       # documented: give input_shape/dtype when the functional is used inside jit
            from scico import functional
            cls = getattr(functional, name.split("-")[0])
            return cls(circular=name.endswith("circ"), input_shape=sh, input_dtype=np.dtype(d).type)
        return mk()
    for meth in ("__call__", "prox", "grad"):
        f0 = mk()
        if meth == "__call__" and not f0.has_eval or meth == "prox" and not f0.has_prox:
            continue
        if meth == "grad" and name not in ("SquaredL2Norm", "HuberNorm", "HuberNorm-nonsep", "L2Norm", "ScaledFunctional",
                                           "SquaredSetDistance", "FunctionalSum"):
            continue

        def do(f, v):
            return f(v) if meth == "__call__" else (f.prox(v, lam) if meth == "prox" else f.grad(v))
        ref = outcome(lambda: do(mk(), x))
        if ref[0] == "exc" and ref[1] == "NotImplementedError":
            continue
        fj = mk_decl()
        res = {"jax.jit": outcome(lambda: jax.jit(lambda v: do(fj, v))(x))}

        def dis():
            with jax.disable_jit():
                return do(mk(), x)
        res["disable_jit"] = outcome(dis)
        f1 = mk()
        _ = outcome(lambda: do(f1, x))
        res["repeat-2nd-call"] = outcome(lambda: do(f1, x))
        # interleave other shapes / parameters / methods (and, except for the TV norms whose
        # dtype-changing histories are the subject of stream (A), other dtypes) on the same object
        f2 = mk()
        for shp in ((5,), (2, 3), sh):
            v = dy_array(rng, shp, d)
            for m2 in ("__call__", "prox"):
                _ = outcome(lambda: (f2(v) if m2 == "__call__" else f2.prox(v, 0.9)))
        if not is_tv:
            for d2 in ("float32", "float64"):
                v = dy_array(rng, sh, d2)
                _ = outcome(lambda: f2(v)); _ = outcome(lambda: f2.prox(v, 0.9))
        res["after-interleaved-calls"] = outcome(lambda: do(f2, x))
        for mode, r in res.items():
            ctx.count("mode:" + mode, {"functional": name, "dtype": d, "method": meth, "mode": mode})
            ok, why = same_outcome(r, ref, TOL[d])
            if not ok:
                ctx.violation(f"{name}.{meth}", f"result under '{mode}' differs from the eager fresh-object result",
                              {"functional": name, "dtype": d, "method": meth, "mode": mode,
                               "x": np.asarray(x).tolist(), "lam": lam},
                              expected="eager result", observed=why, oracle="eager evaluation on a fresh object")


def loss_catalogue(rng):
    import scico.numpy as snp
    from scico import loss, linop
    sh = (3, 4)
    d1 = np.array([[rng.randint(1, 8) / 4 for _ in range(4)] for _ in range(3)])

    def mk(cls, d, A=True, **kw):
        y = snp.array((np.abs(d1) + 0.5).astype(d))
        Aop = linop.Diagonal(snp.array(d1.astype(d))) if A else None
        return getattr(loss, cls)(y=y, A=Aop, **kw)
    return {"SquaredL2Loss": lambda d: mk("SquaredL2Loss", d), "SquaredL2Loss-noA": lambda d: mk("SquaredL2Loss", d, A=False),
            "SquaredL2Loss-W": lambda d: mk("SquaredL2Loss", d, W=linop.Diagonal(snp.array((d1 + 1).astype(d)))),
            "PoissonLoss": lambda d: mk("PoissonLoss", d), "SquaredL2AbsLoss": lambda d: mk("SquaredL2AbsLoss", d),
            "SquaredL2SquaredAbsLoss": lambda d: mk("SquaredL2SquaredAbsLoss", d)}


def check_modes_loss(ctx, rng, name, mk, d):
    import jax
    x = dy_array(rng, (3, 4), d, lo=0, hi=3) + 0.25
    for meth in ("__call__", "grad", "prox"):
        def do(f, v):
            return f(v) if meth == "__call__" else (f.grad(v) if meth == "grad" else f.prox(v, 0.3))
        if meth == "prox" and not mk(d).has_prox:
            continue
        ref = outcome(lambda: do(mk(d), x))
        fj = mk(d)
        res = {"jax.jit": outcome(lambda: jax.jit(lambda v: do(fj, v))(x))}

        def dis():
            with jax.disable_jit():
                return do(mk(d), x)
        res["disable_jit"] = outcome(dis)
        f1 = mk(d)
        _ = outcome(lambda: do(f1, x)); _ = outcome(lambda: (2.0 * f1).grad(x)); _ = outcome(lambda: f1(x + 1.0))
        res["after-rescale-and-other-calls"] = outcome(lambda: do(f1, x))
        tol = TOL[d] if meth != "prox" or "noA" in name else max(TOL[d], 1e-6)   # prox via CG iterations otherwise
        for mode, r in res.items():
            ctx.count("mode:" + mode, {"loss": name, "dtype": d, "method": meth, "mode": mode})
            ok, why = same_outcome(r, ref, tol)
            if not ok:
                ctx.violation(f"{name}.{meth}", f"result under '{mode}' differs from the eager fresh-object result",
                              {"loss": name, "dtype": d, "method": meth, "mode": mode, "x": np.asarray(x).tolist()},
                              expected="eager result", observed=why, oracle="eager evaluation on a fresh object")


# =====================================================================================
# (F) deep snapshots of object graphs
# =====================================================================================

def snapshot(root, ignore_lazy=True):
    """canonical deep description of the object graph below `root` (attribute tables, containers,
    array contents, identity structure: shared sub-objects get the index of their first visit)"""
    import jax
    from scico.numpy import BlockArray
    seen: dict = {}

    def go(o, depth, path="$"):
        if o is None or isinstance(o, (bool, int, float, complex, str, bytes, type, np.dtype)):
            return repr(o)
        if isinstance(o, (np.generic,)):
            return repr(o)
        if isinstance(o, (np.ndarray, jax.Array)):
            try:
                a = np.asarray(o)
            except Exception:  # noqa: BLE001 (tracers)
                return ("array?", str(type(o)))
            return ("array", str(a.dtype), a.shape, hashlib.sha1(a.tobytes()).hexdigest()[:16])
        if id(o) in seen:
            return ("ref", seen[id(o)])
        seen[id(o)] = path
        if depth > 12:
            return ("deep", type(o).__name__)
        if isinstance(o, BlockArray):
            return ("blockarray", [go(b, depth + 1, f"{path}[{i}]") for i, b in enumerate(o)])
        if isinstance(o, (list, tuple)):
            return (type(o).__name__, [go(t, depth + 1, f"{path}[{i}]") for i, t in enumerate(o)])
        if isinstance(o, dict):
            return ("dict", [(repr(k), go(v, depth + 1, f"{path}[{k!r}]")) for k, v in o.items()])
        if isinstance(o, (set, frozenset)):
            return ("set", sorted(repr(t) for t in o))
        if callable(o) and not hasattr(o, "__dict__") or inspect.isfunction(o) or inspect.ismethod(o) \
                or type(o).__name__ in ("PjitFunction", "partial", "builtin_function_or_method", "method-wrapper"):
            return ("callable", getattr(o, "__qualname__", type(o).__name__), id(o))
        d = getattr(o, "__dict__", None)
        if d is None:
            return ("opaque", type(o).__name__, id(o))
        return ("object", type(o).__name__, [(k, go(v, depth + 1, f"{path}.{k}")) for k, v in d.items()])
    return go(root, 0)


def snap_diff(a, b, path="", allow=()):
    """list of paths at which two snapshots differ, minus the allowed field names"""
    if a == b:
        return []
    if isinstance(a, tuple) and isinstance(b, tuple) and a and b and a[0] == b[0] == "object" and a[1] == b[1]:
        da, db = dict(a[2]), dict(b[2])
        out = []
        for k in list(da) + [k for k in db if k not in da]:
            if k in allow:
                continue
            if k not in da or k not in db:
                out.append(f"{path}.{k} ({'added' if k not in da else 'removed'})")
            else:
                out += snap_diff(da[k], db[k], f"{path}.{k}", allow)
        return out
    if isinstance(a, tuple) and isinstance(b, tuple) and a and b and a[0] == b[0] and a[0] in ("list", "tuple", "blockarray") \
            and len(a[1]) == len(b[1]):
        out = []
        for i, (x, y) in enumerate(zip(a[1], b[1])):
            out += snap_diff(x, y, f"{path}[{i}]", allow)
        return out
    if isinstance(a, tuple) and isinstance(b, tuple) and a and b and a[0] == b[0] == "dict" and \
            [k for k, _ in a[1]] == [k for k, _ in b[1]]:
        out = []
        for (k, x), (_, y) in zip(a[1], b[1]):
            out += snap_diff(x, y, f"{path}[{k}]", allow)
        return out
    return [f"{path}: {str(a)[:80]} -> {str(b)[:80]}"]


# fields an object may acquire / refresh through its OWN documented lazy initialisation:
#   _adj/_gram: "LinearOperator._set_adjoint will be called silently at the first adj call";
#   G/WP/CWT/prox_ndims/prox_slice: the TVNorm cache slots modelled in TVNorm.v;
#   admm/pgm + everything a second-stage initialiser (internal_init) sets on the auxiliary object
#   ITSELF: the documented back-reference and derived solver data;  info / accuracy: solver reports.
LAZY_FIELDS = ("_adj", "_gram", "G", "WP", "CWT", "prox_ndims", "prox_slice")


def mutable_defaults():
    """every mutable default argument of every function / method defined in scico"""
    import importlib
    import pkgutil
    import scico
    found = {}
    mods = []
    for m in pkgutil.walk_packages(scico.__path__, "scico."):
        if any(t in m.name for t in ("flax", "ray", "astra", "svmbir", "xdesign", "examples", "denoiser", "bm3d", "bm4d", "abel")):
            continue
        try:
            mods.append(importlib.import_module(m.name))
        except Exception:  # noqa: BLE001 optional dependencies
            continue
    for mod in mods:
        for _, obj in list(vars(mod).items()):
            fns = []
            if inspect.isfunction(obj):
                fns.append(obj)
            elif inspect.isclass(obj) and (getattr(obj, "__module__", "") or "").startswith("scico"):
                fns += [f for f in vars(obj).values() if inspect.isfunction(f)]
            for f in fns:
                if not (getattr(f, "__module__", "") or "").startswith("scico"):
                    continue
                ds = list(f.__defaults__ or ()) + list((f.__kwdefaults__ or {}).values())
                for i, dv in enumerate(ds):
                    if isinstance(dv, (dict, list, set)):
                        found[f"{f.__module__}.{f.__qualname__}#{i}"] = dv
    return found


def check_snapshots(ctx, rng):
    """objects used inside other objects must not change (deep __dict__ comparison)"""
    import jax
    import scico.numpy as snp
    from scico import linop, functional, loss, operator
    from scico.optimize import ADMM, PGM, AcceleratedPGM, LinearizedADMM, PDHG, ProximalADMM
    from scico.optimize.admm import (LinearSubproblemSolver, GenericSubproblemSolver, MatrixSubproblemSolver,
                                     CircularConvolveSolver)
    from scico.optimize.pgm import BBStepSize, AdaptiveBBStepSize, LineSearchStepSize, RobustLineSearchStepSize
    sh = (3, 4)
    d1 = np.array([[rng.randint(1, 8) / 4 for _ in range(4)] for _ in range(3)])
    x = dy_array(rng, sh, "float64")
    xpos = dy_array(rng, sh, "float64", lo=0, hi=3) + 0.25

    def watch(unit, objs, action, allow=LAZY_FIELDS, what="object used inside another object was mutated"):
        before = [snapshot(o) for o in objs.values()]
        r = outcome(action)
        after = [snapshot(o) for o in objs.values()]
        ctx.count("snapshot:" + unit.split(":")[0], {"unit": unit})
        if r[0] == "exc":
            ctx.obligation(False, f"snapshot scenario {unit} could not be executed", r[1])
            return
        for (nm, _), b, a in zip(objs.items(), before, after):
            diff = snap_diff(b, a, nm, allow)
            if diff:
                ctx.violation(unit, what, {"scenario": unit, "object": nm, "changed": diff[:6]},
                              expected="identical deep snapshot before and after", observed=diff[:6],
                              oracle="deep comparison of __dict__ graphs")

    # -- rescaling a loss
    for cls in ("SquaredL2Loss", "PoissonLoss", "SquaredL2AbsLoss"):
        A = linop.Diagonal(snp.array(d1))
        L = getattr(loss, cls)(y=snp.array(d1 + 0.5), A=A)
        x = xpos
        g0 = np.asarray(L.grad(x)); v0 = float(L(x))

        def act(L=L, x=xpos):
            M = 2.0 * L; N = L * 0.5; Q = L / 4.0
            M.set_scale(7.0)
            return [M.grad(x), N(x), Q.grad(x), (3.0 * M).grad(x)]
        watch(f"Loss.__mul__:{cls}", {"loss": L, "A": A}, act)
        ok1, _ = close(L.grad(x), g0, 1e-12)
        ctx.count("loss-original-after-rescale", {"cls": cls})
        if not ok1 or float(L(x)) != v0:
            ctx.violation("Loss.__mul__", "value/gradient of the original loss changed after rescaled copies were made and modified",
                          {"cls": cls}, expected=[v0], observed=[float(L(x))], oracle="Loss.v history_keeps_original")
        # grad (c L) = c grad L
        for c in (2.0, 0.5, -1.5):
            for how, M in (("mul", L * c), ("rmul", c * L), ("div", L / (1.0 / c) if c in (2.0, 0.5) else L / c)):
                cc = c if how != "div" or c in (2.0, 0.5) else 1.0 / c
                ok2, why = close(M.grad(x), cc * g0, 1e-12)
                ctx.count("loss-grad-of-rescaled", {"cls": cls, "c": c, "how": how})
                if not ok2:
                    ctx.violation("Loss.__mul__", "gradient of the rescaled loss is not the rescaled gradient",
                                  {"cls": cls, "c": c, "how": how}, expected="c * grad L", observed=why,
                                  oracle="Loss.v grad_of_rescaled")

    x = dy_array(rng, sh, "float64")
    # -- composing / stacking operators
    A = linop.FiniteDifference(sh, input_dtype=np.float64, circular=True, jit=False)
    B = linop.Diagonal(snp.array(d1))
    E = operator.Exp(sh, input_dtype=np.float64, jit=False)
    Fn = functional.L1Norm()

    Bc = linop.Diagonal(snp.array(d1))
    watch("Operator-calculus", {"A": A, "B": Bc, "E": E, "L1": Fn},
          lambda: [(A @ Bc)(x), (A @ Bc).adj((A @ Bc)(x)), (Bc + 2.0 * linop.Identity(sh, input_dtype=np.float64))(x),
                   (A.T)(A(x)), A.H(A(x)), A.gram_op(x), (-A)(x), (Bc.T)(x), Bc.gram_op(x),
                   linop.VerticalStack((Bc, Bc))(x),
                   linop.VerticalStack((Bc, linop.Identity(sh, input_dtype=np.float64))).adj(
                       linop.VerticalStack((Bc, linop.Identity(sh, input_dtype=np.float64)))(x)),
                   linop.DiagonalStack((Bc, Bc), collapse_input=False)(snp.blockarray([x, x])),
                   A(E)(x), (E + E)(x), (2.0 * E)(x), Bc(E)(x),
                   functional.ScaledFunctional(Fn, 2.0)(x), (Fn + Fn)(x), (3.0 * Fn).prox(x, 0.3),
                   functional.SeparableFunctional([Fn, functional.SquaredL2Norm()])(snp.blockarray([x, x]))])

    # -- attaching functionals / sub-problem solvers / step-size policies to optimisers
    y = snp.array(d1 + 0.5)

    def parts(tv=False):
        Aop = linop.Diagonal(snp.array(d1))
        f = loss.SquaredL2Loss(y=y, A=Aop)
        g = functional.AnisotropicTVNorm(circular=True) if tv else 0.5 * functional.L1Norm()
        Cop = linop.Identity(sh, input_dtype=np.float64) if tv else linop.FiniteDifference(sh, input_dtype=np.float64, circular=True)
        return Aop, f, g, Cop
    x0 = snp.zeros(sh, dtype=np.float64)
    solvers = {"Linear": lambda: LinearSubproblemSolver(), "Linear-jaxcg": lambda: LinearSubproblemSolver(cg_function="jax"),
               "Generic": lambda: GenericSubproblemSolver(), "Matrix": lambda: MatrixSubproblemSolver(),
               "CircularConvolve": lambda: CircularConvolveSolver()}
    for sname, mks in solvers.items():
        Aop, f, g, Cop = parts()
        if sname == "Matrix":
            Aop = linop.MatrixOperator(snp.array(d1[:, :3])); f = loss.SquaredL2Loss(y=snp.array(d1[:, 0]), A=Aop)
            Cop = linop.MatrixOperator(snp.array(np.eye(3)))
            xx0 = snp.zeros((3,), dtype=np.float64)
        elif sname == "CircularConvolve":
            Aop = linop.Identity(sh, input_dtype=np.float64); f = loss.SquaredL2Loss(y=y, A=Aop)
            xx0 = x0
        else:
            xx0 = x0
        sv = mks()

        def act(f=f, g=g, Cop=Cop, sv=sv, xx0=xx0):
            o = ADMM(f=f, g_list=[g], C_list=[Cop], rho_list=[1.0], x0=xx0, maxiter=2, subproblem_solver=sv)
            o.step(); o.step()
            return o.x
        watch(f"ADMM-attach:{sname}", {"f": f, "g": g, "C": Cop, "A": Aop}, act)
        # the solver object's parameter dictionaries (incl. the shared mutable default of
        # GenericSubproblemSolver) must not change when the solver is attached and used
        watch(f"ADMM-attach-solver:{sname}", {"solver.cg_kwargs": getattr(sv, "cg_kwargs", None),
                                              "solver.minimize_kwargs": getattr(sv, "minimize_kwargs", None),
                                              "solver.solve_kwargs": getattr(sv, "solve_kwargs", None)}, act)
    for pname, mkp in {"PGM": lambda f, g, ss: PGM(f=f, g=g, L0=8.0, x0=x0, step_size=ss, maxiter=2),
                       "APGM": lambda f, g, ss: AcceleratedPGM(f=f, g=g, L0=8.0, x0=x0, step_size=ss, maxiter=2)}.items():
        for ssn, mkss in {"default": lambda: None, "BB": BBStepSize, "AdaptiveBB": AdaptiveBBStepSize,
                          "LineSearch": LineSearchStepSize, "RobustLS": RobustLineSearchStepSize}.items():
            if pname == "PGM" and ssn == "RobustLS":
                continue
            Aop, f, g, _ = parts()

            def act(f=f, g=g, mkss=mkss, mkp=mkp):
                o = mkp(f, g, mkss()); o.step(); o.step(); return o.x
            watch(f"PGM-attach:{pname}-{ssn}", {"f": f, "g": g, "A": Aop}, act)
    for oname, mko in {
        "LinearizedADMM": lambda f, g, C: LinearizedADMM(f=f, g=g, C=C, mu=0.1, nu=0.5, x0=x0, maxiter=2),
        "PDHG": lambda f, g, C: PDHG(f=f, g=g, C=C, tau=0.1, sigma=0.5, x0=x0, maxiter=2),
        "ProximalADMM": lambda f, g, C: ProximalADMM(f=functional.SquaredL2Norm(), g=g, A=C, rho=1.0, mu=8.0, nu=1.0, x0=x0, maxiter=2),
    }.items():
        for tv in (False, True):
            Aop, f, g, Cop = parts(tv)
            if oname == "LinearizedADMM":
                f = loss.SquaredL2Loss(y=y, A=linop.Identity(sh, input_dtype=np.float64))

            def act(f=f, g=g, Cop=Cop, mko=mko):
                o = mko(f, g, Cop); o.step(); o.step(); return o.x
            watch(f"Optimizer-attach:{oname}{'-tv' if tv else ''}", {"f": f, "g": g, "C": Cop}, act)


# =====================================================================================
# (G) solver steps: modes, shared attached objects, parameter changes between steps
# =====================================================================================

def solver_catalogue(rng):
    import scico.numpy as snp
    from scico import linop, functional, loss
    from scico.function import Function
    from scico.optimize import ADMM, PGM, AcceleratedPGM, LinearizedADMM, PDHG, ProximalADMM, NonLinearPADMM
    from scico.optimize.admm import LinearSubproblemSolver, GenericSubproblemSolver, CircularConvolveSolver
    sh = (3, 4)
    d1 = np.array([[rng.randint(1, 8) / 4 for _ in range(4)] for _ in range(3)])
    y = snp.array(d1 + 0.5)
    x0 = snp.zeros(sh, dtype=np.float64)

    def P(scale=0.5):
        A = linop.Diagonal(snp.array(d1))
        return {"A": A, "f": loss.SquaredL2Loss(y=y, A=A, scale=scale), "g": 0.5 * functional.L1Norm(),
                "C": linop.FiniteDifference(sh, input_dtype=np.float64, circular=True),
                "I": linop.Identity(sh, input_dtype=np.float64)}
    cat = {
        "PGM": lambda p, x: PGM(f=p["f"], g=p["g"], L0=8.0, x0=x, maxiter=1),
        "AcceleratedPGM": lambda p, x: AcceleratedPGM(f=p["f"], g=p["g"], L0=8.0, x0=x, maxiter=1),
        "ADMM-Linear": lambda p, x: ADMM(f=p["f"], g_list=[p["g"]], C_list=[p["C"]], rho_list=[1.0], x0=x, maxiter=1,
                                         subproblem_solver=LinearSubproblemSolver(cg_kwargs={"tol": 1e-12, "maxiter": 200})),
        "ADMM-Generic": lambda p, x: ADMM(f=p["f"], g_list=[p["g"]], C_list=[p["C"]], rho_list=[1.0], x0=x, maxiter=1,
                                          subproblem_solver=GenericSubproblemSolver()),
        "LinearizedADMM": lambda p, x: LinearizedADMM(f=loss.SquaredL2Loss(y=y, A=p["I"], scale=p["f"].scale), g=p["g"], C=p["C"],
                                                      mu=0.1, nu=0.5, x0=x, maxiter=1),
        "PDHG": lambda p, x: PDHG(f=p["f"], g=p["g"], C=p["C"], tau=0.1, sigma=0.5, x0=x, maxiter=1),
        "ProximalADMM": lambda p, x: ProximalADMM(f=functional.SquaredL2Norm(), g=p["g"], A=p["C"], rho=1.0, mu=8.0, nu=1.0,
                                                  x0=x, maxiter=1),
        "NonLinearPADMM": lambda p, x: NonLinearPADMM(
            f=functional.SquaredL2Norm(), g=p["g"],
            H=Function((sh, sh), output_shape=sh, eval_fn=lambda a, b: a - b, input_dtypes=np.float64),
            rho=1.0, mu=4.0, nu=4.0, x0=x, z0=x, u0=x, maxiter=1),
    }
    return P, cat, x0


def check_solvers(ctx, rng):
    import jax
    P, cat, x0 = solver_catalogue(rng)
    x1 = dy_array(rng, (3, 4), "float64")
    for name, mk in cat.items():
        def two_steps(p=None, start=x1):
            o = mk(p or P(), start); o.step(); o.step(); return o.x
        ref = outcome(two_steps)
        tol = 1e-12 if "Generic" not in name else 1e-7     # scipy BFGS termination is decided by rounding
        res = {}

        def dis():
            with jax.disable_jit():
                return two_steps()
        res["disable_jit"] = outcome(dis)
        res["second-object"] = outcome(two_steps)
        p = P()
        _ = outcome(lambda: two_steps(p, x0))            # the attached objects were used by another solver
        res["attached-objects-reused"] = outcome(lambda: two_steps(p))
        for mode, r in res.items():
            ctx.count("solver:" + mode, {"solver": name, "mode": mode})
            ok, why = same_outcome(r, ref, tol)
            if not ok:
                ctx.violation(f"{name}.step", f"state after two steps under '{mode}' differs from the reference run",
                              {"solver": name, "mode": mode}, expected="reference run on fresh objects",
                              observed=why, oracle="fresh objects, eager")
        # parameter change between steps: set_scale on the attached loss, compared with a fresh
        # solver built from the current state
        if name in ("PGM", "AcceleratedPGM", "ADMM-Generic", "PDHG"):
            p = P(0.5)
            o = mk(p, x1)
            o.step()
            xs = o.x
            p["f"].set_scale(2.0)
            used = outcome(lambda: (o.step(), o.x)[1])
            if name == "PGM":
                pf = P(2.0)
                of = mk(pf, xs)
                of.L = o.L
                fresh = outcome(lambda: (of.step(), of.x)[1])
                ctx.count("solver:set_scale-between-steps", {"solver": name})
                ok, why = same_outcome(used, fresh, 1e-12)
                if not ok:
                    ctx.violation("PGM.step", "step after set_scale on the attached loss differs from the step of a fresh solver "
                                  "with the same attributes (stale jitted closure)",
                                  {"solver": name, "change": "f.set_scale", "scale": [0.5, 2.0], "steps_before": 1},
                                  expected="fresh-solver step", observed=why, oracle="fresh object with equal attributes")


# =====================================================================================
# (H) interleaved objects: two live solvers of one class built with default helper objects
# =====================================================================================

_H_D1 = np.array([[0.5, 1.25, 2.0, 0.75], [1.5, 0.25, 1.0, 1.75], [2.0, 0.5, 1.25, 1.0]])


def interleave_catalogue():
    """name -> mk(v): a NEW solver from NEW data objects; v = 0: the arguments of S1 and of the
    reference, v = 1: different parameters and data (S2).  Default arguments wherever the
    constructor has them (step_size, subproblem_solver and its dictionaries, itstat options, maxiter)."""
    import scico.numpy as snp
    from scico import linop, functional, loss
    from scico.function import Function
    from scico.optimize import ADMM, PGM, AcceleratedPGM, LinearizedADMM, PDHG, ProximalADMM, NonLinearPADMM
    from scico.optimize.admm import (LinearSubproblemSolver, GenericSubproblemSolver, MatrixSubproblemSolver,
                                     CircularConvolveSolver)
    from scico.optimize.pgm import (PGMStepSize, BBStepSize, AdaptiveBBStepSize, LineSearchStepSize,
                                    RobustLineSearchStepSize)
    sh = (3, 4)

    def data(v):
        dd = _H_D1 + (0.5 if v else 0.0)
        A = linop.Diagonal(snp.array(dd))
        return {"A": A, "y": snp.array(dd + 0.5 + v), "f": loss.SquaredL2Loss(y=snp.array(dd + 0.5 + v), A=A),
                "g": (0.5 + 0.25 * v) * functional.L1Norm(),
                "C": linop.FiniteDifference(sh, input_dtype=np.float64, circular=True),
                "I": linop.Identity(sh, input_dtype=np.float64),
                "x0": snp.array(np.full(sh, 0.5 * v))}
    cat = {}
    policies = {"default": None, "PGMStepSize": PGMStepSize, "BB": BBStepSize, "AdaptiveBB": AdaptiveBBStepSize,
                "LineSearch": LineSearchStepSize, "RobustLineSearch": RobustLineSearchStepSize}
    for cls in (PGM, AcceleratedPGM):
        for pn, mkp in policies.items():
            if cls is PGM and pn == "RobustLineSearch":
                continue

            def mk(v, cls=cls, mkp=mkp):
                d = data(v)
                kw = {} if mkp is None else {"step_size": mkp()}
                return cls(f=d["f"], g=d["g"], L0=[8.0, 20.0][v], x0=d["x0"], **kw)
            cat[f"{cls.__name__}/{pn}"] = mk
    solvers = {"default": None, "Generic": GenericSubproblemSolver, "Linear": LinearSubproblemSolver,
               "Linear-jax": lambda: LinearSubproblemSolver(cg_function="jax"),
               "Matrix": MatrixSubproblemSolver, "CircularConvolve": CircularConvolveSolver}
    for sn, mks in solvers.items():
        def mk(v, sn=sn, mks=mks):
            d = data(v)
            f, C, x0 = d["f"], d["C"], d["x0"]
            if sn == "Matrix":
                M = _H_D1[:, :3] + (0.5 if v else 0.0)
                f = loss.SquaredL2Loss(y=snp.array(M[:, 0] + v), A=linop.MatrixOperator(snp.array(M)))
                C = linop.MatrixOperator(snp.array(np.eye(3)))
                x0 = snp.array(np.full((3,), 0.5 * v))
            elif sn == "CircularConvolve":
                f = loss.SquaredL2Loss(y=d["y"], A=d["I"])
            kw = {} if mks is None else {"subproblem_solver": mks()}
            return ADMM(f=f, g_list=[d["g"]], C_list=[C], rho_list=[[1.0], [3.0]][v], x0=x0, **kw)
        cat[f"ADMM/{sn}"] = mk
    cat["LinearizedADMM"] = lambda v: (lambda d: LinearizedADMM(
        f=loss.SquaredL2Loss(y=d["y"], A=d["I"]), g=d["g"], C=d["C"], mu=[0.1, 0.05][v], nu=[0.5, 0.4][v], x0=d["x0"]))(data(v))
    cat["PDHG"] = lambda v: (lambda d: PDHG(f=d["f"], g=d["g"], C=d["C"], tau=[0.1, 0.05][v], sigma=[0.5, 0.25][v],
                                            x0=d["x0"]))(data(v))
    cat["ProximalADMM"] = lambda v: (lambda d: ProximalADMM(
        f=functional.SquaredL2Norm(), g=d["g"], A=d["C"], rho=[1.0, 2.0][v], mu=[8.0, 16.0][v], nu=[1.0, 0.5][v], x0=d["x0"]))(data(v))
    cat["NonLinearPADMM"] = lambda v: (lambda d: NonLinearPADMM(
        f=functional.SquaredL2Norm(), g=d["g"],
        H=Function((sh, sh), output_shape=sh, eval_fn=lambda a, b: a - b, input_dtypes=np.float64),
        rho=[1.0, 2.0][v], mu=[4.0, 8.0][v], nu=[4.0, 8.0][v], x0=d["x0"], z0=d["x0"], u0=d["x0"]))(data(v))
    return cat


def _is_numeric(v):
    import jax
    from scico.numpy import BlockArray
    if isinstance(v, bool):
        return False
    if isinstance(v, (int, float, complex, np.generic, np.ndarray, jax.Array, BlockArray)):
        return True
    if isinstance(v, (list, tuple)) and v and all(_is_numeric(t) for t in v):
        return True
    return False


def public_state(o):
    """numeric public attributes of a solver and of its auxiliary policy / sub-problem solver"""
    st = {}

    def take(prefix, obj):
        for k, v in vars(obj).items():
            if k.startswith("_") or k in ("timer", "itstat_object", "maxiter", "nanstop"):
                continue
            if _is_numeric(v):
                st[prefix + k] = v
    take("", o)
    for aux in ("step_size", "subproblem_solver"):
        if hasattr(o, aux):
            take(aux + ".", getattr(o, aux))
    return st


def mutable_reachable(root, maxdepth=4):
    """id -> (path, object) of the mutable objects below root (instances with __dict__, dict, list, set)"""
    import jax
    from scico.numpy import BlockArray
    out, seen = {}, set()

    def go(o, path, depth):
        if o is None or isinstance(o, (bool, int, float, complex, str, bytes, type, np.dtype, np.generic,
                                       np.ndarray, jax.Array, BlockArray)):
            return
        if inspect.ismodule(o) or inspect.isroutine(o) or inspect.isclass(o) or type(o).__name__ in ("PjitFunction", "partial"):
            return
        if id(o) in seen:
            return
        seen.add(id(o))
        if isinstance(o, tuple):
            kids = [(f"{path}[{i}]", t) for i, t in enumerate(o)]
        elif isinstance(o, (list,)):
            out[id(o)] = (path, o)
            kids = [(f"{path}[{i}]", t) for i, t in enumerate(o)]
        elif isinstance(o, dict):
            out[id(o)] = (path, o)
            kids = [(f"{path}[{k!r}]", t) for k, t in o.items()]
        elif isinstance(o, (set, frozenset)):
            if isinstance(o, set):
                out[id(o)] = (path, o)
            kids = []
        elif hasattr(o, "__dict__"):
            out[id(o)] = (path, o)
            kids = [(f"{path}.{k}", t) for k, t in vars(o).items()]
        else:
            kids = []
        if depth < maxdepth:
            for p, t in kids:
                go(t, p, depth + 1)
    go(root, "", 0)
    return out


def run_interleaved_config(ctx, name, mk, variant, k):
    """reference alone; then S1, S2 (variant: 0 = S2 only constructed, 1 = S2 stepped once before and
    between the steps of S1).  Returns nothing; reports violations."""
    tol = 1e-7 if ("Generic" in name or name == "ADMM/default") else 1e-12   # scipy BFGS termination decided by rounding
    ref = mk(0)
    ref_states = [public_state(ref)]
    for _ in range(k):
        ref.step()
        ref_states.append(public_state(ref))
    s1 = mk(0)
    s2 = mk(1)
    inp = {"config": name, "variant": variant, "steps": k}
    # identity: nothing mutable may be shared between two independently built solvers
    m1, m2 = mutable_reachable(s1), mutable_reachable(s2)
    shared = sorted((m1[i][0], m2[i][0], type(m1[i][1]).__name__) for i in m1 if i in m2)
    outer = [t for t in shared if not any(t[0] != u[0] and t[0].startswith(u[0]) for u in shared)]
    ctx.count("interleaved-identity", {"config": name})
    for p1, p2, tn in outer:
        ctx.violation("shared-helper-object", "two independently constructed solvers hold the SAME mutable helper object "
                      "(a shared default)", {"config": name, "path": p1, "path_in_second": p2, "type": tn},
                      expected="a new object per constructor call", observed=f"S1{p1} is S2{p2} ({tn})",
                      oracle="SharedDefault.v percall_no_interference / identity check")
    if variant:
        s2.step()
    states = [public_state(s1)]
    for _ in range(k):
        s1.step()
        states.append(public_state(s1))
        if variant:
            s2.step()
    for j, (a, b) in enumerate(zip(states, ref_states)):
        ctx.count("interleaved-state", {"config": name, "variant": variant, "step": j})
        for key in sorted(set(a) | set(b)):
            if key not in a or key not in b:
                ok, why = False, "attribute present in only one of the two solvers"
            else:
                ok, why = close(a[key], b[key], tol)
            if not ok:
                ctx.violation("interleaved:" + name,
                              "state of a solver differs from a reference solver built alone with the same arguments "
                              "after a second solver of the same class was constructed"
                              + (" and stepped" if variant else ""),
                              dict(inp, attribute=key, after_steps=j), expected=str(np.asarray(blocks_of(b.get(key, 0.0))[0]).ravel()[:4]),
                              observed=why + " " + str(np.asarray(blocks_of(a.get(key, 0.0))[0]).ravel()[:4]),
                              oracle="fresh reference solver built alone")
                return


def check_interleaved(ctx, rng):
    cat = interleave_catalogue()
    k = ctx.n(2, 3)
    for name in sorted(cat):
        for variant in ((rng.randrange(2),) if ctx.quick else (0, 1)):
            kk = 1 if (ctx.quick and name in ("ADMM/Generic", "ADMM/default")) else k     # BFGS x-steps are slow
            r = outcome(lambda: run_interleaved_config(ctx, name, cat[name], variant, kk))
            if r[0] == "exc":
                ctx.obligation(False, f"interleaved-objects scenario {name} could not be executed", r[1])
    # SharedDefault.v against PGM with default step-size policies: histories of constructions / steps
    items, meta = [], []
    for _ in range(ctx.n(4, 30)):
        ops, n = [], 0
        for _ in range(rng.randint(3, 6)):
            if n == 0 or rng.random() < 0.45:
                ops.append([0, rng.choice([4, 8, 16, 20, 32, 64])]); n += 1
            else:
                ops.append([1, rng.randrange(n)])
        case = {"class": rng.choice(["PGM", "AcceleratedPGM"]), "ops": ops}
        obs = run_sd_impl(case)
        ctx.count("default-policy-history", case)
        items.append("(" + coq_list([f"({c}, {zl(v)})" for c, v in ops]) + ", " + coq_list([zl(v) for v in obs]) + ")")
        meta.append((case, obs))
    body = "Definition cases := " + coq_list(items, ";\n ") + ".\nEval vm_compute in (TVNorm.bad_idx sd_case_ok cases 0%nat)."
    for idx in parse_eval_nat_list(coq_eval_shards("C19_sd", HEADER, [body])[0]):
        case, obs = meta[idx]
        ctx.violation("default-step-size-policy", "L of solvers built with the default step-size policy after a history of "
                      "constructions and steps differs from the per-call-default model",
                      case, expected="SharedDefault.v run PerCall (every solver keeps its own L0)", observed=obs,
                      oracle="sd_case_ok")


def run_hc_impl(case):
    """histories of default-built GenericSubproblemSolver objects (directly or as ADMM's own
    default) and writes through one object's minimize_kwargs; -> maxiter read through every object"""
    from scico.optimize.admm import GenericSubproblemSolver
    objs = []
    for code, i, v in case["ops"]:
        if code == 0:
            if case["via_admm"]:
                objs.append(interleave_catalogue()["ADMM/default"](0).subproblem_solver)
            else:
                objs.append(GenericSubproblemSolver())
        else:
            objs[i].minimize_kwargs["options"]["maxiter"] = v
    return [int(o.minimize_kwargs["options"]["maxiter"]) for o in objs]


def check_helper_contents(ctx, rng):
    items, meta = [], []
    for _ in range(ctx.n(6, 40)):
        ops, n = [], 0
        for _ in range(rng.randint(3, 7)):
            if n == 0 or rng.random() < 0.4:
                ops.append([0, 0, 0]); n += 1
            else:
                ops.append([1, rng.randrange(n), rng.randint(1, 50)])
        case = {"via_admm": rng.random() < 0.3, "ops": ops}
        obs = run_hc_impl(case)
        ctx.count("default-helper-content-history", case)
        items.append("(" + zl(100) + ", " + coq_list([f"({c}, {i}, {zl(v)})" for c, i, v in ops]) + ", "
                     + coq_list([zl(v) for v in obs]) + ")")
        meta.append((case, obs))
    body = "Definition cases := " + coq_list(items, ";\n ") + ".\nEval vm_compute in (TVNorm.bad_idx hc_case_ok cases 0%nat)."
    for idx in parse_eval_nat_list(coq_eval_shards("C19_hc", HEADER, [body])[0]):
        case, obs = meta[idx]
        ctx.violation("default-helper-content", "a write through one default-built solver's minimize_kwargs is visible through "
                      "another one (or the default content is not {'options': {'maxiter': 100}})",
                      case, expected="SharedDefault.v hrun PerCall (every object keeps its own helper)", observed=obs,
                      oracle="hc_case_ok")


def run_sd_impl(case):
    import scico.numpy as snp
    from scico import linop, functional, loss
    import scico.optimize as so
    cls = getattr(so, case["class"])
    objs = []
    for code, v in case["ops"]:
        if code == 0:
            A = linop.Diagonal(snp.array(_H_D1))
            objs.append(cls(f=loss.SquaredL2Loss(y=snp.array(_H_D1 + 0.5), A=A), g=0.5 * functional.L1Norm(),
                            L0=float(v), x0=snp.zeros((3, 4), dtype=np.float64)))
        else:
            objs[v].step()
    Ls = [float(o.L) for o in objs]
    if any(x != int(x) for x in Ls):
        raise Broken("PGM.L is not the integer L0 it was built with", str(Ls))
    return [int(x) for x in Ls]


# =====================================================================================
# (I) re-attachment: ONE sub-problem solver object attached to several ADMM objects in turn
# =====================================================================================

_I_M = np.array([[1.0, 0.5, -0.25], [0.5, 2.0, 0.75], [-1.0, 0.25, 1.5], [0.75, -0.5, 1.0]])
_I_P = np.array([[1.0, -1.0, 0.0], [0.0, 1.0, -1.0], [0.5, 0.0, 1.0]])
_I_H = np.array([[1.0, 0.5], [0.25, -0.5]])
REATTACH_VARIANTS = {          # what differs from the first ADMM (rho 1, scale 1/2, no W, data y0)
    "rho": {"rho": 3.0}, "scale-mul": {"scale": 2.0, "how": "mul"}, "scale-set": {"scale": 2.0, "how": "set_scale"},
    "W": {"W": True}, "y": {"y": 1}, "all": {"rho": 3.0, "scale": 2.0, "how": "mul", "W": True, "y": 1},
    "other-operator-objects": {"new_ops": True},
    "other-operator-objects-all": {"new_ops": True, "rho": 3.0, "scale": 2.0, "how": "mul", "W": True, "y": 1},
}


def reattach_catalogue():
    """solver name -> (problem kind, constructor of a NEW solver object)"""
    from scico.optimize.admm import (LinearSubproblemSolver, GenericSubproblemSolver, MatrixSubproblemSolver,
                                     CircularConvolveSolver, FBlockCircularConvolveSolver,
                                     G0BlockCircularConvolveSolver)
    return {
        "MatrixSubproblemSolver-lu": ("matrix", lambda: MatrixSubproblemSolver()),
        "MatrixSubproblemSolver-cholesky": ("matrix", lambda: MatrixSubproblemSolver(solve_kwargs={"cho_factor": True})),
        "LinearSubproblemSolver-scico": ("matrix", lambda: LinearSubproblemSolver(cg_kwargs={"tol": 1e-10, "maxiter": 50})),
        "LinearSubproblemSolver-jax": ("matrix", lambda: LinearSubproblemSolver(cg_kwargs={"tol": 1e-10, "maxiter": 50},
                                                                             cg_function="jax")),
        "CircularConvolveSolver": ("conv", lambda: CircularConvolveSolver()),
        "FBlockCircularConvolveSolver": ("fblock", lambda: FBlockCircularConvolveSolver()),
        "G0BlockCircularConvolveSolver": ("g0block", lambda: G0BlockCircularConvolveSolver()),
        "GenericSubproblemSolver": ("matrix", lambda: GenericSubproblemSolver()),
    }


def reattach_ops(kind):
    """NEW operator objects (equal values on every call)"""
    import scico.numpy as snp
    from scico import linop
    f64 = np.float64
    if kind == "matrix":
        return {"A": linop.MatrixOperator(snp.array(_I_M)), "C": [linop.MatrixOperator(snp.array(_I_P))]}
    if kind == "conv":
        return {"A": linop.CircularConvolve(snp.array(_I_H), (4, 4), input_dtype=f64),
                "C": [linop.FiniteDifference((4, 4), input_dtype=f64, circular=True)]}
    psf = np.zeros((2, 3, 3))
    psf[0, 1] = [0.5, 1.0, 0.25]
    psf[1, :, 1] = [1.0, 0.5, -0.25]
    Cc = linop.CircularConvolve(h=snp.array(psf), input_shape=(2, 4, 4), input_dtype=f64, ndims=2)
    S = linop.Sum(input_shape=(2, 4, 4), axis=0, input_dtype=f64)
    return {"A": S @ Cc, "C": [linop.Identity((2, 4, 4), input_dtype=f64)]}


def reattach_admm(kind, ops, par, solver):
    import scico.numpy as snp
    from scico import linop, functional, loss
    from scico.optimize import ADMM
    A = ops["A"]
    oshape = tuple(A.output_shape)
    n = int(np.prod(oshape))
    y = snp.array(((np.arange(n) % 5) / 4.0 - 0.5 + 0.75 * par.get("y", 0) * ((np.arange(n) % 3) - 1)).reshape(oshape))
    kw = {}
    if par.get("W"):
        kw["W"] = linop.Diagonal(snp.array((0.5 + (np.arange(n) % 4) / 4.0).reshape(oshape)))
    f = loss.SquaredL2Loss(y=y, A=A if kind != "g0block" else None, **kw)
    if "scale" in par:
        if par["how"] == "mul":
            f = (par["scale"] / 0.5) * f
        else:
            f.set_scale(par["scale"])
    ishape = tuple(A.input_shape)
    x0 = snp.array(((np.arange(int(np.prod(ishape))) % 7) / 8.0).reshape(ishape))
    g = 0.25 * functional.L1Norm()
    rho = par.get("rho", 1.0)
    if kind == "g0block":
        return ADMM(f=functional.ZeroFunctional(), g_list=[f, g], C_list=[A] + ops["C"], rho_list=[1.0 + (rho - 1.0) / 4, rho],
                    x0=x0, subproblem_solver=solver)
    return ADMM(f=f, g_list=[g], C_list=ops["C"], rho_list=[rho], x0=x0, subproblem_solver=solver)


def run_reattach(ctx, sname, vname, k):
    kind, mks = reattach_catalogue()[sname]
    par = REATTACH_VARIANTS[vname]
    tol = 1e-7 if sname.startswith("Generic") else 1e-12

    def steps(o):
        sts = [public_state(o)]
        for _ in range(k):
            o.step()
            sts.append(public_state(o))
        return sts

    def used_run():
        ops = reattach_ops(kind)
        sv = mks()
        first = reattach_admm(kind, ops, {}, sv)
        first.step()
        second = reattach_admm(kind, reattach_ops(kind) if par.get("new_ops") else ops, par, sv)
        return steps(second)
    used = outcome(used_run)
    ref = outcome(lambda: steps(reattach_admm(kind, reattach_ops(kind), par, mks())))
    ctx.count("reattach", {"solver": sname, "variant": vname, "steps": k})
    inp = {"solver": sname, "variant": vname, "differs_in": par, "steps": k}
    if used[0] == "exc" or ref[0] == "exc":
        if used != ref:
            ctx.violation("reattach:" + sname, "a re-attached solver raises / does not raise unlike a fresh solver", inp,
                          expected=str(ref[:1]) + str(ref[1] if ref[0] == "exc" else ""),
                          observed=str(used[:1]) + str(used[1] if used[0] == "exc" else ""), oracle="fresh solver, ADMM built alone")
        elif vname in ("rho", "all"):
            ctx.obligation(False, f"re-attachment scenario {sname}/{vname} could not be executed", str(ref[1]))
        return
    for j, (a, b) in enumerate(zip(used[1], ref[1])):
        for key in sorted(set(a) | set(b)):
            ok, why = close(a[key], b[key], tol) if key in a and key in b else (False, "attribute in only one of the two")
            if not ok:
                ctx.violation("reattach:" + sname,
                              "iterates of an ADMM whose sub-problem solver object was attached to another ADMM before differ "
                              "from those of the same ADMM built alone with a fresh solver",
                              dict(inp, attribute=key, after_steps=j),
                              expected=str(np.asarray(blocks_of(b.get(key, 0.0))[0]).ravel()[:4]),
                              observed=why + " " + str(np.asarray(blocks_of(a.get(key, 0.0))[0]).ravel()[:4]),
                              oracle="Reattach.v reattach_spec / fresh solver, ADMM built alone")
                return


def check_reattach(ctx, rng):
    names = sorted(reattach_catalogue())
    allv = list(REATTACH_VARIANTS)
    for sname in names:
        if ctx.quick:
            # quick tier: rho, everything, and one seed-dependent further variant (all 8 in the thorough tier)
            vs = ["rho", "all", rng.choice(["scale-mul", "scale-set", "W", "y", "other-operator-objects",
                                             "other-operator-objects-all"])]
            if sname.startswith("Generic"):
                vs = ["all"]
        else:
            vs = allv
        for v in vs:
            r = outcome(lambda: run_reattach(ctx, sname, v, 1 if sname.startswith("Generic") else ctx.n(1, 3)))
            if r[0] == "exc":
                ctx.obligation(False, f"re-attachment scenario {sname}/{v} crashed", r[1])


# =====================================================================================
# (J) public parameter updates between calls: [m(x); set_scale(s); m(x)]
# =====================================================================================

def param_catalogue():
    """name -> mk(scale): a NEW loss with that scale (directly constructed, or a rescaled copy)"""
    import scico.numpy as snp
    from scico import loss, linop, functional
    d1 = _H_D1

    def base(cls, A=True, **kw):
        def mk(scale):
            Aop = linop.Diagonal(snp.array(d1)) if A else None
            return getattr(loss, cls)(y=snp.array(d1 + 0.5), A=Aop, scale=scale, **kw)
        return mk
    cat = {
        "SquaredL2Loss": base("SquaredL2Loss"), "SquaredL2Loss-noA": base("SquaredL2Loss", A=False),
        "SquaredL2Loss-W": lambda scale: loss.SquaredL2Loss(y=snp.array(d1 + 0.5), A=linop.Diagonal(snp.array(d1)), scale=scale,
                                                            W=linop.Diagonal(snp.array(d1 + 1.0))),
        "Loss(f=SquaredL2Norm)": lambda scale: loss.Loss(y=snp.array(d1 + 0.5), f=functional.SquaredL2Norm(), scale=scale),
        "Loss(f=HuberNorm,A)": lambda scale: loss.Loss(y=snp.array(d1 + 0.5), A=linop.Diagonal(snp.array(d1)),
                                                       f=functional.HuberNorm(0.7), scale=scale),
        "PoissonLoss": base("PoissonLoss"), "SquaredL2AbsLoss": base("SquaredL2AbsLoss"),
        "SquaredL2SquaredAbsLoss": base("SquaredL2SquaredAbsLoss"),
    }
    for nm in ("SquaredL2Loss", "PoissonLoss", "Loss(f=SquaredL2Norm)"):
        cat["copy(2*L):" + nm] = (lambda scale, mk=cat[nm]: 2.0 * mk(scale / 2.0))
        cat["copy(L/4):" + nm] = (lambda scale, mk=cat[nm]: mk(scale * 4.0) / 4.0)
    return cat


def run_param_mutation(ctx, name, meth, s1, s2, warm):
    """used: m(x) [and the other methods when warm]; set_scale(s2); m(x).
    compared with (a) a fresh object built with s2, (b) the same sequence under jax.disable_jit()"""
    import jax
    import random as _r
    mk = param_catalogue()[name]
    x = dy_array(_r.Random(17), (3, 4), "float64", lo=0, hi=3) + 0.25

    def do(o, v, m=None):
        m = m or meth
        return o(v) if m == "__call__" else (o.grad(v) if m == "grad" else o.prox(v, 0.3))
    if meth == "prox" and not mk(s1).has_prox:
        return

    def seq():
        o = mk(s1)
        first = do(o, x)
        if warm:
            for m2 in ("__call__", "grad"):
                _ = outcome(lambda: do(o, x, m2))
        o.set_scale(s2)
        return first, do(o, x)
    used = outcome(seq)

    def seq_nojit():
        with jax.disable_jit():
            return seq()
    nojit = outcome(seq_nojit)
    fresh = outcome(lambda: (do(mk(s1), x), do(mk(s2), x)))
    tol = 1e-12 if meth != "prox" or "noA" in name or "f=" in name else 1e-6     # prox via CG iterations otherwise
    inp = {"object": name, "method": meth, "scales": [s1, s2], "warm": warm}
    for mode, other in (("fresh object built with the new scale", fresh), ("same sequence under jax.disable_jit()", nojit)):
        ctx.count("param-mutation", dict(inp, against=mode))
        if used[0] == "exc" or other[0] == "exc":
            ok, why = (used == other), f"{used[0]}:{used[1] if used[0] == 'exc' else ''} vs {other[0]}:{other[1] if other[0] == 'exc' else ''}"
            idx = 1
        else:
            for idx in (0, 1):
                ok, why = close(used[1][idx], other[1][idx], tol)
                if not ok:
                    break
        if not ok:
            ctx.violation(f"param-mutation:{name}.{meth}",
                          ("result of the call AFTER set_scale" if idx else "result of the FIRST call")
                          + " differs from the " + mode,
                          dict(inp, against=mode), expected=mode, observed=why,
                          oracle="ParamState.v real_result_function_of_current_state")
            return


def run_ps_impl(case):
    """exact observation: probe with 2 (x - y) = 1 and ||x - y||^2 = 1, so value = gradient entry = scale"""
    import scico.numpy as snp
    from scico import loss, functional, linop
    x = snp.array(np.array([1.0, -2.0, 0.5, 3.0]))
    y = x - 0.5
    if case["kind"] == "SquaredL2Loss":
        o = loss.SquaredL2Loss(y=y, A=linop.Identity((4,), input_dtype=np.float64), scale=case["s0"])
    elif case["kind"] == "Loss":
        o = loss.Loss(y=y, f=functional.SquaredL2Norm(), scale=case["s0"])
    else:
        o = 2.0 * loss.SquaredL2Loss(y=y, scale=case["s0"] / 2.0)
    obs = []
    for code, v in case["ops"]:
        if code == 0:
            g = np.asarray(o.grad(x))
            obs.append(float(g[0]) if np.all(g == g[0]) else float("nan"))
        elif code == 1:
            obs.append(float(o(x)))
        else:
            o.set_scale(v)
    if any(t != t for t in obs):
        raise Broken("loss gradient is not constant on the probe point", str(obs))
    return obs


def check_param_mutation(ctx, rng):
    cat = param_catalogue()
    for name in sorted(cat):
        for meth in ("grad", "__call__", "prox"):
            if ctx.quick and meth != "grad" and rng.random() < 0.5:
                continue
            s1, s2 = rng.choice([(0.5, 2.0), (1.0, 0.25), (2.0, 3.0)])
            r = outcome(lambda: run_param_mutation(ctx, name, meth, s1, s2, rng.random() < 0.5))
            if r[0] == "exc":
                ctx.obligation(False, f"parameter-update scenario {name}.{meth} could not be executed", r[1])
    items, meta = [], []
    for _ in range(ctx.n(20, 300)):
        ops = []
        for _ in range(rng.randint(3, 8)):
            c = rng.choice([0, 0, 1, 2])
            ops.append([c, rng.choice(LOSS_C) if c == 2 else 0])
        case = {"kind": rng.choice(["SquaredL2Loss", "Loss", "copy"]), "s0": rng.choice([0.5, 1.0, 2.0, 0.25]), "ops": ops}
        obs = run_ps_impl(case)
        ctx.count("param-history", case)
        items.append(f"({qlit(case['s0'])}, " + coq_list([f"({c}, {qlit(v)})" for c, v in ops]) + ", "
                     + coq_list([qlit(v) for v in obs]) + ")")
        meta.append((case, obs))
    body = "Definition cases := " + coq_list(items, ";\n ") + ".\nEval vm_compute in (TVNorm.bad_idx ps_case_ok cases 0%nat)."
    for idx in parse_eval_nat_list(coq_eval_shards("C19_ps", HEADER, [body])[0]):
        case, obs = meta[idx]
        ctx.violation("param-history", "values / gradients of a loss along a history of calls and set_scale updates are not those "
                      "of the current scale", case, expected="ParamState.v run_real (scale at the time of each call)",
                      observed=obs, oracle="ps_case_ok")


# =====================================================================================
# run / replay
# =====================================================================================

def check_random_python(ctx, rng):
    """python-side facts for EVERY wrapped sampler: key given as the last positional argument ==
    key by keyword (bitwise), returned key == split(key)[0] != key, chained draws are not all the
    same, nested shape => block array of the requested shapes, key + seed raises"""
    import jax
    from scico.numpy import BlockArray
    for name in rnd_names():
        params = rnd_params(name, 1)
        # quick tier: the nested draw for a seed-dependent third of the samplers (stream C draws every
        # sampler nested as well)
        for shape in (((8,), ((8,), (8,))) if (not ctx.quick or rng.random() < 0.34) else ((8,),)):
            k = jax.random.PRNGKey(rng.randint(1, 1000))
            r = outcome(lambda: (rnd_call(name, params, shape, 2, k, None), rnd_call(name, params, shape, 0, k, None)))
            ctx.count("random-python", {"fn": name, "shape": shape})
            if r[0] == "exc":
                ctx.violation("scico.random." + name, "call with the key as last positional argument / by keyword raises",
                              {"fn": name, "shape": shape}, expected="a sample", observed=r[1], oracle="Random.v")
                continue
            (a, k1), (b, k1b) = r[1]
            (c, k2) = rnd_call(name, params, shape, 2, k1, None)
            (d, _k3) = rnd_call(name, params, shape, 2, k2, None)
            same = all(np.array_equal(u, v) for u, v in zip(blocks_of(a), blocks_of(b))) and np.array_equal(k1, k1b)
            adv = not np.array_equal(np.asarray(k1), np.asarray(k)) and np.array_equal(np.asarray(k1), np.asarray(jax.random.split(k, 2)[0]))
            diff = any(not (np.array_equal(u, v) and np.array_equal(u, w))
                       for u, v, w in zip(blocks_of(a), blocks_of(c), blocks_of(d)))
            nested_ok = isinstance(a, BlockArray) == isinstance(shape[0], tuple) and \
                (not isinstance(a, BlockArray) or len(a) == len(shape))
            raised = outcome(lambda: rnd_call(name, params, shape, 0, k, 1))
            for okk, what in ((same, "key as last positional argument and key by keyword give different outputs / keys"),
                              (adv, "returned key is not split(key)[0] / not advanced"),
                              (diff, "three chained draws (x, key = f(..., key)) are all identical"),
                              (nested_ok, "nested shape did not give a block array with one block per shape"),
                              (raised == ("exc", "ValueError"), "key and seed together did not raise ValueError")):
                if not okk:
                    ctx.violation("scico.random." + name, what, {"fn": name, "shape": shape},
                                  expected="pure function of (shape, dtype, key), binder independent", observed=what,
                                  oracle="Random.v binder_independent / result_and_key")


def run(ctx: Ctx):
    from vf.common import REPO
    import jax
    if not getattr(ctx, "no_proofs", False):
        ctx.proofs()
    ctx.trusted += [
        "Python object model as transcribed in C19/{TVNorm,Loss,Random,Defaults}.v (attribute tables, shallow copy, bound-method closures, mutable default aliasing)",
        "jax.random.PRNGKey / split / samplers are pure functions of their arguments (Section variables of Random.v; recorded as tables for the comparison)",
        "scico.grad (jax.grad) is extensional and homogeneous (Section hypotheses D_ext, D_scale of Loss.v)",
        "assigned-locations translator (vf/props/C19.py _Lower: Python ast -> Defaults.v statements; call results are fresh values that may contain, but do not alias, their arguments; callee bodies are separate units)",
        "monkeypatched constructor counters on scico.functional._tvnorm.{FiniteDifference,HaarTransform} (no edit of /repo)",
    ]
    ctx.assumptions += [
        "exact arithmetic in the models; IEEE rounding is not modelled",
        "eager-vs-jit agreement (jax.jit, constructor jit option, jax.disable_jit) is a fact about XLA: NOT covered by any theorem, decided by correspondence only (streams mode:* and solver:*), tolerance 1e-6 float32 / 1e-12 float64: max|a-b| <= tol * max(1, max|ref|) per block",
        "numerical values of TV-norm calls after a history are compared with a fresh object by the harness; TVNorm.v carries ok/raise, operator descriptor and rebuild pattern only",
    ]
    ctx.notes += [
        "CLAUSE 'same value eagerly / under jax.jit / constructor jit on-off / jax.disable_jit': decided by correspondence only",
        "lazy fields an object may set on ITSELF are not counted as mutation: " + ", ".join(LAZY_FIELDS),
        "scico.random nested shapes: every block is drawn with the SAME key (blocks of equal shape are identical) -- pure, so not a C19 violation; noted",
        "GenericSubproblemSolver builds its default minimize_kwargs per instance (fix 181f4c4): modelled by SharedDefault.v (per-call helper objects); stream H reports any helper object shared between two independently built solvers",
    ]
    rng = ctx.rng
    import time as _time
    marks = [("start", _time.time())]

    def mark(nm):
        marks.append((nm, _time.time()))
    defaults_before = {k: snapshot(v) for k, v in mutable_defaults().items()}

    # ---------------- (A) TVNorm cache
    fixed = [{"class": "AnisotropicTVNorm", "circular": True, "decl": None, "seed": 1,
              "history": [[1, [3, 4], 1], [1, [3, 4], 3]]},               # the Coq witness history
             {"class": "IsotropicTVNorm", "circular": False, "decl": None, "seed": 2,
              "history": [[1, [3, 4], 1], [0, [3, 4], 3], [1, [5], 1], [1, [3, 4], 1]]},
             # mirror case: declared float32; a call of another shape rebuilds, then the declared shape
             # with float64 is accepted although a fresh object rejects it
             {"class": "AnisotropicTVNorm", "circular": True, "decl": [[3, 4], 0], "seed": 3,
              "history": [[1, [5], 1], [1, [3, 4], 1]]}]
    cases = fixed + [gen_tv_case(rng, ctx.n(4, 7)) for _ in range(ctx.n(8, 90))]
    bad, bad_fixed = check_tv(ctx, cases)
    repaired = bool(bad) and not bad_fixed
    if repaired:
        # the implementation follows the dtype-aware cache test (tv_run true): theorem
        # C19_tvnorm_fullkey_transparent applies; the recorded finding no longer reproduces
        ctx.notes.append("TVNorm follows the dtype-aware cache logic (TVNorm.v full = true) on every history: "
                         "known finding 'shape-only cache key' no longer reproduces")
        bad = []
    ctx.obligation(not bad, "TVNorm.v predicts ok/raise and the rebuild pattern of every call of every history",
                   json.dumps(bad[:2], default=str))
    for case, obs in bad:
        ctx.violation("TVNorm-cache-model", "implementation's rebuild/raise pattern differs from the model of _tvnorm.py",
                      {k: case[k] for k in ("class", "circular", "decl", "history", "seed")},
                      expected="TVNorm.v tv_run false", observed=obs, oracle="tv_case_ok")
    # the Coq witness must reproduce on the real code (recorded as a known finding)
    wobs, _ = run_tv_impl(fixed[0])
    ctx.obligation(repaired or [o[0] % 10 for o in wobs] == [0, 1], "Coq witness (float64 prox, then complex128 prox) raises on the real TVNorm",
                   str(wobs))

    mark("A-tvnorm")
    # ---------------- (B) loss rescaling
    lcases = [gen_loss_case(rng, ctx.n(6, 12)) for _ in range(ctx.n(40, 800))]
    items, meta = [], []
    for c in lcases:
        obs = run_loss_impl(c)
        ctx.count("loss-history", c)
        items.append(coq_loss_case(c, obs)); meta.append((c, obs))
    bodies = ["Definition cases := " + coq_list(items[s:s + 200], ";\n ") + ".\n"
              "Eval vm_compute in (TVNorm.bad_idx loss_case_ok cases 0%nat)." for s in range(0, len(items), 200)]
    for si, o in enumerate(coq_eval_shards("C19_loss", HEADER, bodies)):
        for idx in parse_eval_nat_list(o):
            c, obs = meta[si * 200 + idx]
            ctx.violation("Loss.rescale", "scales / gradient bindings after a history of rescalings differ from the copy+rebind model",
                          c, expected="Loss.v loss_model Real", observed=obs, oracle="loss_case_ok")

    mark("B-loss")
    # ---------------- (C) random
    tabs = ({}, {}, {})
    nfn = len(rnd_names())
    # every sampler: key as the last positional argument with a key != PRNGKey(0) (flat), one nested
    # draw, and seed-dependent further calls
    rcases = [gen_rnd_case(rng, fn, mode=2, nested=False, nonzero_key=True) for fn in range(nfn)]
    rcases += [gen_rnd_case(rng, fn, nested=True) for fn in range(nfn)]
    rcases += [gen_rnd_case(rng, rng.randrange(nfn), other_shapes=not ctx.quick) for _ in range(ctx.n(12, 500))]
    ritems, rmeta = [], []
    for c in rcases:
        obs = run_rnd_impl(c, tabs)
        ctx.count("random-call", c)
        ritems.append(coq_rnd_case(c, obs)); rmeta.append((c, obs))
    body = (coq_rnd_tabs(tabs) + "Definition cases : list (rcall * obs_t) := " + coq_list(ritems, ";\n ") + ".\n"
            "Eval vm_compute in (TVNorm.bad_idx (fun c => obs_eqb (run_rcall t_prng t_split t_gen (fst c)) (snd c)) cases 0%nat).")
    for idx in parse_eval_nat_list(coq_eval_shards("C19_rnd", HEADER, [body])[0]):
        c, obs = rmeta[idx]
        ctx.violation("scico.random." + c["name"], "output / returned key / raise differs from the _add_seed model",
                      c, expected="Random.v fun_alt on the recorded jax.random tables", observed=obs, oracle="run_rcall")
    check_random_python(ctx, rng)

    mark("C-random")
    # ---------------- (D) assigned locations
    progs = defaults_programs(REPO)
    dbodies = []
    for name, st, nv, dropped, nmd, lw in progs:
        tv, tf, tall, off = defaults_fixpoint(st)
        dbodies.append("Definition prog := " + coq_list([coq_stmt(s) for s in st], ";\n ") + ".\n"
                       f"Definition a := mkAbs {coq_list([str(v) for v in tv])} {coq_list([str(v) for v in tf])} {'true' if tall else 'false'}.\n"
                       "Eval vm_compute in (check a prog && forallb (tv a) [0]).")
    # self-test of translator + checker on two seeded mutations (must be rejected)
    seeded = {
        "alias-of-default-written": "class K:\n def __init__(self, kw={'a': 1}):\n  self.kw = kw\n def solve(self, x):\n  self.kw['n'] = x\n",
        "attached-object-written": "class K:\n def __init__(self, f):\n  self.f = f\n def step(self):\n  t = self.f\n  t.scale = 2\n",
        "inplace-rescale": "class K:\n def __mul__(self, c):\n  self.scale = self.scale * c\n  return self\n",
    }
    for nm, src in seeded.items():
        lw = _Lower("K")
        for fd in ast.parse(src).body[0].body:
            lw.method_def(fd)
        tv, tf, tall, off = defaults_fixpoint(lw.stmts)
        dbodies.append("Definition prog := " + coq_list([coq_stmt(s) for s in lw.stmts], ";\n ") + ".\n"
                       f"Definition a := mkAbs {coq_list([str(v) for v in tv])} {coq_list([str(v) for v in tf])} {'true' if tall else 'false'}.\n"
                       "Eval vm_compute in (check a prog && forallb (tv a) [0]).")
    douts = coq_eval_shards("C19_defaults", HEADER, dbodies)
    for (name, st, nv, dropped, nmd, lw), o in zip(progs, douts):
        v = parse_evals(o)
        ctx.count("assigned-locations", {"unit": name, "statements": len(st), "mutable_defaults": nmd})
        if v != ["true"]:
            tv, tf, tall, off = defaults_fixpoint(st)
            inv = {i: k for k, i in lw.vars.items()}
            invf = {i: k for k, i in lw.fields.items()}
            ctx.violation("assigned-locations:" + name, "a statement may write through a default argument / attached object",
                          {"unit": name, "stores": [[inv[s[1]], invf[s[2]], inv[s[3]]] for s in off][:5]},
                          expected="Defaults.check accepts", observed=v, oracle="Defaults.v no_write_to_protected")
        for dnote in dropped:
            if dnote not in ctx.notes:
                ctx.notes.append("permitted cache write: " + dnote)
    for nm, o in zip(seeded, douts[len(progs):]):
        ctx.obligation(parse_evals(o) == ["false"], f"assigned-locations checker rejects the seeded mutation '{nm}'", o[-300:])
    ctx.exhaustive = False

    mark("D-defaults")
    # ---------------- (E) modes
    cat = operator_catalogue(rng)
    check_jit_option(ctx, rng, cat)      # every class, both tiers
    mark("E0-jit-option")
    names = sorted(cat)
    if ctx.quick:      # quick tier: the further modes on a seed-dependent 30 % of the operator classes (all in thorough)
        names = sorted(rng.sample(names, (len(names) * 30) // 100))
        ctx.notes.append("quick tier: operator classes checked in this run: " + ", ".join(names))
    for name in names:
        dts = cat[name][1]
        use = dts if not ctx.quick else [rng.choice(dts)]
        for d in use:
            r = outcome(lambda: check_modes_operator(ctx, rng, name, cat[name], d))
            if r[0] == "exc":
                ctx.obligation(False, f"mode check of operator {name} ({d}) could not be executed", r[1])
    fcat = functional_catalogue()
    for name in sorted(fcat):
        for d in (["float64"] if ctx.quick else ["float32", "float64"]):
            r = outcome(lambda: check_modes_functional(ctx, rng, name, fcat[name], d))
            if r[0] == "exc":
                ctx.obligation(False, f"mode check of functional {name} ({d}) could not be executed", r[1])
    lcat = loss_catalogue(rng)
    for name in sorted(lcat):
        for d in (["float64"] if ctx.quick else ["float32", "float64"]):
            r = outcome(lambda: check_modes_loss(ctx, rng, name, lcat[name], d))
            if r[0] == "exc":
                ctx.obligation(False, f"mode check of loss {name} ({d}) could not be executed", r[1])

    mark("E-modes")
    # ---------------- (F) snapshots, (G) solvers
    check_snapshots(ctx, rng)
    mark("F-snapshots")
    check_solvers(ctx, rng)
    mark("G-solvers")
    check_interleaved(ctx, rng)
    check_helper_contents(ctx, rng)
    mark("H-interleaved")
    check_reattach(ctx, rng)
    mark("I-reattach")
    check_param_mutation(ctx, rng)
    mark("J-param-updates")
    ctx.notes.append("wall seconds per stream: " + ", ".join(f"{b[0]} {b[1] - a[1]:.1f}" for a, b in zip(marks, marks[1:])))

    # shared mutable defaults of the whole library are what they were at the start
    after = mutable_defaults()
    for k, v in after.items():
        ctx.count("mutable-default", {"default": k})
        if snapshot(v) != defaults_before.get(k):
            ctx.violation("shared-default:" + k, "a mutable default argument changed during the run",
                          {"default": k}, expected=str(defaults_before.get(k))[:200], observed=str(snapshot(v))[:200],
                          oracle="deep snapshot")
    ctx.notes.append(f"mutable default arguments found in scico and watched for the whole run: {len(after)} "
                     + str(sorted(after))[:300])


def replay(ctx: Ctx, rec):
    unit, c = rec["unit"], rec["input"]
    if unit.startswith("TVNorm."):
        case = {k: c[k] for k in ("class", "circular", "decl", "history", "seed")}
        obs, recs = run_tv_impl(case)
        r = recs[c["index"]]
        m, sh, d = case["history"][c["index"]]
        fresh, _ = tv_fresh_outcome(case, m, r["x"])
        return same_outcome(r["used"], fresh)[0]
    if unit == "PGM.step":
        c2 = Ctx(ctx.pid, ctx.tier, ctx.seed)
        c2.known = []
        check_solvers(c2, c2.rng)
        return not any(v["unit"] == "PGM.step" for v in c2.violations)
    if unit.startswith("interleaved:") or unit == "shared-helper-object":
        c2 = Ctx(ctx.pid, ctx.tier, ctx.seed)
        c2.known = []
        cat = interleave_catalogue()
        run_interleaved_config(c2, c["config"], cat[c["config"]], c.get("variant", 0), c.get("steps", 2))
        return not any(v["unit"] == unit for v in c2.violations)
    if unit.startswith("reattach:"):
        c2 = Ctx(ctx.pid, ctx.tier, ctx.seed)
        c2.known = []
        run_reattach(c2, c["solver"], c["variant"], c.get("steps", 2))
        return not c2.violations and not c2.broken
    if unit.startswith("param-mutation:"):
        c2 = Ctx(ctx.pid, ctx.tier, ctx.seed)
        c2.known = []
        run_param_mutation(c2, c["object"], c["method"], c["scales"][0], c["scales"][1], c["warm"])
        return not c2.violations
    if unit == "param-history":
        obs = run_ps_impl(c)
        body = ("Definition cases := [(" + qlit(c["s0"]) + ", " + coq_list([f"({a}, {qlit(v)})" for a, v in c["ops"]]) + ", "
                + coq_list([qlit(v) for v in obs]) + ")].\nEval vm_compute in (TVNorm.bad_idx ps_case_ok cases 0%nat).")
        return parse_eval_nat_list(coq_eval_shards("C19_replay", HEADER, [body])[0]) == []
    if unit == "default-helper-content":
        obs = run_hc_impl(c)
        body = ("Definition cases := [(" + zl(100) + ", " + coq_list([f"({a}, {i}, {zl(v)})" for a, i, v in c["ops"]]) + ", "
                + coq_list([zl(v) for v in obs]) + ")].\nEval vm_compute in (TVNorm.bad_idx hc_case_ok cases 0%nat).")
        return parse_eval_nat_list(coq_eval_shards("C19_replay", HEADER, [body])[0]) == []
    if unit == "default-step-size-policy":
        obs = run_sd_impl(c)
        body = ("Definition cases := [(" + coq_list([f"({a}, {zl(v)})" for a, v in c["ops"]]) + ", "
                + coq_list([zl(v) for v in obs]) + ")].\nEval vm_compute in (TVNorm.bad_idx sd_case_ok cases 0%nat).")
        return parse_eval_nat_list(coq_eval_shards("C19_replay", HEADER, [body])[0]) == []
    if unit == "Loss.rescale":
        obs = run_loss_impl(c)
        body = ("Definition cases := [" + coq_loss_case(c, obs) + "].\n"
                "Eval vm_compute in (TVNorm.bad_idx loss_case_ok cases 0%nat).")
        return parse_eval_nat_list(coq_eval_shards("C19_replay", HEADER, [body])[0]) == []
    # every other unit: re-run the whole (deterministic) check with the recorded seed and look
    # for the same unit
    c2 = Ctx(ctx.pid, ctx.tier, ctx.seed)
    c2.known = []
    c2.no_proofs = True
    run(c2)
    return not any(v["unit"] == unit for v in c2.violations)
