"""C20 -- learned-model support: application, data iteration and persistence are faithful.

Theorems: coq/Properties/C20.v (models coq/theories/C20/{FlaxMap,IterateData,Checkpoint,Exec}.v).
Correspondence with the real code (every run, from /repo's working tree):
 (a) FlaxMap on DnCNNNet / ResNet / ConvBNNet / UNet x input ranks 2/3/4: a recording proxy
     around model.apply notes the shape and keywords it received; shapes compared with the
     model inside Coq, values bit-exact with model.apply on the canonical batch;
 (b) IterateData for n not divisible by b over several epochs, index-encoding dataset; the
     permutations the implementation draws are recorded and the state machine is evaluated by
     vm_compute on them and compared inside Coq; pairing / whole-row selection / determinism;
 (c) load_variables(save_variables(v)) bit-exact on random variable trees and real model
     variables; 1-6 checkpoint_save at increasing steps then checkpoint_restore with the real
     Orbax (directory listing and restored state vs the store spec, inside Coq); missing and
     empty directories; resume offset through a real BasicFlaxTrainer.
"""
from __future__ import annotations

import os
import shutil

import numpy as np

from vf.common import Ctx, Broken, BUILD, coq_eval_shards, parse_eval_nat_list, coq_list

SCR = BUILD / "C20"

HEADER = """From Coq Require Import List Arith Bool.
From SV Require Import C20.FlaxMap C20.IterateData C20.Checkpoint C20.Exec.
Import ListNotations.
"""


def nl(xs):
    return "[" + "; ".join(str(int(t)) for t in xs) + "]"


def eval_cases(name, fn, items):
    if not items:
        return []
    bad = []
    shard = 200
    bodies = ["Definition cases := " + coq_list(items[k:k + shard], ";\n ") + ".\n"
              f"Eval vm_compute in (bad_idx {fn} cases 0%nat)." for k in range(0, len(items), shard)]
    for si, o in enumerate(coq_eval_shards(name, HEADER, bodies)):
        bad += [si * shard + i for i in parse_eval_nat_list(o)]
    return bad


# ------------------------------------------------------------------ (a) FlaxMap

class RecModel:
    """Stands in for the flax Module inside FlaxMap: records what model.apply receives."""

    def __init__(self, model):
        self.model = model
        self.seen = []

    def apply(self, variables, x, *a, **kw):
        self.seen.append((tuple(x.shape), a, dict(kw)))
        return self.model.apply(variables, x, *a, **kw)


ARCHS = ["DnCNNNet", "ResNet", "ConvBNNet", "UNet"]


def make_model(arch, depth, channels, nf):
    from scico import flax as sflax
    return getattr(sflax, arch)(depth=depth, channels=channels, num_filters=nf)


def flax_case(rng, arch, rank):
    depth = rng.choice([2, 3])
    channels = 1 if rank == 2 else rng.choice([1, 2, 3])
    nf = rng.choice([2, 3])
    m = 2 ** (depth - 1) if arch == "UNet" else 1          # UNet pools depth-1 times
    h, w = m * rng.randint(2, 4), m * rng.randint(2, 4)
    k = rng.randint(1, 3)
    shape = {2: (h, w), 3: (h, w, channels), 4: (k, h, w, channels)}[rank]
    return {"arch": arch, "depth": depth, "channels": channels, "num_filters": nf,
            "shape": list(shape), "seed": rng.randint(0, 10 ** 6)}


def unit_shapes(rng):
    """Inputs with unit spatial / batch / channel dimensions: only the axes FlaxMap added may go."""
    w, h, c, k = rng.randint(2, 5), rng.randint(2, 5), rng.choice([2, 3]), rng.choice([2, 3])
    return [[1, w], [h, 1], [1, 1], [1, w, c], [h, 1, 1], [1, 1, 1], [1, w, 1],
            [k, 1, w, c], [1, h, w, 1], [1, 1, 1, 1], [1, 1, w, c], [k, h, 1, 1]]


def flax_unit_case(rng, arch, shape):
    channels = 1 if len(shape) == 2 else shape[-1]
    return {"arch": arch, "depth": 2, "channels": channels, "num_filters": 2, "shape": list(shape),
            "seed": rng.randint(0, 10 ** 6), "unit_dims": True}


_var_cache = {}


def run_flax_case(c):
    import jax
    import jax.numpy as jnp
    from scico.flax import FlaxMap
    model = make_model(c["arch"], c["depth"], c["channels"], c["num_filters"])
    key = (c["arch"], c["depth"], c["channels"], c["num_filters"])
    if key not in _var_cache:
        _var_cache[key] = model.init({"params": jax.random.PRNGKey(1)}, jnp.ones((1, 8, 8, c["channels"]), jnp.float32), train=False)
    variables = _var_cache[key]
    r = np.random.RandomState(c["seed"])
    x = jnp.asarray((r.randint(-8, 9, size=c["shape"]) / 4.0).astype(np.float32))
    canon = {2: (1,) + tuple(c["shape"]) + (1,), 3: (1,) + tuple(c["shape"]), 4: tuple(c["shape"])}[len(c["shape"])]
    try:
        yd = model.apply(variables, x.reshape(canon), train=False, mutable=False)
    except Exception as e:     # noqa: BLE001 - the network itself does not accept this size (e.g. UNet pooling)
        return {"skip": f"{type(e).__name__}"}
    if 0 in yd.shape:
        return {"skip": "network output is empty"}
    rec = RecModel(model)
    y = FlaxMap(rec, variables)(x)
    if len(rec.seen) != 1:
        return {"error": f"model.apply called {len(rec.seen)} times"}
    shp, a, kw = rec.seen[0]
    return {"received": list(shp), "kwargs": {k: bool(v) for k, v in kw.items()}, "nargs": len(a),
            "net_out": list(yd.shape), "out": list(y.shape),
            "data_equal": bool(np.array_equal(np.asarray(y).ravel(), np.asarray(yd).ravel())),
            "dtype_equal": str(y.dtype) == str(yd.dtype)}


def check_flaxmap(ctx):
    import scico.numpy as snp
    from scico.flax import FlaxMap
    combos = [(a, r) for a in ARCHS for r in (2, 3, 4)]
    reps = ctx.n(2, 20)
    items, meta = [], []
    cases = [flax_case(ctx.rng, a, r) for a, r in combos for _ in range(reps)]
    us = unit_shapes(ctx.rng)
    if ctx.quick:       # every unit-dimension shape on one architecture (rotating), UNet tried once
        cases += [flax_unit_case(ctx.rng, ARCHS[(i + ctx.seed) % 3], sh) for i, sh in enumerate(us)]
        cases.append(flax_unit_case(ctx.rng, "UNet", [1, 4]))
    else:
        cases += [flax_unit_case(ctx.rng, a, sh) for a in ARCHS for sh in us + unit_shapes(ctx.rng)]
    for c in cases:
        a, r = c["arch"], len(c["shape"])
        o = run_flax_case(c)
        if "skip" in o:
            ctx.dist["flaxmap:size-not-accepted-by-network"] = ctx.dist.get("flaxmap:size-not-accepted-by-network", 0) + 1
            continue
        ctx.count(f"flaxmap:{a}", c)
        ctx.dist[f"flaxmap-rank{r}"] = ctx.dist.get(f"flaxmap-rank{r}", 0) + 1
        if c.get("unit_dims"):
            ctx.dist["flaxmap:unit-dimension-inputs"] = ctx.dist.get("flaxmap:unit-dimension-inputs", 0) + 1
        if "error" in o:
            ctx.violation("FlaxMap", "FlaxMap does not call model.apply exactly once", c, observed=o)
            continue
        if o["kwargs"] != {"train": False, "mutable": False} or o["nargs"] or not o["data_equal"] or not o["dtype_equal"]:
            ctx.violation("FlaxMap", "FlaxMap(x) differs from model.apply on the canonical batch (values / dtype / inference-mode keywords)",
                          c, expected="bit-equal data, train=False, mutable=False", observed=o, oracle="C20_flaxmap_rank2/3/4")
        if o["net_out"] == o["received"] and o["out"] != c["shape"]:
            ctx.violation("FlaxMap", "FlaxMap output does not have the shape of its input although the network preserves the "
                          "shape of the canonical batch (an axis other than the added ones was removed)", c,
                          expected=c["shape"], observed=o, oracle="C20_flaxmap_rank2/3/4")
        items.append(f"({nl(c['shape'])}, {nl(o['received'])}, {nl(o['net_out'])}, {nl(o['out'])})")
        meta.append((c, o))
    for i in eval_cases("C20_flax", "flax_case_ok", items):
        c, o = meta[i]
        ctx.violation("FlaxMap", "axis bookkeeping of FlaxMap.__call__ differs from the model (shape received by the network / axes removed)",
                      c, expected="C20/FlaxMap.v call", observed=o, oracle="C20_flaxmap_rank2/3/4")
    # block arrays are refused
    model = make_model("ConvBNNet", 2, 1, 2)
    try:
        FlaxMap(model, {})(snp.blockarray([np.ones((4, 4)), np.ones((4, 4))]))
        ctx.violation("FlaxMap", "FlaxMap accepts a BlockArray", {"input": "blockarray"}, expected="NotImplementedError", observed="returned")
    except NotImplementedError:
        ctx.count("flaxmap:blockarray", {"input": "blockarray"})
    except Exception as e:     # noqa: BLE001
        ctx.violation("FlaxMap", "FlaxMap raises the wrong exception for a BlockArray", {"input": "blockarray"},
                      expected="NotImplementedError", observed=type(e).__name__)


# ------------------------------------------------------------------ (c1) save/load variables

def rand_tree(rng, depth=0):
    d = {}
    for i in range(rng.randint(1, 3)):
        name = rng.choice(["Conv", "BatchNorm", "kernel", "bias", "scale", "mean", "var", "layer"]) + f"_{i}"
        if depth < 2 and rng.random() < 0.4:
            d[name] = rand_tree(rng, depth + 1)
        else:
            shp = [rng.randint(1, 3) for _ in range(rng.randint(0, 4))]
            dt = rng.choice(["float32", "float32", "float64", "int32", "float16"])
            r = np.random.RandomState(rng.randint(0, 10 ** 6))
            a = r.standard_normal(shp) * 10 ** rng.randint(-3, 3)
            if rng.random() < 0.1 and dt.startswith("float"):
                a = np.where(r.random_sample(shp) < 0.3, np.array([np.inf, -0.0, np.nan])[r.randint(0, 3, size=shp)], a)
            d[name] = np.asarray(a).astype(dt)
    return d


def tree_flat(t, prefix=()):
    out = {}
    for k, v in t.items():
        if isinstance(v, dict) or hasattr(v, "items"):
            out.update(tree_flat(v, prefix + (k,)))
        else:
            out[prefix + (k,)] = v
    return out


def trees_bit_equal(a, b):
    fa, fb = tree_flat(a), tree_flat(b)
    if set(fa) != set(fb):
        return f"key sets differ: {sorted(set(fa) ^ set(fb))[:4]}"
    for k in fa:
        x, y = np.asarray(fa[k]), np.asarray(fb[k])
        if x.dtype != y.dtype or x.shape != y.shape or x.tobytes() != y.tobytes():
            return f"leaf {'/'.join(k)}: {x.dtype}{x.shape} vs {y.dtype}{y.shape}"
    return None


def describe_tree(t):
    return {"/".join(k): f"{np.asarray(v).dtype}{list(np.asarray(v).shape)}" for k, v in tree_flat(t).items()}


def roundtrip_variables(v, tag):
    from scico.flax import load_variables, save_variables
    fn = str(SCR / f"vars_{tag}.msgpack")
    save_variables(v, fn)
    return load_variables(fn)


def check_variables(ctx):
    import jax
    import jax.numpy as jnp
    SCR.mkdir(parents=True, exist_ok=True)
    n = ctx.n(40, 800)
    for i in range(n):
        seed = ctx.rng.randint(0, 10 ** 9)
        import random
        r = random.Random(seed)
        v = {"params": rand_tree(r), "batch_stats": rand_tree(r)}
        as_jax = r.random() < 0.5
        inp = {"tree_seed": seed, "as_jax": as_jax, "has_batch_stats": True, "tree": describe_tree(v)}
        ctx.count("variables-roundtrip", inp)
        vv = jax.tree_util.tree_map(lambda a: jnp.asarray(a), v) if as_jax else v
        try:
            w = roundtrip_variables(vv, "rt")
        except Exception as e:     # noqa: BLE001
            ctx.violation("load_variables", "load_variables(save_variables(v)) raises", inp, observed=f"{type(e).__name__}: {e}"[:200])
            continue
        d = trees_bit_equal(vv, w)
        if d:
            ctx.violation("load_variables", "load_variables(save_variables(v)) is not bit-identical to v", inp,
                          expected="identical params and batch_stats", observed=d, oracle="bit equality")
    # variables of the shipped architectures
    for arch in ARCHS:
        for depth in (2, 3):
            model = make_model(arch, depth, 1, 2)
            v = model.init({"params": jax.random.PRNGKey(depth)}, jnp.ones((1, 8, 8, 1), jnp.float32), train=False)
            v = dict(v)
            inp = {"arch": arch, "depth": depth, "has_batch_stats": "batch_stats" in v, "collections": sorted(v)}
            ctx.count("variables-roundtrip-model", inp)
            try:
                w = roundtrip_variables(v, "model")
            except KeyError as e:
                ctx.violation("load_variables", "load_variables raises for saved variables of a model", inp,
                              expected="the saved params (and batch_stats when present)", observed=f"KeyError: {e}",
                              oracle="bit equality")
                continue
            d = trees_bit_equal(v, w)
            if d:
                ctx.violation("load_variables", "load_variables(save_variables(v)) is not bit-identical to v", inp, observed=d)


# ------------------------------------------------------------------ (c2) checkpoints

OPTS = ["SGD", "SGD-momentum", "ADAM", "ADAMW"]


def make_tx(opt):
    """The optimisers scico/flax/train/state.py builds, driven by a learning-rate schedule."""
    import optax
    sched = optax.exponential_decay(0.125, transition_steps=2, decay_rate=0.5)
    if opt == "SGD":
        return optax.sgd(learning_rate=sched)
    if opt == "SGD-momentum":
        return optax.sgd(learning_rate=sched, momentum=0.75, nesterov=True)
    if opt == "ADAM":
        return optax.adam(learning_rate=sched)
    return optax.adamw(learning_rate=sched)


def make_state(step, pid, base, opt="SGD-momentum"):
    """A freshly created train state (no optimiser step taken)."""
    import jax.numpy as jnp
    from scico.flax.train.state import TrainState
    params = {"dense": {"kernel": jnp.asarray(base["k"] + pid, jnp.float32), "bias": jnp.asarray(base["b"] * (pid + 1), jnp.float32)}}
    bs = {"bn": {"mean": jnp.asarray(base["m"] - pid, jnp.float32)}}
    st = TrainState.create(apply_fn=None, params=params, tx=make_tx(opt), batch_stats=bs)
    return st.replace(step=step)


def dyadic_grads(r, like):
    import jax
    import jax.numpy as jnp
    return jax.tree_util.tree_map(lambda a: jnp.asarray(r.randint(-8, 9, size=a.shape) / 8.0, a.dtype), like)


def trained_states(c, base):
    """States along one training run: before each save >= 1 optimiser steps are taken
    (momentum trace / Adam moments / schedule and step counts all move), then the step label of
    the case and new batch statistics are set."""
    import jax.numpy as jnp
    r = np.random.RandomState(c["seed"] + 1)
    st = make_state(0, 0, base, c["opt"])
    out = []
    for i, s in enumerate(c["steps"]):
        for _ in range(c["opt_steps"][i]):
            st = st.apply_gradients(grads=dyadic_grads(r, st.params))
        st = st.replace(step=s, batch_stats={"bn": {"mean": jnp.asarray(base["m"] - i, jnp.float32)}})
        out.append(st)
    return out


def state_leaves(st):
    import jax
    return {"step": np.asarray(st.step), "params": jax.tree_util.tree_map(np.asarray, st.params),
            "batch_stats": jax.tree_util.tree_map(np.asarray, st.batch_stats),
            "opt_struct": str(jax.tree_util.tree_structure(st.opt_state)),
            "opt": [np.asarray(t) for t in jax.tree_util.tree_leaves(st.opt_state)]}


def states_equal(a, b):
    """None iff the WHOLE training state agrees: step, params, batch_stats and every leaf of
    opt_state (tree structure, dtype, shape, bits)."""
    la, lb = state_leaves(a), state_leaves(b)
    if int(la["step"]) != int(lb["step"]):
        return f"step {int(lb['step'])} instead of {int(la['step'])}"
    for k in ("params", "batch_stats"):
        d = trees_bit_equal(la[k], lb[k])
        if d:
            return f"{k}: {d}"
    if la["opt_struct"] != lb["opt_struct"] or len(la["opt"]) != len(lb["opt"]):
        return "opt_state: tree structure differs"
    for n, (x, y) in enumerate(zip(la["opt"], lb["opt"])):
        if x.dtype != y.dtype or x.shape != y.shape or x.tobytes() != y.tobytes():
            return f"opt_state: leaf {n} differs ({x.ravel()[:3].tolist()} vs {y.ravel()[:3].tolist()})"
    return None


def run_ckpt_case(c, tag):
    c = dict({"opt": "SGD-momentum", "opt_steps": [1] * len(c["steps"])}, **c)      # records of older runs
    from scico.flax.train.checkpoints import checkpoint_restore, checkpoint_save
    wd = SCR / "ckpt" / tag
    shutil.rmtree(wd, ignore_errors=True)
    r = np.random.RandomState(c["seed"])
    base = {"k": r.randint(-8, 9, size=(2, 3)) / 4.0, "b": r.randint(1, 9, size=(3,)) / 4.0, "m": r.randint(-8, 9, size=(2,)) / 4.0}
    states = trained_states(c, base)
    conf = {"opt_type": c["opt"], "batch_size": 2, "post_lst": [1, 2]}
    for st in states:
        checkpoint_save(st, conf, str(wd) if c["str_path"] else wd)
    listing = sorted((int(p) for p in os.listdir(wd) if p.isdigit()), reverse=True)
    template = make_state(0, 99, base, c["opt"])        # a FRESHLY created target: nothing of the saved run in it
    got = checkpoint_restore(template, str(wd) if c["str_path"] else wd, ok_no_ckpt=c["ok_no_ckpt"])
    pid = None
    for i, st in enumerate(states):
        if states_equal(st, got) is None:
            pid = i
    shutil.rmtree(wd, ignore_errors=True)
    diff = states_equal(states[-1], got)
    nxt = None
    if diff is None or not diff.startswith(("step", "params", "batch_stats")):
        # the next training step from the restored state equals the uninterrupted run
        g = dyadic_grads(np.random.RandomState(c["seed"] + 2), states[-1].params)
        try:
            nxt = states_equal(states[-1].apply_gradients(grads=g), got.apply_gradients(grads=g))
        except Exception as e:     # noqa: BLE001
            nxt = f"apply_gradients on the restored state raises {type(e).__name__}"
    return {"listing": listing, "restored_step": int(got.step), "restored_id": pid,
            "diff_vs_last": diff, "next_step_diff": nxt}


def check_checkpoints(ctx):
    from scico.flax.train.checkpoints import checkpoint_restore
    (SCR / "ckpt").mkdir(parents=True, exist_ok=True)
    n = ctx.n(14, 150)
    items, meta = [], []
    for i in range(n):
        k = 1 + i % 6 if i < 6 else ctx.rng.randint(1, 6)
        steps, s = [], 0
        for _ in range(k):
            s += ctx.rng.randint(1, 9)
            steps.append(s)
        if ctx.rng.random() < 0.2:
            steps[0] = 0 if k == 1 or steps[1] > 0 else steps[0]      # step 0 is a legal first step
        c = {"steps": steps, "seed": ctx.rng.randint(0, 10 ** 6), "str_path": ctx.rng.random() < 0.5,
             "ok_no_ckpt": ctx.rng.random() < 0.5, "opt": OPTS[i % 4],
             "opt_steps": [ctx.rng.randint(1, 3) for _ in steps]}
        ctx.count(f"checkpoint-saves-{k}", c)
        try:
            o = run_ckpt_case(c, "c")
        except Exception as e:     # noqa: BLE001
            ctx.violation("checkpoint", "checkpoint_save / checkpoint_restore raises", c, observed=f"{type(e).__name__}: {e}"[:300])
            continue
        if o["diff_vs_last"] is not None or o["next_step_diff"] is not None:
            ctx.violation("checkpoint", "checkpoint_restore into a fresh target does not return the WHOLE state of the most recent "
                          "checkpoint (step, params, batch_stats, every leaf of opt_state) / the next training step differs from "
                          "the uninterrupted run", c, expected=f"state saved at step {steps[-1]}", observed=o,
                          oracle="C20_restore_latest / C20_restore_full_state")
            continue
        vs = coq_list([f"({s}, {j})" for j, s in enumerate(steps)])
        items.append(f"({vs}, {nl(o['listing'])}, ({o['restored_step']}, {o['restored_id']}))")
        meta.append((c, o))
    for i in eval_cases("C20_ckpt", "ckpt_case_ok", items):
        c, o = meta[i]
        ctx.violation("checkpoint", "checkpoint directory / restored state differ from the store specification (keep the 3 largest steps, restore the largest)",
                      c, expected="C20/Checkpoint.v", observed=o, oracle="C20_checkpoint_keeps_last_three / C20_restore_latest")
    # missing directory, empty directory
    base = {"k": np.ones((2, 3)), "b": np.ones(3), "m": np.zeros(2)}
    st = make_state(3, 0, base)
    missing = SCR / "ckpt" / "does_not_exist"
    shutil.rmtree(missing, ignore_errors=True)
    for as_str in (False, True):
        p = str(missing) if as_str else missing
        inp = {"case": "missing directory", "str_path": as_str}
        ctx.count("checkpoint-missing", inp)
        try:
            r = checkpoint_restore(st, p, ok_no_ckpt=True)
            if r is not st:
                ctx.violation("checkpoint", "missing directory with ok_no_ckpt=True does not return the input state", inp, observed=str(type(r)))
        except Exception as e:     # noqa: BLE001
            ctx.violation("checkpoint", "missing directory with ok_no_ckpt=True raises", inp, observed=type(e).__name__)
        for kw in ({"ok_no_ckpt": False}, {}):
            try:
                checkpoint_restore(st, p, **kw)
                ctx.violation("checkpoint", "missing directory without ok_no_ckpt does not raise", inp, expected="FileNotFoundError", observed="returned")
            except FileNotFoundError:
                pass
            except Exception as e:     # noqa: BLE001
                ctx.violation("checkpoint", "missing directory without ok_no_ckpt raises the wrong exception", inp,
                              expected="FileNotFoundError", observed=type(e).__name__)
    empty = SCR / "ckpt" / "empty"
    shutil.rmtree(empty, ignore_errors=True)
    empty.mkdir(parents=True)
    inp = {"case": "existing directory without checkpoints"}
    ctx.count("checkpoint-empty", inp)
    try:
        r = checkpoint_restore(st, empty, ok_no_ckpt=False)
        if states_equal(st, r) is not None:
            ctx.violation("checkpoint", "empty directory: the input state is not returned", inp, observed=states_equal(st, r))
    except Exception as e:     # noqa: BLE001
        ctx.violation("checkpoint", "empty directory: checkpoint_restore raises", inp, observed=f"{type(e).__name__}: {e}"[:200])
    shutil.rmtree(empty, ignore_errors=True)


def only_apply_case(rng, arch):
    return {"arch": arch, "depth": rng.choice([2, 3]) if arch != "DnCNNNet" else 3, "seed": rng.randint(0, 10 ** 6),
            "step": rng.randint(1, 50), "n": rng.choice([4, 5, 6]), "batch": 2}


def run_only_apply_case(c):
    """Checkpoint a state whose params AND batch statistics have moved off their initial values,
    then only_apply(variables=None, checkpointing=True): the variables used must be exactly the
    saved ones and the output the model applied with the saved variables."""
    import contextlib
    import io
    import jax
    import jax.numpy as jnp
    from scico.flax.train.apply import only_apply
    from scico.flax.train.checkpoints import checkpoint_save
    from scico.flax.train.learning_rate import create_cnst_lr_schedule
    from scico.flax.train.state import create_basic_train_state
    wd = SCR / "only_apply"
    shutil.rmtree(wd, ignore_errors=True)
    model = make_model(c["arch"], c["depth"], 1, 2)
    N, n, b = 8, c["n"], c["batch"]
    r = np.random.RandomState(c["seed"])
    x = jnp.asarray((r.randint(-8, 9, size=(n, N, N, 1)) / 4.0).astype(np.float32))
    conf = {"seed": c["seed"] % 1000, "opt_type": "SGD", "batch_size": b, "base_learning_rate": 1e-3,
            "checkpointing": True, "workdir": str(wd)}
    state = create_basic_train_state(jax.random.PRNGKey(conf["seed"] + 17), conf, model, (N, N), create_cnst_lr_schedule(conf))

    def move(path, a):          # dyadic offsets; running variances stay positive
        name = str(path[-1])
        d = r.randint(1, 9, size=a.shape) / 8.0 if "var" in name else r.randint(-8, 9, size=a.shape) / 8.0
        return a + jnp.asarray(d, a.dtype)
    params = jax.tree_util.tree_map_with_path(move, state.params)
    has_bs = state.batch_stats is not None and len(jax.tree_util.tree_leaves(state.batch_stats)) > 0
    bstats = jax.tree_util.tree_map_with_path(move, state.batch_stats) if has_bs else state.batch_stats
    state = state.replace(step=c["step"], params=params, batch_stats=bstats)
    checkpoint_save(state, dict(conf), wd)
    with contextlib.redirect_stdout(io.StringIO()):
        out, variables = only_apply(dict(conf), model, {"image": x, "label": x})
    shutil.rmtree(wd, ignore_errors=True)
    res = {"has_batch_stats": bool(has_bs)}
    res["params"] = trees_bit_equal(jax.tree_util.tree_map(np.asarray, params), jax.tree_util.tree_map(np.asarray, variables["params"]))
    res["batch_stats"] = None
    if has_bs:
        res["batch_stats"] = trees_bit_equal(jax.tree_util.tree_map(np.asarray, bstats),
                                             jax.tree_util.tree_map(np.asarray, variables["batch_stats"]))
    sv = {"params": params, "batch_stats": bstats} if has_bs else {"params": params}
    m = (n // b) * b
    exp = np.asarray(model.apply(sv, x[:m], train=False, mutable=False))
    got = np.asarray(out)
    res["out_shape"] = [list(got.shape), list(exp.shape)]
    res["out_err"] = float(np.max(np.abs(got - exp)) / max(1.0, float(np.max(np.abs(exp))))) if got.shape == exp.shape else None
    return res


def check_only_apply(ctx):
    archs = ["ConvBNNet", "ResNet"] if ctx.quick else ["ConvBNNet", "ResNet", "UNet", "DnCNNNet"] * 3
    for arch in archs:
        c = only_apply_case(ctx.rng, arch)
        ctx.count("only_apply-from-checkpoint", c)
        try:
            o = run_only_apply_case(c)
        except Exception as e:     # noqa: BLE001
            ctx.violation("only_apply", "only_apply from a checkpoint raises", c, observed=f"{type(e).__name__}: {e}"[:300])
            continue
        if o["params"] or o["batch_stats"]:
            ctx.violation("only_apply", "only_apply(variables=None, checkpointing=True) does not use exactly the saved params and batch_stats",
                          c, expected="bit-identical params and batch_stats of the checkpointed state", observed=o,
                          oracle="C20_restore_latest")
        elif o["out_err"] is None or o["out_err"] > 1e-5:
            ctx.violation("only_apply", "only_apply output differs from the model applied with the saved variables", c,
                          expected="model.apply(saved variables, images, train=False)", observed=o, oracle="C20_restore_latest")


def check_trainer_resume(ctx):
    """Real BasicFlaxTrainer: train, then construct a new trainer on the same workdir."""
    from scico import flax as sflax
    wd = SCR / "trainer_ckpt"
    shutil.rmtree(wd, ignore_errors=True)
    n, b, N = 9, 4, 8                     # 2 steps per epoch, one sample left over
    r = np.random.RandomState(ctx.rng.randint(0, 10 ** 6))
    x = (r.randint(-8, 9, size=(n, N, N, 1)) / 8.0).astype(np.float32)
    ds, tds = {"image": x, "label": x}, {"image": x[:4], "label": x[:4]}
    model = sflax.ConvBNNet(2, 1, 2)
    every = ctx.rng.choice([1, 2, 3])

    def conf(ep):
        return {"seed": 0, "opt_type": "SGD", "batch_size": b, "num_epochs": ep, "base_learning_rate": 1e-3,
                "warmup_epochs": 0, "log_every_steps": 1000, "steps_per_checkpoint": every, "checkpointing": True,
                "workdir": str(wd), "return_state": True, "log": False}
    saved = []          # model of the directory: steps saved so far
    e1 = ctx.rng.randint(1, 2)
    plan = [e1, e1 + ctx.rng.randint(1, 2), e1 + 1]
    for ep in plan:
        tr = sflax.BasicFlaxTrainer(conf(ep), model, ds, tds)
        off = int(tr.state.step)
        cnt = [0]
        orig = tr.p_train_step

        def counting(s, bt, orig=orig):
            cnt[0] += 1
            return orig(s, bt)
        tr.p_train_step = counting
        st, _ = tr.train()
        inp = {"n": n, "batch": b, "epochs": ep, "steps_per_checkpoint": every, "saved_before": list(saved)}
        ctx.count("trainer-resume", inp)
        exp_off = max(saved) if saved else 0
        exp_cnt = max(0, tr.num_steps - exp_off)
        if off != exp_off or cnt[0] != exp_cnt:
            ctx.violation("trainer", "resume offset / number of training steps after restoring a checkpoint differ from the specification",
                          inp, expected={"offset": exp_off, "steps_run": exp_cnt},
                          observed={"offset": off, "steps_run": cnt[0], "num_steps": tr.num_steps}, oracle="C20_resume_offset")
        saved.append(int(st.step))
    shutil.rmtree(wd, ignore_errors=True)


# ------------------------------------------------------------------ (b) IterateData

class record_permutations:
    def __enter__(self):
        import jax
        self.jr, self.orig, self.log = jax.random, jax.random.permutation, []

        def rec(key, x, *a, **k):
            p = self.orig(key, x, *a, **k)
            self.log.append([int(t) for t in np.asarray(p)])
            return p
        jax.random.permutation = rec
        return self.log

    def __exit__(self, *e):
        self.jr.permutation = self.orig
        return False


def run_iter_case(c):
    import jax
    import jax.numpy as jnp
    from scico.flax.train.input_pipeline import IterateData
    n, b = c["n"], c["b"]
    idx = np.arange(n, dtype=np.float32)
    img = jnp.asarray(idx.reshape(n, 1, 1, 1) * np.ones((1, 2, 3, 1), np.float32) + np.arange(6, dtype=np.float32).reshape(1, 2, 3, 1) / 8.0)
    lab = jnp.asarray(3.0 * idx.reshape(n, 1, 1, 1) * np.ones((1, 2, 3, 1), np.float32) + 1.0)
    ds = {"image": img, "label": lab}
    key = None if c["key"] is None else jax.random.PRNGKey(c["key"])
    with record_permutations() as log:
        it = IterateData(ds, b, c["train"], key)
        batches, bad = [], None
        for _ in range(c["calls"]):
            bt = next(it)
            i = [int(t) for t in np.asarray(bt["image"][:, 0, 0, 0])]
            batches.append(i)
            if set(bt) != {"image", "label"} or tuple(bt["image"].shape) != (b, 2, 3, 1):
                bad = f"batch keys/shape {sorted(bt)} {tuple(bt['image'].shape)}"
            elif all(0 <= t < n for t in i):
                if not (np.array_equal(np.asarray(bt["image"]), np.asarray(img)[i]) and np.array_equal(np.asarray(bt["label"]), np.asarray(lab)[i])):
                    bad = f"rows of batch {len(batches) - 1} are not dataset rows {i} in both image and label"
        perms = [list(p) for p in log]
    return {"batches": batches, "perms": perms, "pairing": bad}


def gen_iter_case(rng):
    b = rng.randint(1, 5)
    n = b * rng.randint(1, 4) + (rng.randint(1, b - 1) if b > 1 and rng.random() < 0.75 else 0)
    steps = n // b
    return {"n": n, "b": b, "train": rng.random() < 0.7, "key": rng.choice([None, rng.randint(0, 1000)]),
            "calls": rng.randint(1, 3 * steps + 2)}


def coq_iter_case(c, o):
    return (f"({c['n']}, {c['b']}, {'true' if c['train'] else 'false'}, "
            f"{coq_list([nl(p) for p in o['perms']])}, {coq_list([nl(t) for t in o['batches']])})")


def check_iterate(ctx):
    n = ctx.n(100, 2500)
    items, meta = [], []
    for i in range(n):
        c = gen_iter_case(ctx.rng)
        o = run_iter_case(c)
        ctx.count("iterate:" + ("train" if c["train"] else "eval"), c, nontrivial=c["n"] >= 2)
        if c["n"] % c["b"]:
            ctx.dist["iterate:n-not-divisible"] = ctx.dist.get("iterate:n-not-divisible", 0) + 1
        if o["pairing"]:
            ctx.violation("IterateData", "image and label rows of a batch are not the same dataset rows", c,
                          expected="batch[k] = dataset[k][idx] for every key with one index vector", observed=o["pairing"], oracle="C20_pairing")
        if i % 5 == 0:                                    # determinism for equal keys
            o2 = run_iter_case(c)
            if o2["batches"] != o["batches"]:
                ctx.violation("IterateData", "two iterators constructed with the same key yield different batches", c,
                              expected=o["batches"], observed=o2["batches"], oracle="C20_batches_closed_form")
        items.append(coq_iter_case(c, o))
        meta.append((c, o))
    for i in eval_cases("C20_iter", "iter_case_ok", items):
        c, o = meta[i]
        ctx.violation("IterateData", "batches differ from the state machine evaluated on the permutations the implementation drew "
                      "(epoch structure / truncation / reset on exhaustion / evaluation order)", c,
                      expected="C20/IterateData.v nexts", observed=o, oracle="C20_batches_closed_form / C20_epoch_structure / C20_eval_order")


# ------------------------------------------------------------------ (b2) sharding over several devices

def multidevice_worker(D, seed, quick):
    """Runs in a sub-process started with XLA_FLAGS=--xla_force_host_platform_device_count=D (set
    before jax is imported).  Returns {"devices", "shards": [(D, rows, shards)], "failures": [...]}."""
    import contextlib
    import io
    import random
    import jax
    import jax.numpy as jnp
    from scico.flax.train.input_pipeline import IterateData, create_input_iter, prepare_data
    rng = random.Random(seed * 31 + D)
    out = {"devices": jax.local_device_count(), "shards": [], "failures": [], "cases": 0}
    if out["devices"] != D:
        return out

    def fail(what, inp, exp, obs):
        out["failures"].append({"what": what, "input": inp, "expected": exp, "observed": obs})

    def dataset(n):
        idx = np.arange(n, dtype=np.float32)
        img = idx.reshape(n, 1, 1, 1) * np.ones((1, 2, 2, 1), np.float32) + np.arange(4, dtype=np.float32).reshape(1, 2, 2, 1) / 8.0
        lab = 3.0 * idx.reshape(n, 1, 1, 1) * np.ones((1, 2, 2, 1), np.float32) + 1.0
        return {"image": jnp.asarray(img), "label": jnp.asarray(lab)}, img, lab

    def unshard(bt, img, lab, b):
        """device shards concatenated in device order -> (row indices, rows-are-dataset-rows)"""
        a, l = np.asarray(bt["image"]), np.asarray(bt["label"])
        shards = [[int(t) for t in a[d, :, 0, 0, 0]] for d in range(a.shape[0])]
        rows = [t for s in shards for t in s]
        ok = a.shape[0] == D and all(0 <= t < len(img) for t in rows) and \
            np.array_equal(a.reshape((-1,) + a.shape[2:]), img[rows]) and np.array_equal(l.reshape((-1,) + l.shape[2:]), lab[rows])
        return rows, shards, ok
    for _ in range(3 if quick else 12):
        m = rng.randint(2, 3)                       # rows per device (>= 2)
        b = D * m
        n = b * rng.randint(1, 3) + rng.randint(1, b - 1)      # not a multiple of the batch
        steps = n // b
        ds, img, lab = dataset(n)
        key = jax.random.PRNGKey(rng.randint(0, 1000))
        inp = {"devices": D, "n": n, "batch": b, "device_batch": m}
        out["cases"] += 1
        # prepare_data on an arbitrary host batch
        pick = rng.sample(range(n), b)
        sh = prepare_data({"image": jnp.asarray(img[pick]), "label": jnp.asarray(lab[pick])})
        got = [[int(t) for t in np.asarray(sh["image"])[d, :, 0, 0, 0]] for d in range(np.asarray(sh["image"]).shape[0])]
        out["shards"].append([D, pick, got])
        # evaluation iterator: dataset order after un-sharding, over several epochs
        it = create_input_iter(key, ds, b, train=False)
        for j in range(2 * steps + 1):
            rows, shards, ok = unshard(next(it), img, lab, b)
            exp = list(range((j % steps) * b, (j % steps + 1) * b))
            out["shards"].append([D, exp, shards])
            if rows != exp or not ok:
                fail("evaluation iterator over several devices does not yield the dataset rows in order after un-sharding "
                     "(device shards concatenated in device order)", dict(inp, batch_number=j), exp, shards)
                break
        # training iterator: the sharded batch is IterateData's batch in the same row order
        it, ref = create_input_iter(key, ds, b, train=True), IterateData(ds, b, True, key)
        for j in range(steps + 2):
            rows, shards, ok = unshard(next(it), img, lab, b)
            exp = [int(t) for t in np.asarray(next(ref)["image"])[:, 0, 0, 0]]
            if rows != exp or not ok:
                fail("sharded training batch is not IterateData's batch in the same row order", dict(inp, batch_number=j), exp, shards)
                break
    # only_apply: outputs aligned with the dataset rows
    from scico.flax.train.apply import only_apply
    m = 2
    b = D * m
    n = 2 * b + rng.randint(1, b - 1)
    r = np.random.RandomState(seed + D)
    x = jnp.asarray((r.randint(-8, 9, size=(n, 8, 8, 1)) / 4.0).astype(np.float32))
    model = make_model("ConvBNNet", 2, 1, 2)
    v = model.init({"params": jax.random.PRNGKey(1)}, jnp.ones((1, 8, 8, 1), jnp.float32), train=False)
    v = {"params": v["params"], "batch_stats": v["batch_stats"]}
    with contextlib.redirect_stdout(io.StringIO()):
        o, _ = only_apply({"seed": 0, "batch_size": b}, model, {"image": x, "label": x}, variables=v)
    k = (n // b) * b
    exp = np.asarray(model.apply(v, x[:k], train=False, mutable=False))
    got = np.asarray(o)
    out["cases"] += 1
    if got.shape != exp.shape or float(np.max(np.abs(got - exp))) > 1e-5 * max(1.0, float(np.max(np.abs(exp)))):
        perm = None
        if got.shape == exp.shape:
            perm = [int(np.argmin([float(np.max(np.abs(got[i] - exp[j]))) for j in range(k)])) for i in range(k)]
        fail("only_apply over several devices: output rows are not aligned with the dataset rows",
             {"devices": D, "n": n, "batch": b}, list(range(k)), {"output_row_i_matches_input_row": perm})
    return out


def start_multidevice(ctx):
    """Launch the D = 2 and D = 4 workers (CPU, forced host device count) in the background."""
    import subprocess
    import sys
    procs = []
    for D in (2, 4):
        env = dict(os.environ, XLA_FLAGS=f"--xla_force_host_platform_device_count={D}", JAX_PLATFORMS="cpu")
        procs.append((D, subprocess.Popen(
            ["timeout", "600", sys.executable, "-W", "ignore", "-m", "vf.props.C20", "--multidevice", str(D), str(ctx.seed),
             "quick" if ctx.quick else "thorough"], stdout=subprocess.PIPE, stderr=subprocess.PIPE, text=True, env=env)))
    return procs


def collect_multidevice(ctx, procs):
    import json
    items, meta = [], []
    for D, pr in procs:
        o, e = pr.communicate()
        line = [ln for ln in o.splitlines() if ln.startswith("C20-MULTIDEVICE ")]
        if pr.returncode != 0 or not line:
            ctx.obligation(False, f"C20: multi-device worker (D={D}) did not complete", (o + e)[-1500:])
            continue
        r = json.loads(line[-1][len("C20-MULTIDEVICE "):])
        ctx.obligation(r["devices"] == D, f"C20: sub-process runs with {D} host devices", f"jax.local_device_count() = {r['devices']}")
        for _ in range(r["cases"]):
            ctx.count(f"sharding:{D}-devices", {"devices": D, "seed": ctx.seed, "k": _})
        for f in r["failures"]:
            ctx.violation("input_pipeline", f["what"], dict(f["input"], multidevice_seed=ctx.seed), expected=f["expected"],
                          observed=f["observed"], oracle="C20_sharding / C20_eval_order")
        for d, rows, shards in r["shards"]:
            items.append(f"({d}, {nl(rows)}, {coq_list([nl(t) for t in shards])})")
            meta.append({"devices": d, "rows": rows, "shards": shards, "multidevice_seed": ctx.seed})
    for i in eval_cases("C20_shard", "shard_case_ok", items):
        ctx.violation("input_pipeline", "prepare_data does not give device d the contiguous block of rows d*m .. d*m+m-1 "
                      "(un-sharding in device order must return the host batch)", meta[i], expected="C20/Sharding.v shard",
                      observed=meta[i]["shards"], oracle="C20_sharding")
    ctx.dist["sharding:batches-compared-in-coq"] = len(items)


# ------------------------------------------------------------------ run / replay

def run(ctx: Ctx):
    import logging
    logging.getLogger("absl").setLevel(logging.ERROR)
    SCR.mkdir(parents=True, exist_ok=True)
    if not getattr(ctx, "no_proofs", False):
        ctx.proofs()
    ctx.trusted += [
        "Flax Module.apply, flax.serialization msgpack, Orbax CheckpointManager, jax.random.split/permutation: "
        "Section variables / specification-level objects of coq/theories/C20 (only 'permutation returns a permutation' and "
        "'the network preserves rank and batch axis' are assumed); their contracts are exercised by the harness",
        "numpy semantics of reshape/squeeze/fancy indexing as transcribed in C20/FlaxMap.v and C20/IterateData.v",
        "recording proxies of vf/props/C20.py (model.apply proxy, jax.random.permutation recorder, p_train_step counter)",
    ]
    ctx.assumptions += ["checkpoint store specification is stated for saves at strictly increasing steps (what the trainer does)",
                        "n >= batch_size >= 1 for IterateData"]
    procs = start_multidevice(ctx)          # sub-processes with 2 and 4 host devices, collected below
    check_flaxmap(ctx)
    check_iterate(ctx)
    check_variables(ctx)
    check_checkpoints(ctx)
    check_only_apply(ctx)
    check_trainer_resume(ctx)
    collect_multidevice(ctx, procs)
    ctx.notes.append("sharding / evaluation order / only_apply alignment checked in sub-processes with "
                     "XLA_FLAGS=--xla_force_host_platform_device_count=2 and 4")
    ctx.notes.append("Orbax ran offline (real CheckpointManager, scratch under build/C20)")


def replay(ctx: Ctx, rec):
    unit, c = rec["unit"], rec["input"]
    SCR.mkdir(parents=True, exist_ok=True)
    if unit == "FlaxMap":
        if "arch" not in c:
            return False
        o = run_flax_case(c)
        if "skip" in o:
            return True
        if o["net_out"] == o["received"] and o["out"] != c["shape"]:
            return False
        if "error" in o or not o["data_equal"] or not o["dtype_equal"] or o["kwargs"] != {"train": False, "mutable": False}:
            return False
        return eval_cases("C20_replay", "flax_case_ok", [f"({nl(c['shape'])}, {nl(o['received'])}, {nl(o['net_out'])}, {nl(o['out'])})"]) == []
    if unit == "IterateData":
        o = run_iter_case(c)
        return not o["pairing"] and run_iter_case(c)["batches"] == o["batches"] and \
            eval_cases("C20_replay", "iter_case_ok", [coq_iter_case(c, o)]) == []
    if unit == "load_variables":
        import jax
        import jax.numpy as jnp
        if "arch" in c:
            model = make_model(c["arch"], c["depth"], 1, 2)
            v = dict(model.init({"params": jax.random.PRNGKey(c["depth"])}, jnp.ones((1, 8, 8, 1), jnp.float32), train=False))
        else:
            import random
            r = random.Random(c["tree_seed"])
            v = {"params": rand_tree(r), "batch_stats": rand_tree(r)}
            if r.random() < 0.5:
                v = jax.tree_util.tree_map(lambda a: jnp.asarray(a), v)
        try:
            return trees_bit_equal(v, roundtrip_variables(v, "replay")) is None
        except Exception:     # noqa: BLE001
            return False
    if unit == "input_pipeline":
        c2 = Ctx(ctx.pid, "quick", int(c.get("multidevice_seed", 0)))
        c2.known = []
        collect_multidevice(c2, start_multidevice(c2))
        return not c2.violations and not c2.broken
    if unit == "only_apply":
        try:
            o = run_only_apply_case(c)
        except Exception:     # noqa: BLE001
            return False
        return not o["params"] and not o["batch_stats"] and o["out_err"] is not None and o["out_err"] <= 1e-5
    if unit == "checkpoint" and "steps" in c:
        o = run_ckpt_case(c, "replay")
        if o["diff_vs_last"] is not None or o["next_step_diff"] is not None:
            return False
        vs = coq_list([f"({s}, {j})" for j, s in enumerate(c["steps"])])
        return eval_cases("C20_replay", "ckpt_case_ok", [f"({vs}, {nl(o['listing'])}, ({o['restored_step']}, {o['restored_id']}))"]) == []
    raise SystemExit("replay not supported for this record (re-run ./check C20)")


if __name__ == "__main__":
    import json
    import sys
    if len(sys.argv) >= 5 and sys.argv[1] == "--multidevice":
        import logging
        logging.getLogger("absl").setLevel(logging.ERROR)
        res = multidevice_worker(int(sys.argv[2]), int(sys.argv[3]), sys.argv[4] == "quick")
        print("C20-MULTIDEVICE " + json.dumps(res))
